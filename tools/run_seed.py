#!/usr/bin/env python3
"""Confirm a seeded breaking change and run checks against it.

  python3 tools/run_seed.py <dir with patch.diff + demo.py> --property C09 [--checks C09,C11] [--tier quick] [--keep-as NAME]

Steps (all in a scratch worktree of /repo under /var/tmp, removed afterwards; /repo itself is never touched):
  1. demo.py on the clean tree must exit 0;
  2. the patch must apply; the repository's own suite must still pass with it;
  3. demo.py on the patched tree must exit non-zero;
  4. each requested check is run with ADAPTIX_SRC pointing at the patched sources: caught = exit 1 with a VIOLATION line.
With --keep-as the seed is copied to /verif/seeded/<NAME>/ together with meta.json.
"""
import argparse
import json
import os
import shutil
import subprocess
import sys
import time

VERIF = os.path.dirname(os.path.dirname(os.path.abspath(__file__)))


def sh(cmd, cwd=None, env=None, timeout=3600):
    p = subprocess.run(cmd, shell=True, cwd=cwd, env=env, capture_output=True, text=True, timeout=timeout)
    return p.returncode, p.stdout + p.stderr


def main():  # noqa: C901, PLR0915
    ap = argparse.ArgumentParser()
    ap.add_argument("seed_dir")
    ap.add_argument("--property", required=True)
    ap.add_argument("--checks", default=None)
    ap.add_argument("--tier", default="quick")
    ap.add_argument("--keep-as", default=None)
    ap.add_argument("--needs", default="")
    ap.add_argument("--skip-suite", action="store_true")
    args = ap.parse_args()
    seed = os.path.abspath(args.seed_dir)
    checks = (args.checks or args.property).split(",")
    wt = f"/var/tmp/seedrun_{os.getpid()}"
    meta = {"property": args.property, "needs": args.needs, "ran": [], "checks": {}}
    rc, out = sh(f"git -C /repo worktree add --detach {wt} HEAD")
    if rc:
        print(out)
        sys.exit(2)
    try:
        env = dict(os.environ, PYTHONPATH=f"{wt}/src:{wt}/tests/tests_helpers", PYTHONDONTWRITEBYTECODE="1")
        demo = os.path.join(seed, "demo.py")
        rc, out = sh(f"/venv/bin/python {demo}", cwd=wt, env=env, timeout=600)
        meta["demo_clean_exit"] = rc
        meta["ran"].append("demo.py on the clean tree")
        print(f"demo on clean tree: exit {rc}")
        if rc != 0:
            print(out[-1500:])
        rc, out = sh(f"git -C {wt} apply {os.path.join(seed, 'patch.diff')}")
        if rc:
            # the seed was made against an earlier HEAD: try a three-way merge on the blobs named in the patch
            rc, out2 = sh(f"git -C {wt} apply -3 {os.path.join(seed, 'patch.diff')}")
            out += out2
            if not rc:
                sh(f"git -C {wt} reset -q")
                rc2, rebased = sh(f"git -C {wt} diff")
                meta["rebased"] = True
                with open(os.path.join(seed, "patch.rebased.diff"), "w") as f:
                    f.write(rebased)
        if rc:
            print("patch does not apply:\n" + out)
            meta["applies"] = False
            return finish(args, seed, meta)
        meta["applies"] = True
        rc, out = sh("git diff --stat", cwd=wt)
        meta["diffstat"] = out.strip().splitlines()[-1] if out.strip() else ""
        if not args.skip_suite:
            rc, out = sh("/venv/bin/python -m pytest -q -p no:cacheprovider --timeout=900 -x", cwd=wt, env=env, timeout=1800)
            tail = out.strip().splitlines()[-1] if out.strip() else ""
            meta["suite_with_patch"] = tail
            meta["suite_passes"] = rc == 0
            meta["ran"].append("repository suite with the patch")
            print(f"suite with patch: exit {rc}: {tail}")
        rc, out = sh(f"/venv/bin/python {demo}", cwd=wt, env=env, timeout=600)
        meta["demo_patched_exit"] = rc
        meta["demo_patched_output"] = out.strip()[-600:]
        meta["ran"].append("demo.py on the patched tree")
        print(f"demo on patched tree: exit {rc}")
        for cid in checks:
            t0 = time.time()
            cenv = dict(os.environ, ADAPTIX_SRC=f"{wt}/src", PYTHONDONTWRITEBYTECODE="1")
            # evidence of the real tree must not be overwritten by a mutant run: run from a scratch copy of /verif
            scratch = f"/var/tmp/seedverif_{os.getpid()}"
            if not os.path.exists(scratch):
                sh(f"rsync -a --exclude .git --exclude replays --exclude __pycache__ {VERIF}/ {scratch}/")
            rc, out = sh(f"/venv/bin/python run_check.py {cid} --tier {args.tier}", cwd=scratch, env=cenv, timeout=7200)
            viol = [l for l in out.splitlines() if l.startswith("VIOLATION")]
            what = [l.strip() for l in out.splitlines() if l.strip().startswith("what:")]
            caught = rc == 1 and bool(viol)
            meta["checks"][cid] = {"tier": args.tier, "exit": rc, "caught": caught, "violation_lines": len(viol),
                                   "first": what[0][:400] if what else "", "wall_s": round(time.time() - t0, 1)}
            meta["ran"].append(f"run_check.py {cid} --tier {args.tier} with ADAPTIX_SRC=<patched>")
            print(f"check {cid} [{args.tier}]: exit {rc} caught={caught} ({len(viol)} violation groups) {what[0][:200] if what else ''}")
            if rc == 2:
                print(out[-2000:])
        return finish(args, seed, meta)
    finally:
        sh(f"git -C /repo worktree remove --force {wt}")
        shutil.rmtree(f"/var/tmp/seedverif_{os.getpid()}", ignore_errors=True)


def finish(args, seed, meta):
    print(json.dumps(meta, indent=1)[:3000])
    if args.keep_as:
        dst = os.path.join(VERIF, "seeded", args.keep_as)
        os.makedirs(dst, exist_ok=True)
        if os.path.exists(os.path.join(seed, "patch.rebased.diff")):
            shutil.copy(os.path.join(seed, "patch.diff"), os.path.join(dst, "patch.original.diff"))
            shutil.copy(os.path.join(seed, "patch.rebased.diff"), os.path.join(seed, "patch.diff"))
        for f in ("patch.diff", "demo.py", "notes.md"):
            if os.path.exists(os.path.join(seed, f)):
                shutil.copy(os.path.join(seed, f), os.path.join(dst, f))
        old = {}
        if os.path.exists(os.path.join(dst, "meta.json")):
            with open(os.path.join(dst, "meta.json")) as f:
                old = json.load(f)
        merged_checks = {**old.get("checks", {}), **meta["checks"]}
        meta = {**old, **meta, "checks": merged_checks}
        with open(os.path.join(dst, "meta.json"), "w") as f:
            json.dump(meta, f, indent=1)
        print("kept as", dst)


if __name__ == "__main__":
    main()
