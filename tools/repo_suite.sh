#!/bin/sh
# run the repository's own suite on /repo (or $1) and print the summary line
cd ${1:-/repo} && /venv/bin/python -m pytest -q -p no:cacheprovider --timeout=900 -x 2>&1 | tail -3
