"""print the prompt for a seeding sub-agent: python tools/seed_prompt.py C01 /tmp/wt_c01 [n] [first_k] [file with changes to avoid]"""
import json
import sys

pid, wt = sys.argv[1], sys.argv[2]
n = int(sys.argv[3]) if len(sys.argv) > 3 else 2
k0 = int(sys.argv[4]) if len(sys.argv) > 4 else 1
avoid = open(sys.argv[5]).read().strip() if len(sys.argv) > 5 else ""
avoid_text = ("\nOther developers have ALREADY made the following changes; do not repeat them or close variants of them, look at other "
              "mechanisms, other files or other parts of the statement:\n" + avoid + "\n") if avoid else ""
rec = next(json.loads(l) for l in open("/verif/properties.jsonl") if json.loads(l)["id"] == pid)
print(f"""You are helping to evaluate a verification effort for the Python library adaptix (data-model conversion: loaders, dumpers, converters generated from type hints). Your job is to play the role of a developer who makes a realistic but WRONG change to the library.

You work ONLY inside the git worktree {wt} (a checkout of the library; source under {wt}/src/adaptix, tests under {wt}/tests, docs under {wt}/docs). Do not read or write anything under /verif or /repo, and never use `git stash` (the stash is shared with other worktrees). Run Python as /venv/bin/python with the worktree's sources first on the path, e.g. from the worktree root:
    PYTHONPATH={wt}/src:{wt}/tests/tests_helpers /venv/bin/python -m pytest -q -p no:cacheprovider -x        (the whole suite takes about 15 s; it must pass before and after your change: "2588 passed")
    PYTHONPATH={wt}/src /venv/bin/python your_demo.py

Here is a semantic property of the library that users rely on:

  id: {rec['id']}
  title: {rec['title']}
  statement: {rec['statement']}
  quantified over: {rec['quantifier']['text']}
  why the existing tests cannot settle it: {rec['why_tests_cant']}
  code it is anchored in: {', '.join(rec['anchors']['files'])}

TASK: produce {n} DIFFERENT changes to the library source (each independent, each starting from the clean worktree state) such that
  1. the library still imports and the ENTIRE existing test suite still passes with the change (run it; a change the suite catches is useless — find another);
  2. the change BREAKS the property above: there is an input / configuration / sequence of calls / thread interleaving for which the stated behaviour no longer holds;
  3. the breakage needs something SPECIFIC to manifest — a particular unusual input, a particular combination of options, a multi-step sequence of operations, a particular interleaving, or two cooperating sites that each look fine alone — NOT something ordinary use would expose at once;
  4. the change is the kind of mistake a real refactoring, optimisation or "small cleanup" could introduce (a few lines; no sabotage such as `if x == 42`, no new imports of random/time, no code that detects that it is being tested).
{avoid_text}For each change write into the directory {wt}/../seed_{pid.lower()}_<k>/ (k = {k0}..{k0 + n - 1}; create it):
  - patch.diff      : `git diff` of the change against the clean worktree (apply-able with `git apply` from the repository root);
  - demo.py         : a small stand-alone program using only the public adaptix API (plus stdlib) that exits 0 on the clean tree and exits 1 (printing what went wrong) with the change applied; it must be deterministic;
  - notes.md        : which part of the property it breaks, what exactly is needed for it to manifest, and the evidence that the suite passes with it (paste the final pytest summary line).
After producing each patch, reset the worktree with `git -C {wt} checkout -- . && git -C {wt} clean -fd -e '*.pyc'` before starting the next one, and at the very end leave the worktree clean.
Verify each demo yourself both ways (clean -> exit 0, patched -> exit 1). Keep your final message short: list the changes with one line each.""")
