#!/bin/bash
# confirm a fresh seed from /tmp/seed_<name> and run checks:  tools/triage.sh c04_8 C04 [C04,C06]
name=$1; prop=$2; checks=${3:-$2}
python3 /verif/tools/run_seed.py /tmp/seed_$name --property $prop --checks $checks --keep-as $name 2>&1 | grep -E '^(demo|check|patch|suite)' | cut -c1-420
