#!/usr/bin/env python3
"""Regression of the repairs: every `fixed:` entry of known_findings.json must be reported again when its commit is reverted.

  python3 tools/revert_fixes.py [commit-prefix ...]

For each fix commit: a scratch worktree of /repo (under /var/tmp, removed afterwards) with `git revert --no-commit <commit>`;
if the revert conflicts with later repairs the entry is listed as CONFLICT (not testable in isolation).  The quick tier of the
property's check runs with ADAPTIX_SRC pointing at the scratch sources from a scratch copy of /verif; detected = exit 1 with a
VIOLATION line.  Results are appended to mutants/REVERTS.md.
"""
import json
import os
import re
import shutil
import subprocess
import sys
import time

VERIF = os.path.dirname(os.path.dirname(os.path.abspath(__file__)))


def sh(cmd, cwd=None, env=None, timeout=3600):
    p = subprocess.run(cmd, shell=True, cwd=cwd, env=env, capture_output=True, text=True, timeout=timeout)
    return p.returncode, p.stdout + p.stderr


def main():
    want = sys.argv[1:]
    with open(os.path.join(VERIF, "known_findings.json")) as f:
        known = json.load(f)
    by_commit = {}
    for line in known["fixed"]:
        m = re.match(r"fixed: property=(C\d\d) ([0-9a-f]{7,}) (.*)", line)
        if m:
            by_commit.setdefault(m.group(2), (set(), m.group(3)))[0].add(m.group(1))
    scratch = f"/var/tmp/revverif_{os.getpid()}"
    sh(f"rsync -a --exclude .git --exclude replays --exclude __pycache__ {VERIF}/ {scratch}/")
    rows = []
    try:
        for commit, (props, what) in by_commit.items():
            if want and not any(commit.startswith(w) for w in want):
                continue
            wt = f"/var/tmp/revwt_{os.getpid()}"
            sh(f"git -C /repo worktree remove --force {wt}")
            rc, out = sh(f"git -C /repo worktree add --detach {wt} HEAD")
            if rc:
                print(out)
                sys.exit(2)
            try:
                rc, out = sh(f"git -C {wt} revert --no-commit {commit}")
                if rc:
                    rows.append((commit, ",".join(sorted(props)), "CONFLICT", "later repairs touch the same lines"))
                    print(f"{commit} revert conflicts", flush=True)
                    continue
                for pid in sorted(props):
                    t0 = time.time()
                    env = dict(os.environ, ADAPTIX_SRC=f"{wt}/src", PYTHONDONTWRITEBYTECODE="1")
                    try:
                        rc, out = sh(f"/venv/bin/python run_check.py {pid} --tier quick", cwd=scratch, env=env, timeout=2400)
                    except subprocess.TimeoutExpired:
                        rc, out = 3, ""
                    viol = [ln for ln in out.splitlines() if ln.startswith("VIOLATION")]
                    whats = [ln.strip()[6:] for ln in out.splitlines() if ln.strip().startswith("what:")]
                    verdict = "detected" if rc == 1 and viol else ("FRAMEWORK-ERROR" if rc == 2 else "TIMEOUT" if rc == 3 else "NOT DETECTED")
                    rows.append((commit, pid, verdict, whats[0][:150] if whats else ""))
                    print(f"{commit} {pid} {verdict:13s} {time.time() - t0:5.0f}s  {what[:60]} | {whats[0][:100] if whats else ''}", flush=True)
            finally:
                sh(f"git -C /repo worktree remove --force {wt}")
    finally:
        shutil.rmtree(scratch, ignore_errors=True)
    os.makedirs(os.path.join(VERIF, "mutants"), exist_ok=True)
    with open(os.path.join(VERIF, "mutants", "REVERTS.md"), "a") as f:
        f.write(f"\n## run of {time.strftime('%Y-%m-%d %H:%M')} (quick tier, each fix commit reverted alone)\n\n"
                "| commit | check | verdict | first counterexample |\n|---|---|---|---|\n")
        for r in rows:
            f.write("| " + " | ".join(str(x).replace("|", "\\|").replace("\n", " ") for x in r) + " |\n")


if __name__ == "__main__":
    main()
