#!/bin/bash
# re-run the checks against a seed already kept under seeded/<name>:  tools/reseed.sh c05_8 C05 [C05,C06]
set -e
name=$1; prop=$2; checks=${3:-$2}
src=/var/tmp/reseed_src_$$/$name
mkdir -p $(dirname $src); rm -rf $src; cp -r /verif/seeded/$name $src
python3 /verif/tools/run_seed.py $src --property $prop --checks $checks --keep-as $name --skip-suite 2>&1 | grep -E '^(demo|check|patch)' 
rm -rf /var/tmp/reseed_src_$$
