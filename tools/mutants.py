#!/usr/bin/env python3
"""Self-made mutants (one small semantic change each) run against the quick tier of the named checks.

  python3 tools/mutants.py [name-substring ...]          results appended to mutants/RESULTS.md

Each mutant = (name, file under src/adaptix/_internal, old text, new text, checks expected to catch it).
The library is copied to /var/tmp/mut_<pid>/src, the replacement applied there, the checks run with ADAPTIX_SRC pointing at
the copy from a scratch copy of /verif (so evidence of the real tree is not overwritten), and everything is removed again.
Whether the repository's own suite kills the mutant is NOT tested here (tools/run_seed.py does that for seeded changes); these
mutants only answer "can this check fail".
"""
import os
import shutil
import subprocess
import sys
import time

VERIF = os.path.dirname(os.path.dirname(os.path.abspath(__file__)))
I = "src/adaptix/_internal/"

MUTANTS = [
    ("router_offset", I + "retort/routers.py", "                    return routing_item[1], i + 1\n", "                    return routing_item[1], i\n", ["C09"]),
    ("router_combo_not_cleared", I + "retort/routers.py", "                result.append(self._combo)\n            self._combo = {}", "                result.append(self._combo)\n                self._combo = {}", ["C09"]),
    ("chain_swapped", I + "provider/provider_wrapper.py", "if self._chain == Chain.FIRST:\n                return self._make_chain(current_processor, next_processor)", "if self._chain == Chain.LAST:\n                return self._make_chain(current_processor, next_processor)", ["C09"]),
    ("extend_appends", I + "morphing/facade/retort.py", "tuple(recipe) + clone._instance_recipe", "clone._instance_recipe + tuple(recipe)", ["C09"]),
    ("int_isinstance", I + "morphing/concrete_provider.py", "def int_strict_coercion_loader(data):\n    if type(data) is int:", "def int_strict_coercion_loader(data):\n    if isinstance(data, int):", ["C02", "C07"]),
    ("abc_set_impl", I + "morphing/iterable_provider.py", "collections.abc.Set: frozenset,", "collections.abc.Set: set,", ["C02"]),
    ("mapping_exclusion_dropped", I + "morphing/iterable_provider.py", "        def iter_loader_sc(data):\n            if isinstance(data, CollectionsMapping):\n                raise ExcludedTypeLoadError(Iterable, Mapping, data)\n", "        def iter_loader_sc(data):\n", ["C02", "C06"]),
    ("decimal_dump_float", I + "morphing/concrete_provider.py", "    dumper=Decimal.__str__,", "    dumper=float,", ["C01", "C02"]),
    ("b64_newline", I + "morphing/concrete_provider.py", "            return b2a_base64(data, newline=False).decode(\"ascii\")\n        return bytes_base64_dumper", "            return b2a_base64(data, newline=True).decode(\"ascii\")\n        return bytes_base64_dumper", ["C01", "C02"]),
    ("time_no_micro", I + "morphing/concrete_provider.py", "    def _make_dumper(self):\n        return self._cls.isoformat\n", "    def _make_dumper(self):\n        cls = self._cls\n        return (lambda d: cls.isoformat(d, timespec='seconds')) if cls is not date else cls.isoformat\n", ["C01", "C02"]),
    ("overflow_leak", I + "morphing/concrete_provider.py", "    except OverflowError as e:\n        raise ValueLoadError(str(e), data)\n    except TypeError:\n        raise TypeLoadError(Union[int, float, str], data)\n\n\nINT_PROVIDER", "    except TypeError:\n        raise TypeLoadError(Union[int, float, str], data)\n\n\nINT_PROVIDER", ["C04"]),
    ("dict_all_skips_value_error", I + "morphing/dict_provider.py", "                try:\n                    loaded_value = value_loader(v)\n                except LoadError as e:\n                    errors.append(append_trail(e, k))\n", "                try:\n                    loaded_value = value_loader(v)\n                except LoadError as e:\n                    if not errors:\n                        errors.append(append_trail(e, k))\n", ["C05", "C06"]),
    ("item_key_dropped", I + "morphing/dict_provider.py", "                except LoadError as e:\n                    errors.append(append_trail(e, ItemKey(k)))", "                except LoadError as e:\n                    errors.append(append_trail(e, k))", ["C05"]),
    ("tuple_too_short_accepted", I + "morphing/constant_length_tuple_provider.py", "        def dt_first_loader(data):\n            try:\n                data_len = len(data)\n            except TypeError:\n                raise TypeLoadError(tuple, data)\n\n            if data_len != loaders_len:\n                if data_len > loaders_len:\n                    raise ExtraItemsLoadError(loaders_len, data)\n                if loaders_len > data_len:\n                    raise NoRequiredItemsLoadError(loaders_len, data)\n", "        def dt_first_loader(data):\n            try:\n                data_len = len(data)\n            except TypeError:\n                raise TypeLoadError(tuple, data)\n\n            if data_len != loaders_len:\n                if data_len > loaders_len:\n                    raise ExtraItemsLoadError(loaders_len, data)\n", ["C02", "C06"]),
    ("union_all_late_success", I + "morphing/generic_provider.py", "                else:\n                    if not has_unexpected_error:\n                        return result\n", "                else:\n                    return result\n", ["C06"]),
    ("literal_cache_key", I + "morphing/generic_provider.py", "            case_types=tuple(type(arg) for arg in norm.args),  # since (0, 1) == (False, True)\n", "            case_types=(),\n", ["C11", "C02"]),
    ("merge_map_flipped", I + "morphing/name_layout/component.py", "        return new + old", "        return old + new", ["C03"]),
    ("skip_only_inverted", I + "morphing/name_layout/component.py", "                not apply_lsc(mediator, request, schema.skip, field)\n                and apply_lsc(mediator, request, schema.only, field)", "                apply_lsc(mediator, request, schema.only, field)\n                or not apply_lsc(mediator, request, schema.skip, field)", ["C03"]),
    ("sieve_is_not", I + "morphing/model/dumper_gen.py", "                    f\"{input_expr} != {literal_expr}\"\n                )\n            v_default", "                    f\"{input_expr} is not {literal_expr}\"\n                )\n            v_default", ["C03"]),
    ("sieve_dumped_value", I + "morphing/model/dumper_gen.py", "        condition = self._get_sieve_condition(state, sieve, key, raw_expr)", "        condition = self._get_sieve_condition(state, sieve, key, element_expr.expr)", ["C03"]),
    ("trim_all_underscores", I + "morphing/name_layout/component.py", "and not name.endswith(\"__\"):", "and True:", ["C03"]),
    ("extra_hoisted", I + "morphing/model/loader_gen.py", "                state.builder += f\"{state.v_extra} = {{}}\"", "                state.namespace.add_constant(state.v_extra + '_c', {})\n                state.builder += f\"{state.v_extra} = {state.v_extra}_c\"", ["C20", "C03"]),
    ("extra_collect_copies_known", I + "morphing/model/loader_gen.py", "                        for key in set({state.v_data}) - {state.v_known_keys}:", "                        for key in set({state.v_data}):", ["C03"]),
    ("required_keys_from_ids", I + "morphing/model/loader_gen.py", "            key for key, value in crown.map.items()\n            if not (isinstance(value, InpFieldCrown) and self._id_to_field[value.id].is_optional)", "            (value.id if isinstance(value, InpFieldCrown) else key) for key, value in crown.map.items()\n            if not (isinstance(value, InpFieldCrown) and self._id_to_field[value.id].is_optional)", ["C03", "C05"]),
    ("packed_not_skipped", I + "morphing/model/loader_gen.py", "                if self._is_packed_field(field):\n                    has_skipped_params = True\n                    continue", "                if self._is_packed_field(field):\n                    continue", ["C08"]),
    ("tuple_literal_no_comma", I + "code_tools/utils.py", "        if len(obj) == 1:\n            return \"(\" + _provide_lit_expr(obj[0]) + \",)\"\n", "", ["C08"]),
    ("builtin_by_eq", I + "code_tools/utils.py", "    if name is not None and NAME_TO_BUILTIN[name] is obj:", "    if name is not None:", ["C08"]),
    ("provide_lock_removed", I + "retort/searching_retort.py", "        with self._provide_lock:\n            return self._create_mediator(request).provide(request)", "        return self._create_mediator(request).provide(request)", ["C12"]),
    ("loader_cache_module_level", I + "morphing/facade/retort.py", "        self._loader_cache = {}\n        self._dumper_cache = {}", "        self._loader_cache = _SHARED_LOADERS\n        self._dumper_cache = {}", ["C11"]),
    ("clone_shares_call_cache", I + "retort/searching_retort.py", "        self._call_cache: dict[Any, Any] = {}\n", "        self._call_cache: dict[Any, Any] = getattr(self, '_call_cache', {})\n", ["C11"]),
    ("dict_dumper_returns_input", I + "morphing/dict_provider.py", "        def dict_dumper_dt_disable(data: Mapping):\n            result = {}", "        def dict_dumper_dt_disable(data: Mapping):\n            if key_dumper is value_dumper:\n                return data\n            result = {}", ["C20", "C06"]),
    ("named_tuple_defaults_wrong", I + "model_tools/introspection/named_tuple.py", "DefaultValue(tp._field_defaults[field_id])", "DefaultValue(tp._field_defaults.get(field_id, None) and None)", ["C17", "C08"]),
    ("sanitizer_keyword", I + "code_tools/name_sanitizer.py", "        return result + \"_\" if iskeyword(result) else result", "        return result", ["C19"]),
    ("render_key_no_repr", I + "morphing/model/loader_gen.py", "                    {assign_to} = {state.parent.v_data}[{last_path_el!r}]", "                    {assign_to} = {state.parent.v_data}[{('\"' + last_path_el + '\"') if isinstance(last_path_el, str) else last_path_el}]", ["C19"]),
]


def sh(cmd, cwd=None, env=None, timeout=3600):
    p = subprocess.run(cmd, shell=True, cwd=cwd, env=env, capture_output=True, text=True, timeout=timeout)
    return p.returncode, p.stdout + p.stderr


def main():
    want = sys.argv[1:]
    root = f"/var/tmp/mut_{os.getpid()}"
    scratch = f"/var/tmp/mutverif_{os.getpid()}"
    sh(f"rsync -a --exclude .git --exclude replays --exclude __pycache__ {VERIF}/ {scratch}/")
    rows = []
    try:
        for name, path, old, new, checks in MUTANTS:
            if want and not any(w in name for w in want):
                continue
            shutil.rmtree(root, ignore_errors=True)
            os.makedirs(root)
            sh(f"rsync -a --exclude __pycache__ /repo/src {root}/")
            target = os.path.join(root, path)
            text = open(target).read()
            if name == "loader_cache_module_level":
                text = text.replace("class AdornedRetort(OperatingRetort):", "_SHARED_LOADERS: dict = {}\n\n\nclass AdornedRetort(OperatingRetort):")
            if text.count(old) != 1:
                rows.append((name, "-", "MUTANT DOES NOT APPLY", ""))
                print(name, "does not apply (count", text.count(old), ")")
                continue
            open(target, "w").write(text.replace(old, new))
            rc, out = sh(f"ADAPTIX_SRC={root}/src /venv/bin/python -c 'import sys; sys.path.insert(0, \"{root}/src\"); import adaptix'")
            if rc:
                rows.append((name, "-", "MUTANT DOES NOT IMPORT", out[-200:]))
                print(name, "does not import")
                continue
            for cid in checks:
                t0 = time.time()
                env = dict(os.environ, ADAPTIX_SRC=f"{root}/src", PYTHONDONTWRITEBYTECODE="1")
                env["VERIF_STALL"] = "400"
                try:
                    rc, out = sh(f"/venv/bin/python run_check.py {cid} --tier quick", cwd=scratch, env=env, timeout=2400)
                except subprocess.TimeoutExpired:
                    rc, out = 3, "check did not finish within 2400 s"
                viol = [l for l in out.splitlines() if l.startswith("VIOLATION")]
                what = [l.strip()[6:] for l in out.splitlines() if l.strip().startswith("what:")]
                verdict = "caught" if rc == 1 and viol else ("FRAMEWORK-ERROR" if rc == 2 else "TIMEOUT" if rc == 3 else "MISSED")
                rows.append((name, cid, verdict, (what[0][:160] if what else out.strip()[-160:] if rc == 2 else "")))
                print(f"{name:32s} {cid} {verdict:8s} {time.time() - t0:5.0f}s  {what[0][:120] if what else ''}", flush=True)
    finally:
        shutil.rmtree(root, ignore_errors=True)
        shutil.rmtree(scratch, ignore_errors=True)
    os.makedirs(os.path.join(VERIF, "mutants"), exist_ok=True)
    with open(os.path.join(VERIF, "mutants", "RESULTS.md"), "a") as f:
        f.write(f"\n## run of {time.strftime('%Y-%m-%d %H:%M')} (quick tier)\n\n| mutant | check | verdict | first counterexample |\n|---|---|---|---|\n")
        for r in rows:
            f.write("| " + " | ".join(str(x).replace("|", "\\|").replace("\n", " ") for x in r) + " |\n")


if __name__ == "__main__":
    main()
