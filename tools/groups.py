"""Summarise the replay files of the last run of a check: python tools/groups.py C04 [substring]"""
import collections
import glob
import json
import sys

pid = sys.argv[1]
flt = sys.argv[2] if len(sys.argv) > 2 else ""
rows = [json.load(open(f)) for f in glob.glob(f"/verif/replays/{pid}/*.json")]
rows.sort(key=lambda d: json.dumps(d["signature"], sort_keys=True))
n = 0
for d in rows:
    line = f"{d['count']:6d} {json.dumps(d['signature'], sort_keys=True)}"
    if flt and flt not in line and flt not in d["what"]:
        continue
    n += 1
    print(line[:220])
    print("        " + d["what"][:260])
print(f"{n} groups shown of {len(rows)}")
