"""Accumulator for what a run covered and what it found; mergeable across worker shards."""
import hashlib
import json
import time
from collections import Counter


def digest(key) -> int:
    if not isinstance(key, (str, bytes)):
        key = json.dumps(key, sort_keys=True, default=repr)
    if isinstance(key, str):
        key = key.encode("utf-8", "backslashreplace")
    return int.from_bytes(hashlib.blake2b(key, digest_size=8).digest(), "big")


class Report:
    MAX_SAMPLES = 12
    MAX_PER_SIG = 3

    def __init__(self):
        self.evaluations = 0
        self.nontrivial = set()      # digests of distinct non-trivial case keys
        self.samples = []
        self.outcomes = Counter()    # name -> count, for non-vacuity statistics
        self.counters = Counter()    # free-form measured counts (states, transitions, ...)
        self.violations = {}         # signature key -> {"sig","what","case","count"}
        self.skipped = Counter()     # rule -> count
        self.capped = False
        self.notes = []
        self._next_sample = 1

    # ---- recording
    def case(self, key=None, nontrivial=False, sample=None, n=1):
        self.evaluations += n
        if nontrivial and key is not None:
            self.nontrivial.add(digest(key))
        if sample is not None and self.evaluations >= self._next_sample and len(self.samples) < self.MAX_SAMPLES:
            self.samples.append(sample() if callable(sample) else sample)
            self._next_sample *= 10

    def outcome(self, name, n=1):
        self.outcomes[name] += n

    def count(self, name, n=1):
        self.counters[name] += n

    def skip(self, rule, n=1):
        self.skipped[rule] += n

    def violation(self, sig: dict, what: str, case):
        """sig: small dict identifying the root cause (used for known-finding matching and grouping);
        case: JSON-serialisable description sufficient for --replay."""
        key = json.dumps(sig, sort_keys=True, default=repr)
        slot = self.violations.get(key)
        if slot is None:
            self.violations[key] = {"sig": sig, "what": what, "case": case, "count": 1}
        else:
            slot["count"] += 1

    # ---- merging
    def dump(self):
        return {
            "evaluations": self.evaluations, "nontrivial": self.nontrivial, "samples": self.samples,
            "outcomes": self.outcomes, "counters": self.counters, "violations": self.violations,
            "skipped": self.skipped, "capped": self.capped, "notes": self.notes,
        }

    def merge(self, other):
        if isinstance(other, Report):
            other = other.dump()
        self.evaluations += other["evaluations"]
        self.nontrivial |= other["nontrivial"]
        for s in other["samples"]:
            if len(self.samples) < self.MAX_SAMPLES:
                self.samples.append(s)
        self.outcomes.update(other["outcomes"])
        self.counters.update(other["counters"])
        self.skipped.update(other["skipped"])
        self.capped = self.capped or other["capped"]
        for n in other["notes"]:
            if n not in self.notes:
                self.notes.append(n)
        for key, v in other["violations"].items():
            slot = self.violations.get(key)
            if slot is None:
                self.violations[key] = dict(v)
            else:
                slot["count"] += v["count"]
                # keep the simpler case (shorter description)
                if len(json.dumps(v["case"], default=repr)) < len(json.dumps(slot["case"], default=repr)):
                    slot["case"], slot["what"] = v["case"], v["what"]


class Deadline:
    def __init__(self, seconds):
        self.t0 = time.time()
        self.seconds = seconds

    def passed(self):
        return self.seconds is not None and time.time() - self.t0 > self.seconds

    def remaining(self):
        return None if self.seconds is None else max(0.0, self.seconds - (time.time() - self.t0))
