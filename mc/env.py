"""Process environment shared by all checks: which adaptix is explored, hash seed, cache resets."""
import os
import sys

VERIF_ROOT = os.path.dirname(os.path.dirname(os.path.abspath(__file__)))
DEFAULT_SRC = "/repo/src"


def adaptix_src() -> str:
    return os.path.abspath(os.environ.get("ADAPTIX_SRC", DEFAULT_SRC))


def ensure_hashseed():
    """Re-exec once with PYTHONHASHSEED=0 so str-keyed set/dict iteration is reproducible."""
    if os.environ.get("PYTHONHASHSEED") != "0":
        os.environ["PYTHONHASHSEED"] = "0"
        os.execv(sys.executable, [sys.executable, *sys.argv])


def setup_path():
    src = adaptix_src()
    if src != DEFAULT_SRC:
        sys.path.insert(0, src)
    if VERIF_ROOT not in sys.path:
        sys.path.insert(0, VERIF_ROOT)
    os.environ.setdefault("ADAPTIX_VERIF", "1")
    import adaptix

    got = os.path.abspath(adaptix.__file__)
    if not got.startswith(src + os.sep):
        raise SystemExit(f"FRAMEWORK-ERROR: adaptix imported from {got}, expected under {src}")
    sys.dont_write_bytecode = True


def seed() -> int:
    try:
        return int(os.environ.get("VERIF_SEED", "0"))
    except ValueError:
        return 0


_CLEARERS = {"modules": -1, "found": []}


def reset_process_caches():
    """Return the process-wide caches that could make one case depend on an earlier one to their cold state."""
    import linecache
    import typing

    # every functools cache living at module level of the library (found by scanning, so a renamed or added cache is reset too;
    # the scan is repeated only when new modules were imported)
    if _CLEARERS["modules"] != len(sys.modules):
        found = []
        for name, mod in list(sys.modules.items()):
            if name == "adaptix" or name.startswith("adaptix."):
                for obj in list(vars(mod).values()):
                    clear = getattr(obj, "cache_clear", None)
                    if callable(clear) and not isinstance(obj, type):
                        found.append(clear)
        _CLEARERS["modules"], _CLEARERS["found"] = len(sys.modules), found
    for clear in _CLEARERS["found"]:
        try:
            clear()
        except Exception:  # noqa: BLE001, S110
            pass
    for cleanup in getattr(typing, "_cleanups", ()):
        cleanup()
    try:
        from adaptix._internal.code_tools import compiler
        compiler._counter._name_to_idx.clear()      # unique-file-name counter: only affects names of generated files
    except Exception:  # noqa: BLE001, S110
        pass
    linecache.clearcache()


def ncpu() -> int:
    try:
        return int(os.environ.get("VERIF_JOBS", "0")) or len(os.sched_getaffinity(0))
    except (AttributeError, ValueError):
        return os.cpu_count() or 1


class CaseTimeout(BaseException):
    """one case of a check ran longer than its deadline: the code under test does not terminate on it"""


class deadline:  # noqa: N801
    """with deadline(20): ...   raises CaseTimeout inside the block after that many seconds of wall time (main thread only;
    a pure-Python loop is interrupted at the next bytecode boundary).  A BaseException so that ``except Exception`` in the
    code under test cannot swallow it."""

    def __init__(self, seconds):
        self.seconds = seconds

    def _fire(self, signum, frame):
        raise CaseTimeout(f"no result within {self.seconds} s")

    def __enter__(self):
        import signal
        import threading
        self.active = threading.current_thread() is threading.main_thread()
        if self.active:
            self.old = signal.signal(signal.SIGALRM, self._fire)
            signal.setitimer(signal.ITIMER_REAL, self.seconds)
        return self

    def __exit__(self, *exc):
        import signal
        if self.active:
            signal.setitimer(signal.ITIMER_REAL, 0)
            signal.signal(signal.SIGALRM, self.old)
        return False
