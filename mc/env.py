"""Process environment shared by all checks: which adaptix is explored, hash seed, cache resets."""
import os
import sys

VERIF_ROOT = os.path.dirname(os.path.dirname(os.path.abspath(__file__)))
DEFAULT_SRC = "/repo/src"


def adaptix_src() -> str:
    return os.path.abspath(os.environ.get("ADAPTIX_SRC", DEFAULT_SRC))


def ensure_hashseed():
    """Re-exec once with PYTHONHASHSEED=0 so str-keyed set/dict iteration is reproducible."""
    if os.environ.get("PYTHONHASHSEED") != "0":
        os.environ["PYTHONHASHSEED"] = "0"
        os.execv(sys.executable, [sys.executable, *sys.argv])


def setup_path():
    src = adaptix_src()
    if src != DEFAULT_SRC:
        sys.path.insert(0, src)
    if VERIF_ROOT not in sys.path:
        sys.path.insert(0, VERIF_ROOT)
    os.environ.setdefault("ADAPTIX_VERIF", "1")
    import adaptix

    got = os.path.abspath(adaptix.__file__)
    if not got.startswith(src + os.sep):
        raise SystemExit(f"FRAMEWORK-ERROR: adaptix imported from {got}, expected under {src}")
    sys.dont_write_bytecode = True


def seed() -> int:
    try:
        return int(os.environ.get("VERIF_SEED", "0"))
    except ValueError:
        return 0


def reset_process_caches():
    """Return the process-wide caches that could make one case depend on an earlier one to their cold state."""
    import linecache
    import typing

    from adaptix._internal.code_tools import compiler
    import importlib

    nt = importlib.import_module("adaptix._internal.type_tools.normalize_type")
    nt._cached_normalize.cache_clear()
    for cleanup in typing._cleanups:
        cleanup()
    counter = compiler._counter
    counter._name_to_idx.clear()
    linecache.clearcache()


def ncpu() -> int:
    try:
        return int(os.environ.get("VERIF_JOBS", "0")) or len(os.sched_getaffinity(0))
    except (AttributeError, ValueError):
        return os.cpu_count() or 1
