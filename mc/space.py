"""TypeSpec grammar, real hints, hostile data alphabet and value alphabets of the MATRIX engine.

A TypeSpec is a JSON-serialisable nested list: ["int"], ["List", ts], ["Dict", k, v], ["Tuple", t1, t2],
["Union", t1, t2], ["Literal", "L01"], ...   (tuples are used internally so that specs are hashable).
"""
import collections
import collections.abc
import datetime as dt
import enum
import io
import ipaddress
import pathlib
import re
import typing
import uuid
from decimal import Decimal
from fractions import Fraction
from typing import (
    AbstractSet,
    Annotated,
    Any,
    Collection,
    DefaultDict,
    Deque,
    Dict,
    Final,
    FrozenSet,
    Iterable,
    List,
    Literal,
    Mapping,
    MutableMapping,
    MutableSequence,
    MutableSet,
    NewType,
    Optional,
    Reversible,
    Sequence,
    Set,
    Tuple,
    Union,
)

from . import codec

# ------------------------------------------------------------------------------------------------------------
# enum classes used as leaves


class Color(enum.Enum):
    RED = "red"
    GREEN = "green"


class Num(enum.IntEnum):
    ONE = 1
    TWO = 2


class StrE(str, enum.Enum):
    A = "a"
    B = "b"


class Perm(enum.Flag):
    R = enum.auto()
    W = enum.auto()
    X = enum.auto()


class IPerm(enum.IntFlag):
    R = 1
    W = 2


for _c in (Color, Num, StrE, Perm, IPerm):
    codec.register(_c.__name__, _c)

UserId = NewType("UserId", int)

# PEP 695 aliases (Python 3.12)
_ns: dict = {}
exec("type Ints = list[int]\ntype LAlias[T] = list[T]\n", _ns)  # noqa: S102
Ints = _ns["Ints"]
LAlias = _ns["LAlias"]

LITERALS = {
    "L01": (0, 1),
    "LFT": (False, True),
    "L0F": (0, False),
    "L0a": (0, "a"),
    "L1a": (1, "a"),
    "La": ("a",),
    "L2": (2, "b"),
    "Lbig": ("a", "b", 2, 3, 4, 5),
    "Lbytes": (b"ab", "x"),
    "Lenum0": (Color.RED, 0),
    "Lenum5": (Color.RED, 5),
    "LenumB": (Color.RED, b"x"),
    "Lenum2": (Color.RED, Num.ONE, "z"),
    "LNone1": (None, 1),
    "L4": ("a", "b", "c", "d"),
    "L5": ("a", "b", "c", "d", "e"),
    "LbigT": (0, True, "a", "b", "c", "d"),      # set-backed AND typed (0/True) lookup
}

ENUMS = {"Color": Color, "Num": Num, "StrE": StrE}
FLAGS = {"Perm": Perm, "IPerm": IPerm}

SCALARS = {
    "int": int, "float": float, "str": str, "bool": bool, "None": None, "Any": Any, "object": object,
    "Decimal": Decimal, "Fraction": Fraction, "complex": complex,
    "bytes": bytes, "bytearray": bytearray, "ByteString": typing.ByteString, "BytesIO": io.BytesIO, "IOBytes": typing.IO[bytes],
    "date": dt.date, "time": dt.time, "datetime": dt.datetime, "timedelta": dt.timedelta,
    "UUID": uuid.UUID, "IPv4Address": ipaddress.IPv4Address, "IPv6Network": ipaddress.IPv6Network,
    "IPv4Interface": ipaddress.IPv4Interface,
    "PurePosixPath": pathlib.PurePosixPath, "Path": pathlib.Path, "PathLike": __import__("os").PathLike[str],
    "Pattern": re.Pattern, "LiteralString": typing.LiteralString,
}

# wrappers that must be transparent: name -> (hint, underlying TypeSpec)
WRAPPED = {
    "NewType_int": (UserId, ("int",)),
    "Annotated_int": (Annotated[int, "meta"], ("int",)),
    "Final_int": (Final[int], ("int",)),
    "Alias_Ints": (Ints, ("list", ("int",))),
    "Alias_L_int": (LAlias[int], ("list", ("int",))),
    "Annotated_List_str": (Annotated[List[str], 1], ("List", ("str",))),
}

UNARY = {
    "List": List, "list": list, "Set": Set, "FrozenSet": FrozenSet, "TupleVar": None, "Deque": Deque,
    "Sequence": Sequence, "MutableSequence": MutableSequence, "Iterable": Iterable, "Reversible": Reversible,
    "Collection": Collection, "AbstractSet": AbstractSet, "MutableSet": MutableSet, "Optional": Optional,
}
# the concrete result type each iterable constructor loads to ("minimal suitable type")
ITER_IMPL = {
    "List": list, "list": list, "Set": set, "FrozenSet": frozenset, "TupleVar": tuple, "Deque": collections.deque,
    "Sequence": tuple, "MutableSequence": list, "Iterable": tuple, "Reversible": tuple, "Collection": tuple,
    "AbstractSet": frozenset, "MutableSet": set,
}
SET_LIKE = {"Set", "FrozenSet", "AbstractSet", "MutableSet"}
DICTS = {"Dict": Dict, "Mapping": Mapping, "MutableMapping": MutableMapping, "DefaultDict": DefaultDict}

LEAVES_FULL = (
    [(n,) for n in SCALARS]
    + [("Enum", n) for n in ENUMS]
    + [("Flag", n) for n in FLAGS]
    + [("Literal", n) for n in LITERALS]
    + [("Wrapped", n) for n in WRAPPED]
)
# one leaf per loader family
LEAVES_REDUCED = [("int",), ("str",), ("float",), ("Decimal",), ("bytes",), ("Enum", "Color"), ("Literal", "L0a"),
                  ("Any",)]
LEAVES_TINY = [("int",), ("str",), ("Decimal",), ("Literal", "L01")]
KEY_LEAVES = [("str",), ("int",), ("Decimal",), ("Enum", "StrE")]


def to_hint(ts):  # noqa: C901, PLR0911, PLR0912
    h = ts[0]
    if h in SCALARS:
        return SCALARS[h]
    if h == "Enum":
        return ENUMS[ts[1]]
    if h == "Flag":
        return FLAGS[ts[1]]
    if h == "Literal":
        return Literal[LITERALS[ts[1]]]
    if h == "Wrapped":
        return WRAPPED[ts[1]][0]
    if h == "TupleVar":
        return Tuple[to_hint(ts[1]), ...]
    if h in UNARY:
        return UNARY[h][to_hint(ts[1])]
    if h in DICTS:
        return DICTS[h][to_hint(ts[1]), to_hint(ts[2])]
    if h == "Tuple":
        return Tuple[tuple(to_hint(t) for t in ts[1:])]
    if h == "Union":
        return Union[tuple(to_hint(t) for t in ts[1:])]
    raise ValueError(ts)


def show(ts):
    h = ts[0]
    if len(ts) == 1:
        return h
    if h in ("Enum", "Flag", "Literal", "Wrapped"):
        return f"{h}:{ts[1]}"
    return f"{h}[{', '.join(show(t) for t in ts[1:])}]"


def to_json(ts):
    return [ts[0]] + [to_json(t) if isinstance(t, tuple) else t for t in ts[1:]]


def from_json(j):
    return (j[0], *[from_json(t) if isinstance(t, list) else t for t in j[1:]])


def unwrap(ts):
    while ts[0] == "Wrapped":
        ts = WRAPPED[ts[1]][1]
    # typing flattens nested unions: Optional[Union[A, B]] is Union[A, B, None], Union[Union[A, B], C] is Union[A, B, C]
    if ts[0] == "Optional":
        inner = unwrap(ts[1])
        if inner[0] == "Union":
            return ("Union", *inner[1:], ("None",)) if ("None",) not in inner[1:] else inner
        if inner[0] == "Optional":
            return inner
    if ts[0] == "Union":
        cases = []
        for c in ts[1:]:
            u = unwrap(c)
            if u[0] == "Union":
                cases.extend(u[1:])
            elif u[0] == "Optional":
                cases.extend([u[1], ("None",)])
            else:
                cases.append(c)
        dedup = []
        for c in cases:
            if c not in dedup:
                dedup.append(c)
        if len(dedup) != len(ts) - 1 or any(a is not b for a, b in zip(dedup, ts[1:])):
            return ("Union", *dedup)
    return ts


def has_multi_union(ts):
    """does the type contain a union with two or more non-None cases? (each case loader consumes a one-shot iterator)"""
    u = unwrap(ts)
    if u[0] == "Union" and len([c for c in u[1:] if unwrap(c)[0] != "None"]) >= 2:
        return True
    return any(has_multi_union(t) for t in u[1:] if isinstance(t, tuple))


def depth(ts):
    subs = [t for t in ts[1:] if isinstance(t, tuple)]
    return 1 + max((depth(t) for t in subs), default=0)


# ------------------------------------------------------------------------------------------------------------
# hashability of loaded values (Set elements / dict keys are only generated for these)

UNHASHABLE_RESULT = {"List", "list", "Set", "Deque", "MutableSequence", "MutableSet", "Dict", "Mapping",
                     "MutableMapping", "DefaultDict", "bytearray", "BytesIO", "IOBytes"}


def result_hashable(ts):
    ts = unwrap(ts)
    if ts[0] in UNHASHABLE_RESULT:
        return False
    if ts[0] in ("Any", "object"):
        return True   # hashability is a property of the datum there
    return all(result_hashable(t) for t in ts[1:] if isinstance(t, tuple))


ABSTRACT_COLLECTIONS = {"Sequence", "MutableSequence", "Iterable", "Reversible", "Collection", "AbstractSet", "MutableSet", "Mapping",
                        "MutableMapping", "ByteString", "PathLike"}


def dumper_exists(ts):
    """Union dumper works only with class type hints and Literal (documented); it picks the case by the .mro() of the value's
    class (documented), which never contains an abstract collection class: unions with such cases are left out."""
    ts = unwrap(ts)
    if ts[0] == "Union" and len([c for c in ts[1:] if unwrap(c)[0] != "None"]) >= 2:
        for case in ts[1:]:
            c = unwrap(case)
            if c[0] in ("Any", "LiteralString", "Union", "Optional") or c[0] in ABSTRACT_COLLECTIONS:
                return False
    return all(dumper_exists(t) for t in ts[1:] if isinstance(t, tuple))


# ------------------------------------------------------------------------------------------------------------
# type enumeration

def types_depth1():
    return list(LEAVES_FULL)


TOP_ONLY = {("Wrapped", "Final_int")}


def _unary_over(leaves):
    out = []
    for u in UNARY:
        for leaf in leaves:
            if leaf in TOP_ONLY:
                continue
            if u in SET_LIKE and not result_hashable(leaf):
                continue
            if u == "Optional" and unwrap(leaf)[0] == "None":
                continue
            out.append((u, leaf))
    return out


def _binary_over(leaves, tiny):
    out = []
    for d in DICTS:
        for k in KEY_LEAVES:
            for v in leaves:
                out.append((d, k, v))
    for a in leaves:
        for b in leaves:
            out.append(("Tuple", a, b))
    for a in tiny:
        for b in tiny:
            for c in tiny:
                out.append(("Tuple", a, b, c))
    out.append(("Tuple", ("int",)))
    for a in leaves:
        for b in leaves:
            if a != b and a[0] != "Any" and b[0] != "Any":
                out.append(("Union", a, b))
    for i, a in enumerate(leaves):
        for b in leaves[i + 1:]:
            if a[0] != "Any" and b[0] != "Any":
                out.append(("Union", a, b, ("None",)))
    # a few unions the reduced leaves do not produce: bool/int look-alikes, literal + scalar, models of subclassing
    out += [
        ("Union", ("int",), ("bool",)), ("Union", ("bool",), ("int",)), ("Union", ("Literal", "La"), ("int",)),
        ("Union", ("Literal", "L01"), ("Decimal",)), ("Union", ("Literal", "L01"), ("str",)),
        ("Union", ("float",), ("str",)), ("Union", ("Enum", "Num"), ("str",)),
        ("Union", ("date",), ("int",)), ("Union", ("bytes",), ("int",)), ("Union", ("Flag", "Perm"), ("str",)),
    ]
    return out


def types_depth2():
    return _unary_over(LEAVES_FULL) + _binary_over(LEAVES_REDUCED, LEAVES_TINY)


def types_depth3():
    """Third level: every unary constructor over the second level built from one leaf per loader family."""
    inner = _unary_over(LEAVES_REDUCED) + _binary_over(LEAVES_TINY, LEAVES_TINY[:2])
    out = []
    for u in UNARY:
        for t in inner:
            if u in SET_LIKE and not result_hashable(t):
                continue
            if u == "Optional" and t[0] in ("Optional",):
                continue
            out.append((u, t))
    mids = [("List", ("int",)), ("Optional", ("str",)), ("Dict", ("str",), ("int",)), ("Tuple", ("int",), ("str",)),
            ("Union", ("int",), ("str",)), ("Set", ("int",)), ("Sequence", ("Decimal",))]
    for d in DICTS:
        for v in mids:
            out.append((d, ("str",), v))
    for a in mids:
        for b in [*mids, ("int",)]:
            out.append(("Tuple", a, b))
            if a != b and a[0] not in ("Union", "Optional") and b[0] not in ("Union", "Optional"):
                out.append(("Union", a, b))
    return out


# ------------------------------------------------------------------------------------------------------------
# data alphabet


class Datum:
    """A named datum; fresh() gives a new object for one-shot things, the same object otherwise."""
    __slots__ = ("name", "make", "one_shot", "tags")

    def __init__(self, name, make, one_shot=False, tags=()):
        self.name, self.make, self.one_shot, self.tags = name, make, one_shot, frozenset(tags)

    def fresh(self):
        return self.make()

    def __repr__(self):
        return f"Datum({self.name})"


def const(v, name=None, tags=()):
    return Datum(name or codec.show(v, 60), lambda: v, tags=tags)


class GetOnly:
    """object that only has .get (model loaders probe with .get or [] depending on the variant)"""

    def get(self, key, default=None):
        return default

    def __eq__(self, other):
        return type(other) is GetOnly

    def __hash__(self):
        return 7

    def __repr__(self):
        return "GetOnly()"


class MyMapping(collections.abc.Mapping):
    def __init__(self, d):
        self._d = d

    def __getitem__(self, k):
        return self._d[k]

    def __iter__(self):
        return iter(self._d)

    def __len__(self):
        return len(self._d)

    def __repr__(self):
        return f"MyMapping({self._d!r})"


class IterOnly:
    """re-iterable, but neither Sized nor an Iterator (only __iter__)"""

    def __init__(self, items):
        self._items = list(items)

    def __iter__(self):
        return iter(self._items)

    def __repr__(self):
        return f"IterOnly({self._items!r})"


class MyStr(str):
    __slots__ = ()


class MyInt(int):
    pass


class MyList(list):
    pass


_OBJ = object()

A0 = [
    const(None), const(True), const(False), const(0), const(1), const(-1), const(2), const(13), const(2**70), const(10**400, "10**400"), const(10**5000, "10**5000"),
    const(0.0), const(-0.0), const(1.0), const(1.5), const(-1.5), const(1e308), const(float("nan"), "nan"),
    const(float("inf"), "inf"), const(float("-inf"), "-inf"),
    const(""), const("a"), const("b"), const("x"), const("red"), const("1"), const("1.5"), const(" 1 "), const("é"),
    const("１", "fullwidth-1"),
    const("1/0"), const("1/2"), const("nan"), const("Infinity"), const("1+2j"), const("QQ=="), const("eA=="), const("YWI="),
    const("QQ"), const("QQ==\n", "QQ==\\n"), const("\n", "LF"), const("1\n", "1\\n"), const("a\n", "a\\n"), const("QQ=Q"), const("YWJj\ud800", "YWJj+lone-surrogate"), const("=QQ="), const("Q==="), const("2020-01-01"), const("10:20:30"),
    const("2020-01-01T10:20:30"), const("zz"), const("[a-z]+"), const("("), const("a{99999999999999999999}"), const("127.0.0.1"),
    const("12345678-1234-5678-1234-567812345678"),
    const(b""), const(b"x"), const(bytearray(b"x")),
    Datum("[]", lambda: []), Datum("[1]", lambda: [1]), Datum("['a']", lambda: ["a"]), Datum("[[1]]", lambda: [[1]]),
    Datum("[1, 2]", lambda: [1, 2]), Datum("['R', 'W']", lambda: ["R", "W"]),
    const(()), const((1,)), const((1, 2)),
    Datum("{}", lambda: {}), Datum("{'a': 1}", lambda: {"a": 1}), Datum("{0: 1, 1: 2}", lambda: {0: 1, 1: 2}),
    Datum("{0: 1}", lambda: {0: 1}), Datum("{1, 2}", lambda: {1, 2}), const(frozenset()),
    const(Decimal("1")), const(Decimal("NaN"), "Decimal(NaN)"), const(Decimal("sNaN"), "Decimal(sNaN)"),
    const(Decimal("Infinity"), "Decimal(Infinity)"), const(Decimal("1E+30"), "Decimal(1E+30)"),
    # more significant digits than a float holds: seconds with a microsecond part beyond 2**53
    const(Decimal("10000000000.000001"), "Decimal(10000000000.000001)"),
    const(Fraction(1, 2)), const(1j),
    const(_OBJ, "object()"),
    Datum("iter([1, 2])", lambda: iter([1, 2]), one_shot=True, tags={"iterator"}),
    Datum("iter(['a'])", lambda: iter(["a"]), one_shot=True, tags={"iterator"}),
    Datum("GetOnly()", GetOnly),
    Datum("MyMapping({'a': 1})", lambda: MyMapping({"a": 1})),
    const(MyStr("a"), "MyStr('a')", tags={"strsub"}), const(MyInt(1), "MyInt(1)", tags={"intsub"}),
    const(Color.RED, "Color.RED"), const(Num.ONE, "Num.ONE"), const(Perm.R, "Perm.R"),
    const(dt.date(2020, 1, 1), "date(2020,1,1)"), const(dt.timedelta(seconds=1), "timedelta(1s)"),
]
A0_BY_NAME = {d.name: d for d in A0}
assert len(A0_BY_NAME) == len(A0)

# ------------------------------------------------------------------------------------------------------------
# value alphabets (well-typed values, for dump and round trip)

_TZ = dt.timezone(dt.timedelta(hours=5, minutes=30))

def _bio(data, pos):
    b = io.BytesIO()
    b.write(data)
    if pos is not None:
        b.seek(pos)
    return b


VALUES = {
    "int": [0, 1, -1, 2**70],
    "float": [0.0, -0.0, 1.5, -1.5, 1e308, 5e-324, float("nan"), float("inf")],
    "str": ["", "a", "é", "1"],
    "bool": [True, False],
    "None": [None],
    "Any": [1, "a", None],
    "object": [1, "a"],
    "Decimal": [Decimal("1"), Decimal("0E-7"), Decimal("NaN"), Decimal("-Infinity"), Decimal("1.50")],
    "Fraction": [Fraction(-1, 3), Fraction(2), Fraction(0)],
    "complex": [complex(1, -0.0), 1j, complex(0, 0), complex(1.5, 2)],
    "bytes": [b"", b"\xff\x00", b"ab"],
    "bytearray": [bytearray(b""), bytearray(b"\xff\x00")],
    "ByteString": [b"", b"ab"],
    # streams at the start, in the middle and at the end (as left by write()); compared by content (ref_types.same)
    "BytesIO": [_bio(b"", 0), _bio(b"ab", 0), _bio(b"abcd", 2), _bio(b"\xff\x00", None)],
    "IOBytes": [_bio(b"", 0), _bio(b"ab", 0), _bio(b"abcd", 2), _bio(b"\xff\x00", None)],
    "date": [dt.date.min, dt.date.max, dt.date(2020, 2, 29)],
    "time": [dt.time(1, 2, 3, 456789), dt.time(0, 0), dt.time(23, 59, 59, 999999, tzinfo=_TZ)],
    "datetime": [dt.datetime(2020, 1, 2, 3, 4, 5, 678901), dt.datetime(2020, 1, 2, 3, 4, 5, 1, tzinfo=_TZ),
                 dt.datetime(1, 1, 1), dt.datetime(9999, 12, 31, 23, 59, 59, 999999, tzinfo=dt.timezone.utc)],
    "timedelta": [dt.timedelta(0), dt.timedelta(seconds=1), dt.timedelta(seconds=-1.5), dt.timedelta(microseconds=249),
                  dt.timedelta(days=1, seconds=86399, microseconds=999999), dt.timedelta(days=-1, microseconds=1),
                  dt.timedelta(milliseconds=123)],
    "UUID": [uuid.UUID("12345678-1234-5678-1234-567812345678")],
    "IPv4Address": [ipaddress.IPv4Address("127.0.0.1")],
    "IPv6Network": [ipaddress.IPv6Network("::/0"), ipaddress.IPv6Network("2001:db8::/32")],
    "IPv4Interface": [ipaddress.IPv4Interface("10.0.0.1/8")],
    "PurePosixPath": [pathlib.PurePosixPath("/a/b"), pathlib.PurePosixPath(".")],
    "Path": [pathlib.Path("/a/b"), pathlib.Path("rel/x")],
    "PathLike": [pathlib.Path("/a/b")],
    "Pattern": [re.compile("[a-z]+"), re.compile("")],
    "LiteralString": ["", "a"],
}


def values_of(ts, limit=4):  # noqa: C901, PLR0911, PLR0912
    """Well-typed values of a TypeSpec (deterministic, small)."""
    ts0 = ts
    ts = unwrap(ts)
    h = ts[0]
    if h in VALUES:
        return list(VALUES[h])
    if h == "Enum":
        return list(ENUMS[ts[1]])
    if h == "Flag":
        cls = FLAGS[ts[1]]
        members = list(cls)
        out = [cls(0)]
        for mask in range(1, 2 ** len(members)):
            v = cls(0)
            for i, m in enumerate(members):
                if mask >> i & 1:
                    v |= m
            out.append(v)
        return out
    if h == "Literal":
        return list(LITERALS[ts[1]])
    if h in ITER_IMPL:
        elems = values_of(ts[1], limit)
        impl = ITER_IMPL[h]
        outs = [impl(()), impl(elems[:1]), impl(elems[:limit])]
        if len(elems) > 1:
            outs.append(impl(reversed(elems[:2])))
        return _dedup_values(outs)
    if h == "Optional":
        return [None, *values_of(ts[1], limit)[:limit]]
    if h in DICTS:
        ks, vs = values_of(ts[1], limit), values_of(ts[2], limit)
        mk = (lambda d: collections.defaultdict(None, d)) if h == "DefaultDict" else dict
        outs = [mk({}), mk({ks[0]: vs[0]})]
        if len(ks) > 1:
            outs.append(mk({k: vs[i % len(vs)] for i, k in enumerate(ks[:3]) if k == k}))
        return outs
    if h == "Tuple":
        comps = [values_of(t, limit) for t in ts[1:]]
        n = max(len(c) for c in comps)
        return [tuple(c[i % len(c)] for c in comps) for i in range(min(n, limit))]
    if h == "Union":
        out = []
        for t in ts[1:]:
            out += values_of(t, limit)[:3]
        return out
    raise ValueError(ts0)


def _dedup_values(vs):
    out = []
    for v in vs:
        if not any(type(v) is type(o) and repr(v) == repr(o) for o in out):
            out.append(v)
    return out
