"""Sharding of an enumerated space over long-lived worker processes (fork)."""
import multiprocessing as mp
import os
import sys
import traceback

from . import env
from .report import Report


def _call(args):
    func, shard = args
    try:
        out = func(shard)
        return ("ok", out.dump() if isinstance(out, Report) else out)
    except BaseException:  # noqa: BLE001
        return ("err", f"shard {shard!r:.200}\n{traceback.format_exc()}")


def run_shards(func, shards, jobs=None, seed=None, report=None, maxtasksperchild=None):
    """Run func(shard) -> Report for every shard, merge into one Report.

    The seed only rotates the order in which shards are handed out; the set explored never changes.
    A worker exception is a framework error (exit 2), never a verdict.
    """
    shards = list(shards)
    report = report if report is not None else Report()
    jobs = jobs or env.ncpu()
    seed = env.seed() if seed is None else seed
    if shards:
        k = seed % len(shards)
        shards = shards[k:] + shards[:k]
    if jobs <= 1 or len(shards) <= 1:
        results = map(_call, [(func, s) for s in shards])
        try:
            return _collect(results, report)
        except _WorkerFailed as e:
            print("FRAMEWORK-ERROR: worker failed\n" + str(e), file=sys.stderr, flush=True)
            sys.exit(2)
    ctx = mp.get_context("fork")
    pool = ctx.Pool(min(jobs, len(shards)), maxtasksperchild=maxtasksperchild)
    stall = float(os.environ.get("VERIF_STALL", "1500"))
    done = 0
    try:
        results = pool.imap_unordered(_call, [(func, s) for s in shards], chunksize=1)
        while True:
            try:
                status, payload = results.next(timeout=stall)
            except StopIteration:
                break
            except mp.TimeoutError:
                # no shard finished for `stall` seconds: the code under test does not terminate on some case.  That is a
                # verdict about the library (every call must complete), reported as a violation instead of hanging the check
                pool.terminate()
                pool.join()
                report.violation({"check": "no_progress", "problem": "a case does not terminate"},
                                 f"no shard of {getattr(func, '__module__', '?')}.{getattr(func, '__name__', '?')} finished within "
                                 f"{stall:.0f} s ({done} of {len(shards)} shards done): some case makes the library loop forever",
                                 {"stalled_after_shards": done, "shards_total": len(shards), "first_unfinished": repr(shards[:3])[:500]})
                report.capped = True
                return report
            if status == "err":
                raise _WorkerFailed(payload)
            report.merge(payload)
            done += 1
        pool.close()
        pool.join()
        return report
    except _WorkerFailed as e:
        pool.terminate()
        pool.join()
        sys.stdout.flush()
        print("FRAMEWORK-ERROR: worker failed\n" + str(e), file=sys.stderr, flush=True)
        sys.exit(2)


class _WorkerFailed(Exception):
    pass


def _collect(results, report):
    for status, payload in results:
        if status == "err":
            raise _WorkerFailed(payload)
        report.merge(payload)
    return report


def chunks(seq, n):
    seq = list(seq)
    size = max(1, (len(seq) + n - 1) // n)
    return [seq[i:i + size] for i in range(0, len(seq), size)]
