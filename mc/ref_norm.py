"""Reference for C15: what a type hint *means*, which rewrites keep the meaning and which single edits change it.

Nothing in this module imports or calls adaptix.  A hint is described by a *spec* — a nested tuple that records how the hint
was *written* (``Union[..]`` or ``|``, ``Optional``, ``List`` or ``list``, bare or parametrised, one ``Literal`` or several) —
and three independent functions work on specs:

* ``build(spec)``      the real typing object, written exactly like the spec says;
* ``meaning(spec)``    the denoted type as a frozen canonical structure (my own reading of the typing documentation and of
                       docs/loading-and-dumping/extended-usage.rst "Generic classes" for bare generics);
* ``rewrites(spec)``   all single meaning-preserving rewrites at every position of the tree;
* ``edits(spec)``      all single meaning-changing edits at every position.

Spec grammar (tuples; JSON form uses lists, see ``to_json``/``from_json``)::

    ("L", name)                       leaf: a class, None, Any or a TypeVar, name is a key of LEAVES
    ("Lit", (token, ...))             Literal[...]; tokens are keys of LIT_TOKENS ("None" is the member None)
    ("U", style, (m1, m2, ...))       style "Union": Union[m1, m2, ...];  style "or": m1 | m2 | ...
    ("Opt", m)                        Optional[m]
    ("G", origin, style, args|None)   generic origin (key of ORIGINS); style "b": the class itself (list, re.Pattern, a user
                                      generic), style "t": the typing alias (List, Pattern); args None = bare
    ("Tup", style, kind, args)        kind "bare": tuple / Tuple; "fixed": Tuple[a, b] (args may be empty: Tuple[()]);
                                      "var": Tuple[a, ...]
    ("Ann", m, meta)                  Annotated[m, meta]   (meta is a string)

Meaning (all frozen, hashable, comparable by ==)::

    ("cls", leaf name) ("none",) ("any",) ("tv", leaf name)
    ("lit", frozenset{(type name, repr(value) or enum identity)})        never contains None
    ("union", frozenset{meanings})      flattened, None included as ("none",), all literal members merged into ONE "lit"
                                        element, never nested, never of size 1 (a one-element union IS its element)
    ("gen", canonical origin name, (argument meanings...))               typing alias and class share the canonical name,
                                                                         bare generics get their implicit parameters;
                                                                         Type[Union[A, B]] is the union of Type[A], Type[B]
    ("tup", (meanings...))  ("vtup", meaning)                            bare tuple = tuple[Any, ...]
    ("ann", meaning, (meta,))
"""
import collections
import collections.abc
import concurrent.futures
import enum
import functools
import operator
import os
import queue
import re
import typing
from dataclasses import dataclass, make_dataclass
from typing import Annotated, Any, Generic, Literal, Optional, TypeVar, Union

# ------------------------------------------------------------------------------------------------------------
# leaf objects


@dataclass
class A:
    v: int


# two distinct classes with the same __name__/__qualname__/__module__, as any class factory produces
X1 = make_dataclass("X", [("a", int)])
X2 = make_dataclass("X", [("a", str)])
assert X1 is not X2 and X1.__qualname__ == X2.__qualname__ and X1.__module__ == X2.__module__ and str(X1) == str(X2)

# two distinct TypeVars with the same name
TV1 = TypeVar("T")  # noqa: PLC0132
TV2 = TypeVar("T")  # noqa: PLC0132
assert TV1 is not TV2 and TV1 != TV2


class E(enum.Enum):
    A = "ea"
    B = "eb"


# two distinct enum classes with the same name and the same member names (functional API = class factory)
F1 = enum.Enum("F", {"A": "f1a"})
F2 = enum.Enum("F", {"A": "f2a"})
assert F1 is not F2 and F1.A != F2.A and str(type(F1.A)) == str(type(F2.A))

LEAVES = {
    "int": int, "bool": bool, "str": str, "bytes": bytes, "float": float, "None": None, "Any": Any,
    "A": A, "X1": X1, "X2": X2, "TV1": TV1, "TV2": TV2, "E": E,
}
TYPEVAR_LEAVES = {"TV1", "TV2"}

LIT_TOKENS = {
    "0": 0, "1": 1, "False": False, "True": True, "'a'": "a", "b'x'": b"x", "'zz'": "zz", "None": None,
    "E.A": E.A, "E.B": E.B, "F1.A": F1.A, "F2.A": F2.A,
}


def _token_meaning(tok):
    v = LIT_TOKENS[tok]
    if isinstance(v, enum.Enum):
        return ("enum", tok)               # the token names the member uniquely (F1.A and F2.A stay different)
    return (type(v).__name__, repr(v))     # (type, value): 0 and False differ by type, 1 and True likewise


# ------------------------------------------------------------------------------------------------------------
# user generics: plain / bound / constrained TypeVars, old syntax and PEP 695 syntax

_T = TypeVar("_T")
_K = TypeVar("_K")
_BT = TypeVar("_BT", bound=int)
_CT = TypeVar("_CT", int, str)


@dataclass
class G(Generic[_T]):
    x: _T


@dataclass
class GB(Generic[_BT]):
    x: _BT


@dataclass
class GC(Generic[_CT]):
    x: _CT


@dataclass
class G2(Generic[_K, _BT]):
    k: _K
    b: _BT


_ns: dict = {"dataclass": dataclass}
exec(  # noqa: S102
    "@dataclass\nclass GP[T]:\n    x: T\n\n"
    "@dataclass\nclass GPB[T: int]:\n    x: T\n\n"
    "@dataclass\nclass GPC[T: (int, str)]:\n    x: T\n",
    _ns,
)
GP, GPB, GPC = _ns["GP"], _ns["GPB"], _ns["GPC"]

_ANY = ("L", "Any")
_INT = ("L", "int")
_ANYSTR = ("U", "Union", (("L", "str"), ("L", "bytes")))      # AnyStr = TypeVar('AnyStr', str, bytes)
_INT_STR = ("U", "Union", (("L", "int"), ("L", "str")))

# origin name -> (class, typing alias or None, implicit parameters as specs)
# Implicit parameters are my reading of the documented rule: an unconstrained unbound TypeVar gives Any, a bound TypeVar its
# bound, a constrained TypeVar the Union of its constraints.  The TypeVars of the standard classes are taken from the Python
# documentation / typeshed: only re.Pattern, re.Match and os.PathLike are parametrised by AnyStr, everything else by plain T.
ORIGINS = {
    "list": (list, typing.List, (_ANY,)),
    "set": (set, typing.Set, (_ANY,)),
    "frozenset": (frozenset, typing.FrozenSet, (_ANY,)),
    "Counter": (collections.Counter, typing.Counter, (_ANY,)),
    "deque": (collections.deque, typing.Deque, (_ANY,)),
    "dict": (dict, typing.Dict, (_ANY, _ANY)),
    "defaultdict": (collections.defaultdict, typing.DefaultDict, (_ANY, _ANY)),
    "OrderedDict": (collections.OrderedDict, typing.OrderedDict, (_ANY, _ANY)),
    "ChainMap": (collections.ChainMap, typing.ChainMap, (_ANY, _ANY)),
    "type": (type, typing.Type, (_ANY,)),
    "Pattern": (re.Pattern, typing.Pattern, (_ANYSTR,)),
    "Match": (re.Match, typing.Match, (_ANYSTR,)),
    "PathLike": (os.PathLike, None, (_ANYSTR,)),
    "Queue": (queue.Queue, None, (_ANY,)),
    "PriorityQueue": (queue.PriorityQueue, None, (_ANY,)),
    "LifoQueue": (queue.LifoQueue, None, (_ANY,)),
    "SimpleQueue": (queue.SimpleQueue, None, (_ANY,)),
    "Future": (concurrent.futures.Future, None, (_ANY,)),
    # the abstract collections (PEP 585 spelling and typing aliases): bare use means Any at every position, like for list/dict
    "Iterable": (collections.abc.Iterable, typing.Iterable, (_ANY,)),
    "Collection": (collections.abc.Collection, typing.Collection, (_ANY,)),
    "Reversible": (collections.abc.Reversible, typing.Reversible, (_ANY,)),
    "Sequence": (collections.abc.Sequence, typing.Sequence, (_ANY,)),
    "MutableSequence": (collections.abc.MutableSequence, typing.MutableSequence, (_ANY,)),
    "AbstractSet": (collections.abc.Set, typing.AbstractSet, (_ANY,)),
    "MutableSet": (collections.abc.MutableSet, typing.MutableSet, (_ANY,)),
    "Mapping": (collections.abc.Mapping, typing.Mapping, (_ANY, _ANY)),
    "MutableMapping": (collections.abc.MutableMapping, typing.MutableMapping, (_ANY, _ANY)),
    # user generics
    "G": (G, None, (_ANY,)),
    "GB": (GB, None, (_INT,)),
    "GC": (GC, None, (_INT_STR,)),
    "G2": (G2, None, (_ANY, _INT)),
    "GP": (GP, None, (_ANY,)),
    "GPB": (GPB, None, (_INT,)),
    "GPC": (GPC, None, (_INT_STR,)),
}
USER_GENERICS = ("G", "GB", "GC", "G2", "GP", "GPB", "GPC")
BUILTIN_ORIGINS = tuple(k for k in ORIGINS if k not in USER_GENERICS)
TUPLE_OBJ = {"b": tuple, "t": typing.Tuple}


def origin_obj(name, style):
    cls, alias, _ = ORIGINS[name]
    if style == "b":
        return cls
    if alias is None:
        raise KeyError(f"{name} has no typing alias")
    return alias


def implicit_args(name):
    return ORIGINS[name][2]


# ------------------------------------------------------------------------------------------------------------
# JSON form, rendering


def to_json(spec):
    return [to_json(x) if isinstance(x, tuple) else x for x in spec]


def from_json(j):
    return tuple(from_json(x) if isinstance(x, list) else x for x in j)


_ALIAS_NAME = {
    "list": "List", "set": "Set", "frozenset": "FrozenSet", "Counter": "typing.Counter", "deque": "Deque", "dict": "Dict",
    "defaultdict": "DefaultDict", "OrderedDict": "typing.OrderedDict", "ChainMap": "typing.ChainMap", "type": "Type",
    "Pattern": "typing.Pattern", "Match": "typing.Match",
    "Iterable": "typing.Iterable", "Collection": "typing.Collection", "Reversible": "typing.Reversible", "Sequence": "typing.Sequence",
    "MutableSequence": "typing.MutableSequence", "AbstractSet": "typing.AbstractSet", "MutableSet": "typing.MutableSet",
    "Mapping": "typing.Mapping", "MutableMapping": "typing.MutableMapping",
}
_CLASS_NAME = {
    "Counter": "collections.Counter", "deque": "collections.deque", "defaultdict": "collections.defaultdict",
    "OrderedDict": "collections.OrderedDict", "ChainMap": "collections.ChainMap", "Pattern": "re.Pattern",
    "Match": "re.Match", "PathLike": "os.PathLike", "Queue": "queue.Queue", "PriorityQueue": "queue.PriorityQueue",
    "LifoQueue": "queue.LifoQueue", "SimpleQueue": "queue.SimpleQueue", "Future": "concurrent.futures.Future",
}


def render(spec):  # noqa: PLR0911
    """Python-like text of the hint as written (X1/X2, TV1/TV2, F1/F2 name the same-named objects apart)."""
    k = spec[0]
    if k == "L":
        return spec[1]
    if k == "Lit":
        return "Literal[" + ", ".join(spec[1]) + "]"
    if k == "U":
        if spec[1] == "or":
            return "(" + " | ".join(render(m) for m in spec[2]) + ")"
        return "Union[" + ", ".join(render(m) for m in spec[2]) + "]"
    if k == "Opt":
        return f"Optional[{render(spec[1])}]"
    if k == "G":
        name = (_CLASS_NAME.get(spec[1], spec[1]) if spec[2] == "b" else _ALIAS_NAME[spec[1]])
        if spec[3] is None:
            return name
        return f"{name}[{', '.join(render(a) for a in spec[3])}]"
    if k == "Tup":
        name = "tuple" if spec[1] == "b" else "Tuple"
        if spec[2] == "bare":
            return name
        if spec[2] == "var":
            return f"{name}[{render(spec[3][0])}, ...]"
        return f"{name}[{', '.join(render(a) for a in spec[3]) or '()'}]"
    if k == "Ann":
        return f"Annotated[{render(spec[1])}, {spec[2]!r}]"
    raise ValueError(spec)


def depth(spec):
    k = spec[0]
    if k in ("L", "Lit"):
        return 0
    if k == "G" and spec[3] is None:
        return 0
    if k == "Tup" and spec[2] == "bare":
        return 0
    kids = [c for _, c in children(spec)]
    return 1 + max((depth(c) for c in kids), default=0)


def size(spec):
    return 1 + sum(size(c) for _, c in children(spec)) + (len(spec[1]) - 1 if spec[0] == "Lit" else 0)


# ------------------------------------------------------------------------------------------------------------
# build: the real typing object, written as the spec says


class Unbuildable(TypeError):
    """this way of writing the hint is rejected by Python itself (e.g. ``None | None``)"""


def build(spec):  # noqa: C901, PLR0911, PLR0912
    k = spec[0]
    if k == "L":
        return LEAVES[spec[1]]
    if k == "Lit":
        return Literal[tuple(LIT_TOKENS[t] for t in spec[1])]
    if k == "U":
        members = [build(m) for m in spec[2]]
        if spec[1] == "Union":
            return Union[tuple(members)]
        try:
            return functools.reduce(operator.or_, members)
        except TypeError as e:
            raise Unbuildable(str(e)) from None
    if k == "Opt":
        return Optional[build(spec[1])]
    if k == "G":
        obj = origin_obj(spec[1], spec[2])
        if spec[3] is None:
            return obj
        args = tuple(build(a) for a in spec[3])
        return obj[args[0]] if len(args) == 1 else obj[args]
    if k == "Tup":
        obj = TUPLE_OBJ[spec[1]]
        if spec[2] == "bare":
            return obj
        if spec[2] == "var":
            return obj[build(spec[3][0]), ...]
        if not spec[3]:
            return obj[()]
        return obj[tuple(build(a) for a in spec[3])]
    if k == "Ann":
        return Annotated[build(spec[1]), spec[2]]
    raise ValueError(spec)


def generic_origin_objects():
    """every object that, used bare as a hint, stands for a generic with implicit parameters"""
    out = {tuple, typing.Tuple}
    for cls, alias, _ in ORIGINS.values():
        out.add(cls)
        if alias is not None:
            out.add(alias)
    return out


# ------------------------------------------------------------------------------------------------------------
# meaning

_MEANING_CACHE: dict = {}


def meaning(spec):
    got = _MEANING_CACHE.get(spec)
    if got is None:
        got = _meaning(spec)
        if len(_MEANING_CACHE) > 400_000:
            _MEANING_CACHE.clear()
        _MEANING_CACHE[spec] = got
    return got


def _atoms(m):
    """the set of union alternatives a meaning stands for (a non-union meaning is its own single alternative)"""
    return m[1] if m[0] == "union" else frozenset([m])


def _mk_union(parts):
    """parts: iterable of meanings -> canonical union meaning: flatten, merge literals, collapse a singleton"""
    atoms = set()
    lit = set()
    for p in parts:
        for a in _atoms(p):
            if a[0] == "lit":
                lit |= a[1]
            else:
                atoms.add(a)
    if lit:
        atoms.add(("lit", frozenset(lit)))
    if len(atoms) == 1:
        return next(iter(atoms))
    return ("union", frozenset(atoms))


def _lit_meaning(tokens):
    vals = frozenset(_token_meaning(t) for t in tokens if t != "None")
    parts = []
    if vals:
        parts.append(("lit", vals))
    if "None" in tokens:
        parts.append(("none",))
    return _mk_union(parts)


def _meaning(spec):  # noqa: C901, PLR0911
    k = spec[0]
    if k == "L":
        name = spec[1]
        if name == "None":
            return ("none",)
        if name == "Any":
            return ("any",)
        if name in TYPEVAR_LEAVES:
            return ("tv", name)
        return ("cls", name)
    if k == "Lit":
        return _lit_meaning(spec[1])
    if k == "U":
        return _mk_union(meaning(m) for m in spec[2])
    if k == "Opt":
        return _mk_union([meaning(spec[1]), ("none",)])
    if k == "G":
        args = spec[3] if spec[3] is not None else implicit_args(spec[1])
        arg_meanings = tuple(meaning(a) for a in args)
        if spec[1] == "type" and arg_meanings[0][0] == "union":
            # PEP 484 "The type of class objects": Type[Union[A, B]] accepts exactly the classes Type[A] or Type[B] accept
            return _mk_union(("gen", "type", (alt,)) for alt in arg_meanings[0][1])
        return ("gen", spec[1], arg_meanings)
    if k == "Tup":
        if spec[2] == "bare":
            return ("vtup", ("any",))
        if spec[2] == "var":
            return ("vtup", meaning(spec[3][0]))
        return ("tup", tuple(meaning(a) for a in spec[3]))
    if k == "Ann":
        return ("ann", meaning(spec[1]), (spec[2],))
    raise ValueError(spec)


def _alternatives_multiset(spec):
    """alternatives (with literal values taken one by one) a union-like node lists, WITH repetitions"""
    k = spec[0]
    if k == "U":
        out = []
        for m in spec[2]:
            out += _alternatives_multiset(m)
        return out
    if k == "Opt":
        return [*_alternatives_multiset(spec[1]), ("none",)]
    if k == "Lit":
        return [("none",) if t == "None" else ("litval", _token_meaning(t)) for t in spec[1]]
    if k == "L" and spec[1] == "None":
        return [("none",)]
    out = []
    for alt in _atoms(meaning(spec)):      # a union only for Type[Union[..]], which distributes
        if alt[0] == "lit":
            out += [("litval", v) for v in alt[1]]
        else:
            out.append(alt)
    return out


def duplicate_free(spec):
    """True when no union-like node of the hint lists the same alternative twice (at any nesting of unions/literals).

    On such a hint every edit of ``edits`` provably changes the meaning (replacing / removing / adding ONE listed alternative
    of a repetition-free list changes the set), so an edit that leaves ``meaning`` unchanged there is an error of this module.
    """
    k = spec[0]
    if k in ("U", "Opt", "Lit"):
        alts = _alternatives_multiset(spec)
        if len(alts) != len(set(alts)):
            return False
    return all(duplicate_free(c) for _, c in children(spec))


# ------------------------------------------------------------------------------------------------------------
# tree plumbing


def children(spec):
    """[(index path element, child spec)]"""
    k = spec[0]
    if k == "U":
        return [(("U", i), m) for i, m in enumerate(spec[2])]
    if k == "Opt":
        return [(("Opt", 0), spec[1])]
    if k == "G" and spec[3] is not None:
        return [(("G", i), a) for i, a in enumerate(spec[3])]
    if k == "Tup" and spec[2] != "bare":
        return [(("Tup", i), a) for i, a in enumerate(spec[3])]
    if k == "Ann":
        return [(("Ann", 0), spec[1])]
    return []


def replace_child(spec, pos, new):
    kind, i = pos
    if kind == "U":
        ms = list(spec[2])
        ms[i] = new
        return ("U", spec[1], tuple(ms))
    if kind == "Opt":
        return ("Opt", new)
    if kind == "G":
        args = list(spec[3])
        args[i] = new
        return ("G", spec[1], spec[2], tuple(args))
    if kind == "Tup":
        args = list(spec[3])
        args[i] = new
        return ("Tup", spec[1], spec[2], tuple(args))
    if kind == "Ann":
        return ("Ann", new, spec[2])
    raise ValueError(pos)


def _everywhere(spec, local, in_union=False):
    yield from local(spec, in_union)
    child_in_union = spec[0] in ("U", "Opt")
    for pos, child in children(spec):
        for rule, new_child in _everywhere(child, local, child_in_union):
            yield rule, replace_child(spec, pos, new_child)


def _uniq(seq):
    out = []
    for x in seq:
        if x not in out:
            out.append(x)
    return tuple(out)


_NONE = ("L", "None")
MAX_UNION_WIDTH = 4       # rewrites never make a union wider than this (keeps the rewrite graph finite)

# ------------------------------------------------------------------------------------------------------------
# meaning-preserving rewrites

REWRITE_RULES = (
    "union.permute", "union.nest", "union.flatten", "union.duplicate", "union.dedupe", "union.introduce",
    "union.style",                                   # X | Y <-> Union[X, Y]
    "optional.fold", "optional.unfold",              # Optional[X] <-> Union[X, None]
    "alias",                                         # typing alias <-> builtin generic
    "implicit.fill", "implicit.drop",                # bare <-> explicit implicit parameters
    "literal.split", "literal.merge", "literal.permute",
    "literal.none",                                  # Literal[None] <-> None
    "literal.optional",                              # Literal[a, None] <-> Optional[Literal[a]]
)


def _local_rewrites(spec, in_union):  # noqa: C901, PLR0912, PLR0915
    k = spec[0]
    if k == "U":
        style, ms = spec[1], spec[2]
        n = len(ms)
        for i in range(n - 1):
            if ms[i] != ms[i + 1]:
                yield "union.permute", ("U", style, (*ms[:i], ms[i + 1], ms[i], *ms[i + 2:]))
        if n >= 3:
            yield "union.nest", ("U", style, (("U", style, ms[:2]), *ms[2:]))
            yield "union.nest", ("U", style, (*ms[:-2], ("U", style, ms[-2:])))
        for i, m in enumerate(ms):
            if m[0] == "U" and n - 1 + len(m[2]) <= MAX_UNION_WIDTH:
                yield "union.flatten", ("U", style, (*ms[:i], *m[2], *ms[i + 1:]))
        if n < MAX_UNION_WIDTH:
            for i in range(n):
                yield "union.duplicate", ("U", style, (*ms, ms[i]))
        for j in range(1, n):
            if ms[j] in ms[:j]:
                rest = (*ms[:j], *ms[j + 1:])
                yield "union.dedupe", (rest[0] if len(rest) == 1 else ("U", style, rest))
        yield "union.style", ("U", "or" if style == "Union" else "Union", ms)
        if _NONE in ms:
            rest = tuple(m for m in ms if m != _NONE)
            if len(rest) == 1:
                yield "optional.fold", ("Opt", rest[0])
            elif len(rest) >= 2:
                yield "optional.fold", ("Opt", ("U", style, rest))
        lits = [i for i, m in enumerate(ms) if m[0] == "Lit"]
        for a in range(len(lits)):
            for b in range(a + 1, len(lits)):
                i, j = lits[a], lits[b]
                merged = ("Lit", _uniq(ms[i][1] + ms[j][1]))
                rest = (*ms[:i], merged, *ms[i + 1:j], *ms[j + 1:])
                yield "literal.merge", (rest[0] if len(rest) == 1 else ("U", style, rest))
    elif k == "Opt":
        inner = spec[1]
        yield "optional.unfold", ("U", "Union", (inner, _NONE))
        if inner[0] == "Lit" and "None" not in inner[1]:
            yield "literal.optional", ("Lit", (*inner[1], "None"))
    elif k == "Lit":
        toks = spec[1]
        if toks == ("None",):
            yield "literal.none", _NONE
        elif "None" in toks:
            yield "literal.optional", ("Opt", ("Lit", tuple(t for t in toks if t != "None")))
        if len(toks) >= 2:
            yield "literal.split", ("U", "Union", tuple(("Lit", (t,)) for t in toks))
            if len(toks) >= 3:
                yield "literal.split", ("U", "Union", (("Lit", toks[:1]), ("Lit", toks[1:])))
            for i in range(len(toks) - 1):
                yield "literal.permute", ("Lit", (*toks[:i], toks[i + 1], toks[i], *toks[i + 2:]))
    elif k == "L":
        if spec[1] == "None":
            yield "literal.none", ("Lit", ("None",))
    elif k == "G":
        name, style, args = spec[1], spec[2], spec[3]
        if ORIGINS[name][1] is not None:
            yield "alias", ("G", name, "t" if style == "b" else "b", args)
        if args is None:
            yield "implicit.fill", ("G", name, style, implicit_args(name))
        elif tuple(meaning(a) for a in args) == tuple(meaning(a) for a in implicit_args(name)):
            yield "implicit.drop", ("G", name, style, None)
    elif k == "Tup":
        style, kind, args = spec[1], spec[2], spec[3]
        yield "alias", ("Tup", "t" if style == "b" else "b", kind, args)
        if kind == "bare":
            yield "implicit.fill", ("Tup", style, "var", (_ANY,))
        elif kind == "var" and meaning(args[0]) == ("any",):
            yield "implicit.drop", ("Tup", style, "bare", ())
    if k != "U" and not in_union:
        yield "union.introduce", ("U", "Union", (spec, spec))


def rewrites(spec):
    """all (rule, new spec) obtained by ONE meaning-preserving rewrite at any position"""
    return _everywhere(spec, _local_rewrites)


# ------------------------------------------------------------------------------------------------------------
# meaning-changing single edits

EDIT_RULES = (
    "leaf.replace",            # int->bool, bool->int, one same-named class / TypeVar by the other, ...
    "literal.retype",          # 0->False, 1->True and back, one same-named enum member by the other
    "union.add", "union.remove", "optional.remove", "literal.add", "literal.remove",
    "generic.arg",             # change one argument of a generic (or give a bare generic a non-implicit argument)
    "generic.swap",            # swap the two arguments of a two-parameter generic
    "tuple.swap",              # swap two positions of a fixed tuple
    "tuple.arity",             # Tuple[a] -> Tuple[a, ...]
    "annotated.meta",
)

LEAF_REPLACE = {
    "int": "bool", "bool": "int", "str": "int", "X1": "X2", "X2": "X1", "TV1": "TV2", "TV2": "TV1", "A": "X1", "Any": "int",
    "None": "int", "E": "A",
}
TOKEN_RETYPE = {"0": "False", "False": "0", "1": "True", "True": "1", "F1.A": "F2.A", "F2.A": "F1.A", "E.A": "E.B",
                "E.B": "E.A", "'a'": "b'x'", "b'x'": "'a'"}
# never used by the grammar, so adding them to a union / literal or using them as a new argument is always a change
FRESH_LEAF = ("L", "float")
FRESH_TOKEN = "'zz'"


def _local_edits(spec, in_union):  # noqa: C901, PLR0912
    k = spec[0]
    if k == "L":
        if spec[1] in LEAF_REPLACE:
            yield "leaf.replace", ("L", LEAF_REPLACE[spec[1]])
    elif k == "Lit":
        toks = spec[1]
        for i, t in enumerate(toks):
            if t in TOKEN_RETYPE:
                yield "literal.retype", ("Lit", (*toks[:i], TOKEN_RETYPE[t], *toks[i + 1:]))
        yield "literal.add", ("Lit", (*toks, FRESH_TOKEN))
        if len(toks) >= 2:
            for i in range(len(toks)):
                yield "literal.remove", ("Lit", (*toks[:i], *toks[i + 1:]))
    elif k == "U":
        style, ms = spec[1], spec[2]
        yield "union.add", ("U", style, (*ms, FRESH_LEAF))
        for i in range(len(ms)):
            rest = (*ms[:i], *ms[i + 1:])
            yield "union.remove", (rest[0] if len(rest) == 1 else ("U", style, rest))
    elif k == "Opt":
        yield "optional.remove", spec[1]
        yield "union.add", ("Opt", ("U", "Union", (spec[1], FRESH_LEAF)))
    elif k == "G":
        name, style, args = spec[1], spec[2], spec[3]
        if args is None:
            yield "generic.arg", ("G", name, style, (FRESH_LEAF, *implicit_args(name)[1:]))
        else:
            for i in range(len(args)):
                yield "generic.arg", ("G", name, style, (*args[:i], FRESH_LEAF, *args[i + 1:]))
            if len(args) == 2 and meaning(args[0]) != meaning(args[1]):
                yield "generic.swap", ("G", name, style, (args[1], args[0]))
    elif k == "Tup":
        style, kind, args = spec[1], spec[2], spec[3]
        if kind == "fixed":
            for i in range(len(args)):
                for j in range(i + 1, len(args)):
                    if meaning(args[i]) != meaning(args[j]):
                        sw = list(args)
                        sw[i], sw[j] = sw[j], sw[i]
                        yield "tuple.swap", ("Tup", style, kind, tuple(sw))
            if len(args) == 1:
                yield "tuple.arity", ("Tup", style, "var", args)
            for i in range(len(args)):
                yield "generic.arg", ("Tup", style, kind, (*args[:i], FRESH_LEAF, *args[i + 1:]))
        elif kind == "var":
            yield "generic.arg", ("Tup", style, kind, (FRESH_LEAF,))
            yield "tuple.arity", ("Tup", style, "fixed", args)
        else:
            yield "generic.arg", ("Tup", style, "var", (FRESH_LEAF,))
    elif k == "Ann":
        yield "annotated.meta", ("Ann", spec[1], spec[2] + "'")


def edits(spec):
    """all (rule, new spec) obtained by ONE meaning-changing edit at any position"""
    return _everywhere(spec, _local_edits)


def uses_fresh(spec):
    """the grammar must never use the objects reserved for edits"""
    if spec == FRESH_LEAF:
        return True
    if spec[0] == "Lit" and FRESH_TOKEN in spec[1]:
        return True
    return any(uses_fresh(c) for _, c in children(spec))


# ------------------------------------------------------------------------------------------------------------
# membership: is a Python value an instance of the type a meaning denotes?  (three-valued: True / False / None = not modelled)
# Used by the behavioural leg: dumping a value that is not of the requested type is not specified, so only values for which
# this returns True are compared between the dumpers of equivalent hints.

_SCALARS = {"int": int, "bool": bool, "str": str, "bytes": bytes, "float": float}
_SEQ = {"list": list, "set": set, "frozenset": frozenset, "deque": collections.deque}
_MAP = {"dict": dict, "defaultdict": collections.defaultdict, "OrderedDict": collections.OrderedDict}
_USER_FIELDS = {"G": ("x",), "GB": ("x",), "GC": ("x",), "GP": ("x",), "GPB": ("x",), "GPC": ("x",), "G2": ("k", "b")}


def _all3(results):
    out = True
    for r in results:
        if r is False:
            return False
        if r is None:
            out = None
    return out


def belongs(v, m):  # noqa: C901, PLR0911, PLR0912
    k = m[0]
    if k == "any":
        return True
    if k == "none":
        return v is None
    if k == "cls":
        if m[1] in _SCALARS:
            return type(v) is _SCALARS[m[1]]
        return type(v) is LEAVES[m[1]]
    if k == "lit":
        if isinstance(v, enum.Enum):
            return any(kind == "enum" and LIT_TOKENS[tok] is v for kind, tok in m[1])
        return type(v) in (int, bool, str, bytes) and (type(v).__name__, repr(v)) in m[1]
    if k == "union":
        results = [belongs(v, alt) for alt in m[1]]
        if any(r is True for r in results):
            return True
        return None if any(r is None for r in results) else False
    if k == "ann":
        return belongs(v, m[1])
    if k == "tup":
        return type(v) is tuple and len(v) == len(m[1]) and _all3(belongs(x, a) for x, a in zip(v, m[1]))
    if k == "vtup":
        return type(v) is tuple and _all3(belongs(x, m[1]) for x in v)
    if k == "gen":
        name, args = m[1], m[2]
        if name in _SEQ:
            return type(v) is _SEQ[name] and _all3(belongs(x, args[0]) for x in v)
        if name in _MAP:
            return type(v) is _MAP[name] and _all3(
                _all3([belongs(key, args[0]), belongs(val, args[1])]) for key, val in v.items())
        if name in _USER_FIELDS:
            return type(v) is ORIGINS[name][0] and _all3(
                belongs(getattr(v, f), a) for f, a in zip(_USER_FIELDS[name], args))
        if name == "type":
            if not isinstance(v, type):
                return False
            if args[0][0] == "any":
                return True
            if args[0][0] == "cls":
                return v is (_SCALARS.get(args[0][1]) or LEAVES[args[0][1]])
            return None
        return None
    return None
