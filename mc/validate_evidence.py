"""Run under python3-vt (the tooling venv has jsonschema): validate one evidence file against the schema."""
import json
import sys

import jsonschema

SCHEMA = "/root/.vp/EVIDENCE.schema.json"


def main():
    path = sys.argv[1]
    schema_path = sys.argv[2] if len(sys.argv) > 2 else SCHEMA
    with open(schema_path) as f:
        schema = json.load(f)
    with open(path) as f:
        doc = json.load(f)
    jsonschema.Draft202012Validator(schema).validate(doc)
    print("evidence ok:", path)


if __name__ == "__main__":
    main()
