"""The load/dump sweeps shared by C01 C02 C04 C06 C07: one pass computes the 6-vector of outcomes per (type, datum)
and hands it to the oracle of the calling check."""
import collections
import linecache

from adaptix import ProviderNotFoundError

from . import matrix
from .matrix import DEBUGS, MODES, Err, data_for, hint_of, retort_for, run
from .report import Report
from .space import ITER_IMPL, SET_LIKE, dumper_exists, has_multi_union, show, to_json, unwrap, values_of


class Ctx:
    __slots__ = ("ts", "hint", "datum", "vec", "report", "loaders", "recipe_key", "inputs")


def loaders_for(ts, recipe_key="default", recipe=()):
    hint = hint_of(ts)
    out = {}
    for mode in MODES:
        try:
            out[mode] = retort_for(mode, recipe_key, recipe).get_loader(hint)
        except Exception as e:  # noqa: BLE001
            out[mode] = e
    return out


def dumpers_for(ts, recipe_key="default", recipe=()):
    hint = hint_of(ts)
    out = {}
    for dbg in DEBUGS:
        mode = (dbg, True)
        try:
            out[dbg] = retort_for(mode, recipe_key, recipe).get_dumper(hint)
        except Exception as e:  # noqa: BLE001
            out[dbg] = e
    return out


def load_sweep(types, oracle, report: Report, on_creation_error=None, recipe_key="default", recipe=()):
    for n, ts in enumerate(types):
        loaders = loaders_for(ts, recipe_key, recipe)
        failed = {m: l for m, l in loaders.items() if isinstance(l, Exception)}
        if failed:
            if on_creation_error is not None:
                on_creation_error(ts, failed, report)
            continue
        multi_union = has_multi_union(ts)
        for datum in data_for(ts):
            if datum.one_shot and multi_union:
                report.skip("one-shot iterator for a union with several cases (every case loader consumes the same iterator)")
                continue
            ctx = Ctx()
            ctx.ts, ctx.datum, ctx.report, ctx.loaders, ctx.recipe_key = ts, datum, report, loaders, recipe_key
            ctx.inputs = {mode: datum.fresh() for mode in MODES}
            ctx.vec = {mode: run(loaders[mode], ctx.inputs[mode]) for mode in MODES}
            oracle(ctx)
        if n % 50 == 49:
            linecache.clearcache()
    return report


def dump_sweep(types, oracle, report: Report, on_creation_error=None):
    for ts in types:
        if not dumper_exists(ts):
            report.skip("union dumper is documented to work only with class cases and Literal")
            continue
        try:
            values = values_of(ts)
        except ValueError:
            report.skip("no value alphabet for the type")
            continue
        if not values:
            continue
        dumpers = dumpers_for(ts)
        failed = {m: d for m, d in dumpers.items() if isinstance(d, Exception)}
        if failed:
            if on_creation_error is not None:
                on_creation_error(ts, failed, report)
            continue
        # "Dumper produces the tuple (or list for list children)": the same elements handed over in another container kind
        # must dump to the same documented outer form
        u = unwrap(ts)
        if u[0] in ITER_IMPL and u[0] not in SET_LIKE:
            base = next((v for v in values if len(v) > 0), None)
            if base is not None:
                for kind in (list, tuple, collections.deque):
                    if type(base) is not kind:
                        values = [*values, kind(base)]
        for i, x in enumerate(values):
            ctx = Ctx()
            ctx.ts, ctx.datum, ctx.report, ctx.loaders = ts, x, report, dumpers
            ctx.vec = {dbg: run(dumpers[dbg], x) for dbg in DEBUGS}
            oracle(ctx, i)
    return report


def creation_error_violation(check):
    def handler(ts, failed, report):
        mode, exc = next(iter(failed.items()))
        kind = "ProviderNotFoundError" if isinstance(exc, ProviderNotFoundError) else type(exc).__name__
        report.violation(
            {"check": check, "problem": "creation_failed", "node": ts[0], "exc": kind},
            f"cannot create loader/dumper for {show(ts)} in mode {mode}: {kind}: {str(exc)[:200]}",
            {"type": to_json(ts), "mode": list(mode) if isinstance(mode, tuple) else mode},
        )
    return handler
