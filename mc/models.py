"""ModelSpec -> real model classes of every supported kind (dataclass, NamedTuple, TypedDict, attrs, pydantic, SQLAlchemy,
plain __init__ class).

A ModelSpec is JSON-serialisable:  {"name": str, "kind": str, "fields": [[field_name, type_key, requiredness], ...]}
requiredness: "req" | "dv" (default value) | "df" (default factory).  The default of a field is fixed by its type_key.
"""
import dataclasses
import typing
from dataclasses import dataclass
from typing import Any, List, NamedTuple, Optional

KINDS = ("dataclass", "namedtuple", "typeddict", "attrs", "pydantic", "sqlalchemy")


@dataclass
class N:
    """the nested model used by field type 'nested'"""
    n: int


import enum as _enum


class Tone(_enum.Enum):
    LOW = "low"
    HIGH = "high"


def _dv_str():
    return "".join(["d", "v"])   # built at run time: equal to 'dv' but not the interned literal


TYPES = {
    # key: (hint, accepted (datum, value) pairs, an ill-typed datum, default value, default factory)
    "int": {"hint": int, "good": [(1, 1), (2, 2)], "bad": "x", "dv": 10**6, "df": None},
    "str": {"hint": str, "good": [("s", "s"), ("t", "t")], "bad": 5, "dv": _dv_str(), "df": str},
    "optint": {"hint": Optional[int], "good": [(3, 3), (None, None)], "bad": "x", "dv": None, "df": None},
    "optint5": {"hint": Optional[int], "good": [(3, 3), (None, None)], "bad": "x", "dv": 5, "df": None},
    "listint": {"hint": List[int], "good": [([1, 2], [1, 2]), ([], [])], "bad": [1, "x"], "dv": None, "df": list},
    "any": {"hint": Any, "good": [("anything", "anything"), ([1], [1])], "bad": None, "dv": 0, "df": None},
    "nested": {"hint": N, "good": [({"n": 7}, N(7)), ({"n": 8}, N(8))], "bad": {"n": "x"}, "dv": None, "df": None},
    "dictany": {"hint": typing.Dict[str, Any], "good": [({}, {}), ({"k": 1}, {"k": 1})], "bad": 5, "dv": None, "df": dict},
    "listdv": {"hint": List[int], "good": [([1, 2], [1, 2]), ([], [])], "bad": [1, "x"], "dv": [], "df": None},
    "enum": {"hint": Tone, "good": [("low", Tone.LOW), ("high", Tone.HIGH)], "bad": "nope", "dv": Tone.LOW, "df": None},
    "bool": {"hint": bool, "good": [(True, True), (False, False)], "bad": 1, "dv": True, "df": None},
}


BAD_VALUES = {"nested": 5, "listint": 5, "listdv": 5, "enum": "not-a-member", "dictany": 5}


def _nested_factory():
    return N(0)


def _list1_factory():
    return [1]


def _str_factory(prefix=""):
    """a factory all of whose parameters have defaults (every model kind calls it without arguments)"""
    return prefix + ""


TYPES["str"]["df"] = _str_factory
TYPES["nested"]["df"] = _nested_factory
TYPES["any"]["df"] = _list1_factory
TYPES["int"]["df"] = int


def field_default(tkey, req):
    """('none',) | ('value', v) | ('factory', f)"""
    if req == "req":
        return ("none",)
    t = TYPES[tkey]
    if req == "dv":
        return ("value", t["dv"])
    if req == "df":
        return ("factory", t["df"])
    raise ValueError(req)


def spec_valid(spec):
    """Is this (kind, fields) combination expressible at all?"""
    kind = spec["kind"]
    seen_default = False
    for name, tkey, req in spec["fields"]:
        t = TYPES[tkey]
        if req == "dv" and t["dv"] is None and tkey not in ("optint",):
            return False
        if req == "df" and t["df"] is None:
            return False
        if req == "dv" and tkey in ("listint", "dictany", "nested"):
            return False
        if tkey == "listdv" and req == "dv" and kind in ("dataclass", "pydantic", "sqlalchemy"):
            return False     # a mutable default value is refused (dataclass) or copied (pydantic) by the model kind itself
        if kind in ("dataclass", "namedtuple", "attrs", "kwinit", "plaininit"):
            if req != "req":
                seen_default = True
            elif seen_default:
                return False    # non-default after default
        if kind == "namedtuple" and (name.startswith("_") or req == "df"):
            return False
        if kind == "typeddict" and req == "df":
            return False     # TypedDict has no defaults: "dv" is encoded as NotRequired
        if kind == "sqlalchemy" and tkey in ("nested", "listint", "any", "dictany"):
            return False
        if kind == "sqlalchemy" and name.startswith("_"):
            return False
        if tkey == "enum" and kind == "pydantic":
            return False
        if kind == "sqlalchemy" and (req != "req" or tkey not in ("int", "str", "bool")):
            # SQLAlchemy column defaults are applied at flush time (the constructed object holds None) and a nullable column is
            # optional by construction: only required, non-nullable scalar columns are comparable with the other kinds
            return False
        if kind == "pydantic" and name.startswith("_"):
            return False
        if kind in ("kwinit", "plaininit") and req == "df":
            return False
    return True


_COUNTER = [0]


def build(spec):  # noqa: C901, PLR0912, PLR0915
    """Returns the class.  Every call creates a new class object."""
    kind, name, fields = spec["kind"], spec.get("name", "Model"), spec["fields"]
    _COUNTER[0] += 1
    ns = {"typing": typing, "Any": Any, "List": List, "Optional": Optional, "N": N, "dataclasses": dataclasses,
          "TYPES": TYPES}
    hints = {fname: TYPES[tkey]["hint"] for fname, tkey, _ in fields}
    if kind == "dataclass":
        dc_fields = []
        kw_only = set(spec.get("kw_only", ()))      # indices of keyword-only fields (they may precede positional ones)
        for i, (fname, tkey, req) in enumerate(fields):
            d = field_default(tkey, req)
            kw = {"kw_only": True} if i in kw_only else {}
            if d[0] == "none":
                dc_fields.append((fname, hints[fname], dataclasses.field(**kw)) if kw else (fname, hints[fname]))
            elif d[0] == "value":
                dc_fields.append((fname, hints[fname], dataclasses.field(default=d[1], **kw)))
            else:
                dc_fields.append((fname, hints[fname], dataclasses.field(default_factory=d[1], **kw)))
        return dataclasses.make_dataclass(name, dc_fields)
    if kind == "namedtuple":
        cls = NamedTuple(name, [(fname, hints[fname]) for fname, _, _ in fields])
        defaults = []
        for fname, tkey, req in fields:
            d = field_default(tkey, req)
            if d[0] == "value":
                defaults.append(d[1])
        if defaults:
            cls.__new__.__defaults__ = tuple(defaults)
            cls._field_defaults = dict(zip(cls._fields[len(cls._fields) - len(defaults):], defaults))
        return cls
    if kind == "typeddict":
        ann = {}
        for fname, tkey, req in fields:
            ann[fname] = hints[fname] if req == "req" else typing.NotRequired[hints[fname]]
        return typing.TypedDict(name, ann)
    if kind == "attrs":
        import attr
        attrs_fields = {}
        kw_only = set(spec.get("kw_only", ()))
        for i, (fname, tkey, req) in enumerate(fields):
            d = field_default(tkey, req)
            kw = {"kw_only": True} if i in kw_only else {}
            if d[0] == "none":
                attrs_fields[fname] = attr.ib(type=hints[fname], **kw)
            elif d[0] == "value":
                attrs_fields[fname] = attr.ib(type=hints[fname], default=d[1], **kw)
            else:
                attrs_fields[fname] = attr.ib(type=hints[fname], factory=d[1], **kw)
        return attr.make_class(name, attrs_fields, eq=True)
    if kind == "pydantic":
        import pydantic
        defs = {}
        for fname, tkey, req in fields:
            d = field_default(tkey, req)
            if d[0] == "none":
                defs[fname] = (hints[fname], ...)
            elif d[0] == "value":
                defs[fname] = (hints[fname], d[1])
            else:
                defs[fname] = (hints[fname], pydantic.Field(default_factory=d[1]))
        return pydantic.create_model(name, __config__=pydantic.ConfigDict(arbitrary_types_allowed=True), **defs)
    if kind == "sqlalchemy":
        from sqlalchemy import Boolean, Integer, String
        from sqlalchemy.orm import DeclarativeBase, Mapped, mapped_column

        class Base(DeclarativeBase):
            pass

        col = {"int": Integer, "str": String, "optint": Integer, "optint5": Integer, "bool": Boolean}
        body = {"__tablename__": f"t{_COUNTER[0]}", "__annotations__": {}}
        body["pk_"] = mapped_column(Integer, primary_key=True, autoincrement=True)
        body["__annotations__"]["pk_"] = Mapped[int]
        for fname, tkey, req in fields:
            d = field_default(tkey, req)
            body["__annotations__"][fname] = Mapped[hints[fname]]
            kw = {}
            if d[0] == "value":
                kw["default"] = d[1]
            elif d[0] == "factory":
                kw["default"] = d[1]
            # db_names: the column is called differently from the mapped attribute (the logical model is about attributes)
            body[fname] = mapped_column("db_" + fname, col[tkey], **kw) if spec.get("db_names") else mapped_column(col[tkey], **kw)
        return type(name, (Base,), body)
    if kind == "plaininit":
        params, assigns = [], []
        for fname, tkey, req in fields:
            d = field_default(tkey, req)
            ns[f"_h_{fname}"] = hints[fname]
            if d[0] == "none":
                params.append(f"{fname}: _h_{fname}")
            elif d[0] == "value":
                ns[f"_d_{fname}"] = d[1]
                params.append(f"{fname}: _h_{fname} = _d_{fname}")
            else:
                raise ValueError("plain __init__ has no factories")
            assigns.append(f"        self.{fname} = {fname}")
        src = f"class {name}:\n    def __init__(self, {', '.join(params)}):\n" + "\n".join(assigns or ["        pass"]) + "\n"
        exec(src, ns)  # noqa: S102
        return ns[name]
    if kind == "kwinit":
        params, assigns = [], []
        for fname, tkey, req in fields:
            d = field_default(tkey, req)
            ns[f"_h_{fname}"] = hints[fname]
            if d[0] == "none":
                params.append(f"{fname}: _h_{fname}")
            elif d[0] == "value":
                ns[f"_d_{fname}"] = d[1]
                params.append(f"{fname}: _h_{fname} = _d_{fname}")
            else:
                raise ValueError("plain __init__ has no factories")
            assigns.append(f"        self.{fname} = {fname}")
        src = (f"class {name}:\n    def __init__(self, {', '.join(params)}{', ' if params else ''}**kwargs):\n"
               + "\n".join(assigns) + "\n        self.kwargs = kwargs\n")
        exec(src, ns)  # noqa: S102
        return ns[name]
    raise ValueError(kind)


def get_field(obj, kind, fname):
    if kind == "typeddict":
        return obj[fname]
    return getattr(obj, fname)


def has_field(obj, kind, fname):
    if kind == "typeddict":
        return fname in obj
    return hasattr(obj, fname)


def construct(cls, kind, values):
    """build an instance directly (values: dict field -> value, absent = use the default)"""
    if kind == "typeddict":
        return dict(values)
    if kind == "attrs":
        # attrs strips the leading underscores of a private attribute in __init__
        return cls(**{k.lstrip("_"): v for k, v in values.items()})
    return cls(**values)


def field_values(obj, spec):
    """field name -> value for present fields (TypedDict: only present keys)"""
    out = {}
    for fname, _, _ in spec["fields"]:
        if has_field(obj, spec["kind"], fname):
            out[fname] = get_field(obj, spec["kind"], fname)
    return out
