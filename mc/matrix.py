"""MATRIX engine: types x data x modes, executed on real retorts; oracles are supplied by the checks."""
import collections
import collections.abc
import traceback

from adaptix import DebugTrail, Retort
from adaptix.load_error import LoadError

from . import codec
from .ref_types import ACCEPT, REJECT, accepts
from .space import (
    A0,
    DICTS,
    ITER_IMPL,
    IterOnly,
    Datum,
    MyMapping,
    depth,
    show,
    to_hint,
    types_depth1,
    types_depth2,
    types_depth3,
    unwrap,
)

DEBUGS = ("DISABLE", "FIRST", "ALL")
MODES = [(d, s) for s in (True, False) for d in DEBUGS]   # (debug_trail, strict)


def mode_name(mode):
    return f"{mode[0]}/{'strict' if mode[1] else 'lax'}"


_RETORTS = {}


def retort_for(mode, recipe_key="default", recipe=()):
    key = (mode, recipe_key)
    r = _RETORTS.get(key)
    if r is None:
        r = Retort(debug_trail=DebugTrail[mode[0]], strict_coercion=mode[1], recipe=list(recipe))
        _RETORTS[key] = r
    return r


def reset_retorts():
    _RETORTS.clear()


# ------------------------------------------------------------------------------------------------------------
# outcomes

class Ok:
    __slots__ = ("value",)
    ok = True

    def __init__(self, value):
        self.value = value

    def __repr__(self):
        return f"Ok({codec.show(self.value, 80)})"


class Err:
    __slots__ = ("exc",)
    ok = False

    def __init__(self, exc):
        self.exc = exc

    @property
    def is_load_error(self):
        return isinstance(self.exc, LoadError)

    def __repr__(self):
        return f"Err({type(self.exc).__name__})"


def run(func, datum):
    try:
        return Ok(func(datum))
    except Exception as e:  # noqa: BLE001
        return Err(e)


def leaves_of(exc):
    """Flatten an exception tree into its non-group leaves."""
    if isinstance(exc, BaseExceptionGroup):
        out = []
        for sub in exc.exceptions:
            out.extend(leaves_of(sub))
        return out
    return [exc]


def raising_site(exc):
    """module.function of the innermost adaptix frame (or generated code) that raised"""
    tb = exc.__traceback__
    site = None
    for frame, _ in traceback.walk_tb(tb):
        fn = frame.f_code.co_filename
        if "/adaptix/" in fn or fn.startswith("<adaptix"):
            mod = fn.rsplit("/adaptix/", 1)[-1].replace("_internal/", "").replace(".py", "") if "/adaptix/" in fn \
                else "<generated>"
            site = f"{mod}:{frame.f_code.co_name}"
    return site or "?"


# ------------------------------------------------------------------------------------------------------------
# data for a type

_DATA_CACHE = {}
_REPS_CACHE = {}


def _hashable(x):
    try:
        hash(x)
    except TypeError:
        return False
    return True


def reps(ts):
    """representatives: up to 2 strict-accepted, 2 strict-rejected, 1 lax-only accepted datum (deterministic)"""
    r = _REPS_CACHE.get(ts)
    if r is not None:
        return r
    acc, rej, lax = [], [], []
    for d in data_for(ts):
        if d.one_shot:
            continue
        v = accepts(ts, d.fresh(), True)
        if v == ACCEPT and len(acc) < 2:
            acc.append(d)
        elif v == REJECT:
            if len(rej) < 2:
                rej.append(d)
            elif len(lax) < 1 and accepts(ts, d.fresh(), False) == ACCEPT:
                lax.append(d)
        if len(acc) >= 2 and len(rej) >= 2 and lax:
            break
    r = {"acc": acc, "rej": rej, "lax": lax}
    _REPS_CACHE[ts] = r
    return r


def _wrap(name, fn, one_shot=False):
    return Datum(name, fn, one_shot=one_shot)


def data_for(ts):  # noqa: C901, PLR0912, PLR0915
    got = _DATA_CACHE.get(ts)
    if got is not None:
        return got
    u = unwrap(ts)
    h = u[0]
    out = list(A0)
    if h in ITER_IMPL:
        elem = u[1]
        r = reps(elem)
        pool = data_for(elem) if depth(elem) == 1 else (r["acc"] + r["rej"] + r["lax"])
        for x in pool:
            if x.one_shot:
                continue
            out.append(_wrap(f"[{x.name}]", lambda x=x: [x.fresh()]))
        a, j = r["acc"], r["rej"]
        if len(a) >= 2:
            out.append(_wrap(f"[{a[0].name}, {a[1].name}]", lambda a=a: [a[0].fresh(), a[1].fresh()]))
            out.append(_wrap(f"[{a[0].name}, {a[0].name}]", lambda a=a: [a[0].fresh(), a[0].fresh()]))
            out.append(_wrap(f"iter([{a[0].name}, {a[1].name}])", lambda a=a: iter([a[0].fresh(), a[1].fresh()]), True))
            out.append(_wrap(f"IterOnly([{a[0].name}, {a[1].name}])", lambda a=a: IterOnly([a[0].fresh(), a[1].fresh()])))
        if a and j:
            out.append(_wrap(f"[{a[0].name}, {j[0].name}]", lambda a=a, j=j: [a[0].fresh(), j[0].fresh()]))
            out.append(_wrap(f"[{j[0].name}, {a[0].name}]", lambda a=a, j=j: [j[0].fresh(), a[0].fresh()]))
        if len(j) >= 2:
            out.append(_wrap(f"[{j[0].name}, {j[1].name}]", lambda j=j: [j[0].fresh(), j[1].fresh()]))
        if a:
            out.append(_wrap(f"({a[0].name},)", lambda a=a: (a[0].fresh(),)))
            if _hashable(a[0].fresh()):
                out.append(_wrap(f"{{{a[0].name}}}", lambda a=a: {a[0].fresh()}))
                out.append(_wrap(f"{{{a[0].name}: {a[0].name}}}", lambda a=a: {a[0].fresh(): a[0].fresh()}))
    elif h in DICTS:
        kt, vt = u[1], u[2]
        rk, rv = reps(kt), reps(vt)
        ks = [k for k in rk["acc"] + rk["rej"] + rk["lax"] if _hashable(k.fresh())]
        vs = rv["acc"] + rv["rej"] + rv["lax"]
        for k in ks:
            for v in vs:
                out.append(_wrap(f"{{{k.name}: {v.name}}}", lambda k=k, v=v: {k.fresh(): v.fresh()}))
        if rk["acc"]:
            k0 = rk["acc"][0]
            if depth(vt) == 1:
                for x in data_for(vt):
                    if not x.one_shot:
                        out.append(_wrap(f"{{{k0.name}: {x.name}}}", lambda x=x, k0=k0: {k0.fresh(): x.fresh()}))
            if rv["acc"]:
                v0 = rv["acc"][0]
                if depth(kt) == 1:
                    for x in data_for(kt):
                        if not x.one_shot and _hashable(x.fresh()):
                            out.append(_wrap(f"{{{x.name}: {v0.name}}}", lambda x=x, v0=v0: {x.fresh(): v0.fresh()}))
                out.append(_wrap(f"MyMapping({{{k0.name}: {v0.name}}})",
                                 lambda k0=k0, v0=v0: MyMapping({k0.fresh(): v0.fresh()})))
                if len(rk["acc"]) > 1 and rv["rej"]:
                    k1, vr = rk["acc"][1], rv["rej"][0]
                    out.append(_wrap(f"{{{k0.name}: {v0.name}, {k1.name}: {vr.name}}}",
                                     lambda k0=k0, v0=v0, k1=k1, vr=vr: {k0.fresh(): v0.fresh(), k1.fresh(): vr.fresh()}))
                    out.append(_wrap(f"{{{k0.name}: {vr.name}, {k1.name}: {vr.name}}}",
                                     lambda k0=k0, k1=k1, vr=vr: {k0.fresh(): vr.fresh(), k1.fresh(): vr.fresh()}))
                out.append(_wrap(f"[({k0.name}, {v0.name})]", lambda k0=k0, v0=v0: [(k0.fresh(), v0.fresh())]))
    elif h == "Tuple":
        comps = u[1:]
        rs = [reps(t) for t in comps]
        if all(r["acc"] for r in rs):
            base = [r["acc"][0] for r in rs]

            def mk(items, kind=tuple):
                return lambda: kind(i.fresh() for i in items)

            def nm(items):
                return "(" + ", ".join(i.name for i in items) + ("," if len(items) == 1 else "") + ")"

            out.append(_wrap(nm(base), mk(base)))
            out.append(_wrap("list" + nm(base), mk(base, list)))
            out.append(_wrap("iter" + nm(base), lambda base=base: iter([i.fresh() for i in base]), True))
            out.append(_wrap("IterOnly" + nm(base), mk(base, IterOnly)))
            out.append(_wrap("IterOnly" + nm(base[:-1]), mk(base[:-1], IterOnly)))
            out.append(_wrap("IterOnly" + nm([*base, base[-1]]), mk([*base, base[-1]], IterOnly)))
            out.append(_wrap(nm(base[:-1]), mk(base[:-1])))
            out.append(_wrap(nm([*base, base[-1]]), mk([*base, base[-1]])))
            for i, (t, r) in enumerate(zip(comps, rs)):
                alts = (data_for(t) if depth(t) == 1 and len(comps) <= 2 else r["acc"][1:] + r["rej"] + r["lax"])
                for x in alts:
                    if x.one_shot:
                        continue
                    items = [*base[:i], x, *base[i + 1:]]
                    out.append(_wrap(nm(items), mk(items)))
            # two faults at once
            if len(comps) >= 2 and rs[0]["rej"] and rs[1]["rej"]:
                items = [rs[0]["rej"][0], rs[1]["rej"][0], *base[2:]]
                out.append(_wrap(nm(items), mk(items)))
                # ... of which the first is the datum user loaders of the recipes answer with an exception of their own
                thirteen = next((d for d in A0 if d.name == "13"), None)
                if thirteen is not None:
                    items = [thirteen, rs[1]["rej"][0], *base[2:]]
                    out.append(_wrap(nm(items), mk(items)))
    elif h == "Optional":
        out = list(data_for(u[1]))
    elif h == "Union":
        seen = set()
        out = []
        for t in u[1:]:
            for d in data_for(t):
                if d.name not in seen:
                    seen.add(d.name)
                    out.append(d)
    # dedup by name, keep order
    seen = set()
    final = []
    for d in out:
        if d.name not in seen:
            seen.add(d.name)
            final.append(d)
    _DATA_CACHE[ts] = final
    return final


def find_datum(ts, name):
    for d in data_for(ts):
        if d.name == name:
            return d
    raise KeyError(name)


# ------------------------------------------------------------------------------------------------------------
# children of a (type, datum) pair, for blame localisation

def children(ts, d):  # noqa: C901
    """(child TypeSpec, child datum) pairs one level down; [] when the datum does not fit the node's container kind"""
    u = unwrap(ts)
    h = u[0]
    if isinstance(d, str) or hasattr(d, "__next__"):
        if h in ("Optional", "Union"):
            pass
        else:
            return []
    if h in ITER_IMPL:
        if isinstance(d, collections.abc.Mapping) or not isinstance(d, collections.abc.Iterable):
            return []
        return [(u[1], x) for x in d]
    if h == "Tuple":
        if isinstance(d, collections.abc.Mapping) or not isinstance(d, collections.abc.Iterable):
            return []
        items = list(d)
        if len(items) != len(u) - 1:
            return []
        return list(zip(u[1:], items))
    if h in DICTS:
        if not isinstance(d, collections.abc.Mapping):
            return []
        out = []
        for k, v in d.items():
            out.append((u[1], k))
            out.append((u[2], v))
        return out
    if h == "Optional":
        return [] if d is None else [(u[1], d)]
    if h == "Union":
        return [(t, d) for t in u[1:]]
    return []


def blame(ts, datum_obj, bad):
    """Descend to the smallest (type, datum) sub-pair on which `bad(ts, datum)` still holds."""
    cur_ts, cur_d = ts, datum_obj
    for _ in range(8):
        nxt = None
        try:
            kids = children(cur_ts, cur_d)
        except Exception:  # noqa: BLE001
            kids = []
        for cts, cd in kids:
            try:
                if bad(cts, cd):
                    nxt = (cts, cd)
                    break
            except Exception:  # noqa: BLE001, S112
                continue
        if nxt is None:
            break
        cur_ts, cur_d = nxt
    return cur_ts, cur_d


def kind_of(d):
    t = type(d)
    if t.__module__ in ("builtins", "decimal", "fractions", "datetime"):
        return t.__name__
    return f"{t.__module__.split('.')[-1]}.{t.__name__}"


# ------------------------------------------------------------------------------------------------------------
# type lists per tier

def types_for(tier):
    ts = types_depth1() + types_depth2()
    if tier == "thorough":
        ts += types_depth3()
    return ts


def type_shards(tier, n):
    ts = types_for(tier)
    # interleave so every shard gets a mix of cheap and expensive types
    return [ts[i::n] for i in range(n) if ts[i::n]]


def describe(ts, datum_name, mode=None):
    s = f"{show(ts)} <- {datum_name}"
    if mode:
        s += f" [{mode_name(mode)}]"
    return s


def hint_of(ts):
    return to_hint(ts)
