"""Evidence writer: builds /verif/evidence/<id>.json from a Report and validates it against the schema."""
import json
import os
import subprocess
import sys

from . import env

EVIDENCE_DIR = os.path.join(env.VERIF_ROOT, "evidence")
SCHEMA = os.path.join(env.VERIF_ROOT, "schemas", "EVIDENCE.schema.json")


def write(pid, tier, level, report, *, rule, wall_s, assumptions, violations, known_hit, exhaustive, bound=None,
          extra=None):
    cov = {
        "evaluations": report.evaluations,
        "distinct_nontrivial": len(report.nontrivial),
        "rule": rule,
        "samples": report.samples[:12] or ["<no sample recorded>"],
        "exhaustive": bool(exhaustive) and not report.capped,
        "capped": report.capped,
        "distinct_outcomes": dict(sorted(report.outcomes.items())),
        "skipped_by_rule": dict(sorted(report.skipped.items())),
        "known_findings_hit": known_hit,
        "violation_groups_total": len(report.violations),
    }
    if bound is not None:
        cov["bound"] = bound
    for k, v in sorted(report.counters.items()):
        cov[k] = v
    if report.notes:
        cov["notes"] = report.notes
    if extra:
        cov.update(extra)
    doc = {
        "property_id": pid,
        "tier": tier,
        "seed": env.seed(),
        "level": level,
        "coverage": cov,
        "assumptions": assumptions,
        "wall_s": round(wall_s, 3),
        "violations": violations,
    }
    os.makedirs(EVIDENCE_DIR, exist_ok=True)
    path = os.path.join(EVIDENCE_DIR, f"{pid}.json")
    tmp = path + ".tmp"
    with open(tmp, "w") as f:
        json.dump(doc, f, indent=1, sort_keys=True, default=repr)
        f.write("\n")
    os.replace(tmp, path)
    validate(path)
    return path


def validate(path):
    script = os.path.join(env.VERIF_ROOT, "mc", "validate_evidence.py")
    try:
        proc = subprocess.run(["python3-vt", script, path, SCHEMA], capture_output=True, text=True, timeout=120,
                              env={k: v for k, v in os.environ.items() if not k.startswith("PYTHON")})
    except FileNotFoundError:
        _fallback_validate(path)
        return
    if proc.returncode != 0:
        print("FRAMEWORK-ERROR: evidence file does not validate:\n" + proc.stdout + proc.stderr, file=sys.stderr)
        sys.exit(2)


def _fallback_validate(path):
    with open(path) as f:
        doc = json.load(f)
    for k in ("property_id", "tier", "seed", "level", "coverage", "wall_s"):
        if k not in doc:
            print(f"FRAMEWORK-ERROR: evidence lacks {k}", file=sys.stderr)
            sys.exit(2)
