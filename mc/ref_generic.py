"""Reference model for C16: symbolic substitution of type arguments through a *specified* class hierarchy.

Everything here works on the hierarchy SPEC (plain JSON-able data).  It never looks at Python classes and never calls adaptix.
Sources: the property statement of C16, docs/loading-and-dumping/extended-usage.rst ("Generic classes": table of derived
implicit parameters), docs/loading-and-dumping/specific-types-behavior.rst (strict origins of int/str/bool, Any, Iterable
subclasses, Dict, Union, "Tuple of dynamic length like *tuple[int, ...] isn't supported yet") and the rules of Python's typing
module for the order of a class's type parameters (PEP 484 / PEP 646).

Type expressions (tuples; lists in JSON):
    ("int",) ("str",) ("bool",) ("Any",)
    ("var", name)                         a TypeVar of TYPEVARS
    ("List", t)  ("Dict", t)              List[t], Dict[str, t]
    ("Optional", t)  ("Union", t1, t2, ...)
    ("Tuple", item, ...)                  constant-length tuple; an item may be ("unpack", "Ts")
    ("unpack", "Ts")                      *Ts            (inside Tuple[...] and in argument lists)
    ("unpack_tuple", t1, ...)             *tuple[t1, ...] (in argument lists)
    ("unbounded",)                        *tuple[Any, ...]  (implicit parameter of a TypeVarTuple; documented as unsupported)

Hierarchy spec:
    {"classes": [ {"name": str, "generic": [param names] | None, "bases": [{"cls": name, "args": [texpr...] | None}],
                   "fields": [[name, texpr], ...]}, ... ]}      # topologically ordered, the leaf is the last class
"""
from itertools import product

TYPEVARS = {
    "T": {"kind": "plain"},
    "U": {"kind": "plain"},
    "B": {"kind": "bound", "bound": ("int",)},
    "C": {"kind": "constrained", "constraints": (("int",), ("str",))},
    "Ts": {"kind": "tuple"},
}

INT, STR, BOOL, ANY = ("int",), ("str",), ("bool",), ("Any",)
UNBOUNDED = ("unbounded",)
POOL = (INT, STR, BOOL, ("List", INT))


def var(n):
    return ("var", n)


def freeze(x):
    if isinstance(x, (list, tuple)):
        return tuple(freeze(i) for i in x)
    return x


def thaw(x):
    if isinstance(x, (list, tuple)):
        return [thaw(i) for i in x]
    return x


# ---------------------------------------------------------------------------------------------- rendering (for messages)

def render(t):  # noqa: PLR0911
    h = t[0]
    if h in ("int", "str", "bool", "Any"):
        return h
    if h == "var":
        return t[1]
    if h == "unpack":
        return "*" + t[1]
    if h == "unpack_tuple":
        return "*tuple[" + ", ".join(render(i) for i in t[1:]) + "]"
    if h == "unbounded":
        return "*tuple[Any, ...]"
    if h == "Dict":
        return f"Dict[str, {render(t[1])}]"
    if h == "Tuple" and len(t) == 1:
        return "Tuple[()]"
    return h + "[" + ", ".join(render(i) for i in t[1:]) + "]"


# ---------------------------------------------------------------------------------------------- variables and parameters

def vars_of(t, acc=None):
    """type variables of an expression in order of first appearance"""
    acc = [] if acc is None else acc
    if t[0] in ("var", "unpack"):
        if t[1] not in acc:
            acc.append(t[1])
    else:
        for i in t[1:]:
            if isinstance(i, tuple):
                vars_of(i, acc)
    return acc


_CACHE = {}


def _memo(spec):
    """per-spec memo (specs are immutable once built); keyed by identity, the spec is kept alive by the entry"""
    e = _CACHE.get(id(spec))
    if e is None or e[0] is not spec:
        if len(_CACHE) > 64:
            _CACHE.clear()
        e = _CACHE[id(spec)] = (spec, {})
    return e[1]


def memoised(fn):
    def wrapper(spec, name):
        m = _memo(spec)
        k = (fn.__name__, name)
        if k not in m:
            m[k] = fn(spec, name)
        return m[k]
    wrapper.__name__ = fn.__name__
    wrapper.__doc__ = fn.__doc__
    return wrapper


def get_class(spec, name):
    for c in spec["classes"]:
        if c["name"] == name:
            return c
    raise KeyError(name)


@memoised
def class_params(spec, name):
    """Python's rule: the parameters listed in Generic[...] when it is given, otherwise the type variables of the
    subscripted bases in order of first appearance."""
    c = get_class(spec, name)
    if c["generic"] is not None:
        return list(c["generic"])
    acc = []
    for b in c["bases"]:
        for a in (b["args"] or ()):
            vars_of(freeze(a), acc)
    return acc


def implicit_args(params):
    """docs/extended-usage.rst: TypeVar -> Any; bound TypeVar -> its bound; constrained TypeVar -> Union of constraints.
    A TypeVarTuple is not in the table; PEP 646 says *tuple[Any, ...], which adaptix documents as unsupported."""
    out = []
    for p in params:
        d = TYPEVARS[p]
        if d["kind"] == "plain":
            out.append(ANY)
        elif d["kind"] == "bound":
            out.append(d["bound"])
        elif d["kind"] == "constrained":
            out.append(("Union", *d["constraints"]))
        else:
            out.append(UNBOUNDED)
    return out


def flatten_args(args):
    out = []
    for a in args:
        if a[0] == "unpack_tuple":
            out.extend(a[1:])
        else:
            out.append(a)
    return out


class Illegal(Exception):
    """the spec is not a legal Python/typing program (skipped by rule, never a verdict)"""


def bind(params, args):
    """parameter list x (flattened) argument list -> environment {name: texpr | tuple of items for a TypeVarTuple}"""
    raw = [freeze(a) for a in args]
    args = flatten_args(raw)
    tuples = [p for p in params if TYPEVARS[p]["kind"] == "tuple"]
    if len(tuples) > 1:
        raise Illegal("more than one TypeVarTuple in a parameter list")
    if not tuples and any(a[0] == "unpack_tuple" for a in raw):
        raise Illegal("*tuple[...] argument for a class without a TypeVarTuple (typing refuses it at run time)")
    env = {}
    if not tuples:
        if len(args) != len(params):
            raise Illegal("wrong number of type arguments")
        for p, a in zip(params, args):
            if a[0] in ("unpack", "unbounded"):
                raise Illegal("an unpacked argument bound to an ordinary TypeVar")
            env[p] = a
        return env
    n_fixed = len(params) - 1
    tuple_len = len(args) - n_fixed
    if tuple_len < 0:
        raise Illegal("too few type arguments")
    idx = 0
    for p in params:
        if TYPEVARS[p]["kind"] == "tuple":
            env[p] = tuple(args[idx:idx + tuple_len])
            idx += tuple_len
        else:
            if args[idx][0] in ("unpack", "unbounded"):
                raise Illegal("an unpacked argument bound to an ordinary TypeVar")
            env[p] = args[idx]
            idx += 1
    return env


def subst(t, env):
    h = t[0]
    if h == "var":
        return env[t[1]]
    if h in ("int", "str", "bool", "Any", "unbounded"):
        return t
    if h in ("Tuple", "unpack_tuple"):
        return (h, *subst_items(t[1:], env))
    if h == "unpack":
        raise Illegal("*Ts outside of a tuple / argument list")
    return (h, *(subst(i, env) for i in t[1:]))


def subst_items(items, env):
    out = []
    for i in items:
        if i[0] == "unpack":
            out.extend(env[i[1]])
        elif i[0] == "unpack_tuple":
            out.extend(subst_items(i[1:], env))
        else:
            out.append(subst(i, env))
    return out


def mentions(t, head):
    return t[0] == head or any(isinstance(i, tuple) and mentions(i, head) for i in t[1:])


# ---------------------------------------------------------------------------------------------- legality (Python's rules)

def _fits(param, arg, own_params):
    """typing rule: the argument for a bound / constrained parameter must respect the bound / be one of the constraints
    (or be the very same type variable)"""
    d = TYPEVARS[param]
    if d["kind"] == "plain":
        return True
    if arg[0] == "var":
        return arg[1] == param
    if d["kind"] == "bound":
        return arg in (INT, BOOL)        # bool is a subclass of int
    if d["kind"] == "constrained":
        return arg in d["constraints"]
    return True


def check_args(params, args):
    env = bind(params, args)
    for p in params:
        if TYPEVARS[p]["kind"] != "tuple" and not _fits(p, env[p], params):
            raise Illegal("type argument violates the bound / constraints of the type variable")
    return env


def legality(spec):
    """None if the hierarchy is a legal program, else the rule it breaks"""
    try:
        seen = set()
        for c in spec["classes"]:
            params = class_params(spec, c["name"])
            if len(set(params)) != len(params):
                raise Illegal("duplicate type variable in Generic[...]")
            if sum(1 for p in params if TYPEVARS[p]["kind"] == "tuple") > 1:
                raise Illegal("more than one TypeVarTuple in a parameter list")
            used = []
            for b in c["bases"]:
                if b["cls"] not in seen:
                    raise Illegal("base is not defined before the class")
                if b["args"] is not None:
                    for a in b["args"]:
                        vars_of(freeze(a), used)
                    check_args(class_params(spec, b["cls"]), b["args"])
            if c["generic"] is not None and not set(used) <= set(params):
                raise Illegal("some type variables of the bases are not listed in Generic[...]")
            names = [f[0] for f in c["fields"]]
            if len(set(names)) != len(names):
                raise Illegal("duplicate field")
            for _, ann in c["fields"]:
                if not set(vars_of(freeze(ann))) <= set(params):
                    raise Illegal("a field annotation uses a type variable that is not a parameter of the class")
            if len({b["cls"] for b in c["bases"]}) != len(c["bases"]):
                raise Illegal("duplicate base class")
            seen.add(c["name"])
            mro(spec, c["name"])
    except Illegal as e:
        return str(e)
    return None


# ---------------------------------------------------------------------------------------------- the substitution itself

@memoised
def mro(spec, name):
    """C3 linearisation (the Python data model): which class's declaration of a field a subclass sees"""
    c = get_class(spec, name)
    seqs = [mro(spec, b["cls"]) for b in c["bases"]] + [[b["cls"] for b in c["bases"]]]
    seqs = [list(q) for q in seqs if q]
    out = [name]
    while seqs:
        for q in seqs:
            head = q[0]
            if not any(head in o[1:] for o in seqs):
                break
        else:
            raise Illegal("no consistent method resolution order")
        out.append(head)
        seqs = [[x for x in q if x != head] for q in seqs]
        seqs = [q for q in seqs if q]
    return out


def declaring_class(spec, name, field):
    for k in mro(spec, name):
        if any(f == field for f, _ in get_class(spec, k)["fields"]):
            return k
    raise KeyError(field)


def edge_paths(spec, name, target):
    """all chains of base edges from `name` to `target`: list of lists of (child, edge)"""
    if name == target:
        return [[]]
    out = []
    for b in get_class(spec, name)["bases"]:
        for p in edge_paths(spec, b["cls"], target):
            out.append([(name, b), *p])
    return out


@memoised
def members(spec, name):
    """field -> set of annotations (in terms of the parameters of class `name`).

    The field a class has is the declaration of the first class of its MRO that annotates it (Python data model; for
    dataclasses: "fields are collected in reverse MRO order").  The annotation is substituted through the base edges that lead
    from `name` to that declaring class.  If several chains of edges lead there and bind its variables differently, the set has
    several elements: nothing says which binding counts, and the oracle compares nothing for that field (only creation)."""
    out = {}
    for k in mro(spec, name):
        for f, _ in get_class(spec, k)["fields"]:
            if f in out:
                continue
            decl = declaring_class(spec, name, f)
            ann = next(freeze(a) for g, a in get_class(spec, decl)["fields"] if g == f)
            types = set()
            for path in edge_paths(spec, name, decl):
                t = ann
                for _, edge in reversed(path):
                    bparams = class_params(spec, edge["cls"])
                    t = subst(t, bind(bparams, implicit_args(bparams) if edge["args"] is None else edge["args"]))
                types.add(t)
            # dataclasses collect Field objects "first class of the MRO that *has* the field" (inherited ones included), which in
            # a diamond whose second arm re-annotates the field is not the declaration get_type_hints() sees: Python itself is
            # of two minds there, so that view is added and the field becomes ambiguous when the two differ
            types.add(_first_base_view(spec, name, f))
            out[f] = types
    return out


def _all_field_names(spec, name):
    return {f for k in mro(spec, name) for f, _ in get_class(spec, k)["fields"]}


def _first_base_view(spec, name, field):
    c = get_class(spec, name)
    for f, ann in c["fields"]:
        if f == field:
            return freeze(ann)
    for b in c["bases"]:
        if field in _all_field_names(spec, b["cls"]):
            bparams = class_params(spec, b["cls"])
            env = bind(bparams, implicit_args(bparams) if b["args"] is None else b["args"])
            return subst(_first_base_view(spec, b["cls"], field), env)
    raise KeyError(field)


def resolve(spec, leaf, args):
    """field -> set of concrete field types for leaf[args] (args None = bare use)"""
    params = class_params(spec, leaf)
    env = bind(params, implicit_args(params)) if args is None else check_args(params, args)
    return {f: {subst(a, env) for a in anns} for f, anns in members(spec, leaf).items()}


def field_names(spec, name):
    return sorted(members(spec, name))


def declarations(spec, field):
    """every annotation any class of the hierarchy gives to `field` (used to build 'other substitutions')"""
    return [freeze(ann) for c in spec["classes"] for f, ann in c["fields"] if f == field]


# ---------------------------------------------------------------------------------------------- shape names (for signatures)

def edge_features(spec, child, base_edge):
    """short names of what is special about one base edge"""
    args = base_edge["args"]
    bparams = class_params(spec, base_edge["cls"])
    cparams = class_params(spec, child)
    if args is None:
        if not bparams:
            return set()
        kinds = {TYPEVARS[p]["kind"] for p in bparams}
        out = {"bare_base"}
        if "bound" in kinds:
            out.add("bare_bound")
        if "constrained" in kinds:
            out.add("bare_constrained")
        if "tuple" in kinds:
            out.add("variadic")
        return out
    args = [freeze(a) for a in args]
    out = set()
    if any(TYPEVARS[p]["kind"] == "tuple" for p in bparams) or any(a[0] in ("unpack", "unpack_tuple") for a in args):
        out.add("variadic")
        if any(a[0] == "unpack_tuple" for a in args):
            out.add("unpacked_tuple")
        env = bind(bparams, args)
        if any(TYPEVARS[p]["kind"] == "tuple" and len(env[p]) == 0 for p in bparams):
            out.add("variadic_empty")
        return out
    plain_vars = [a[1] for a in args if a[0] == "var"]
    concrete = [a for a in args if not vars_of(a)]
    wrapped = [a for a in args if a[0] != "var" and vars_of(a)]
    if wrapped:
        out.add("wrapped")
    if concrete and (plain_vars or wrapped):
        out.add("partial")
    if concrete and not plain_vars and not wrapped:
        out.add("concrete")
    all_vars = [v for a in args for v in vars_of(a)]
    if len(set(all_vars)) < len(all_vars):
        out.add("dup")
    if len(plain_vars) == len(args) == len(bparams) and len(args) > 0:
        if plain_vars != bparams and sorted(plain_vars) == sorted(bparams):
            out.add("swapped")
        elif set(plain_vars) != set(bparams):
            out.add("renamed")
    # position of the variables relative to the child's own parameter order
    order = [v for v in all_vars if v in cparams]
    dedup = list(dict.fromkeys(order))
    if len(dedup) > 1 and dedup != [p for p in cparams if p in dedup]:
        out.add("reordered")
    return out


def _has_generic_ancestor(spec, name):
    return any(class_params(spec, b["cls"]) or _has_generic_ancestor(spec, b["cls"]) for b in get_class(spec, name)["bases"])


def field_paths(spec, name, field):
    """all chains of base edges from `name` to the class whose declaration of `field` it sees"""
    return edge_paths(spec, name, declaring_class(spec, name, field))


def field_shape(spec, leaf, field, args_feature=()):
    feats = set(args_feature)
    paths = field_paths(spec, leaf, field)
    if len(paths) > 1:
        feats.add("diamond")
    for path in paths:
        for child, edge in path:
            feats |= edge_features(spec, child, edge)
            # a class that joins two or more non-generic bases which themselves close generic ancestors
            closed = [b for b in get_class(spec, child)["bases"]
                      if not class_params(spec, b["cls"]) and _has_generic_ancestor(spec, b["cls"])]
            if len(closed) > 1:
                feats.add("nongeneric_join")
        # a non-generic class between two generic ones
        chain = [leaf] + [e["cls"] for _, e in path]
        arities = [len(class_params(spec, n)) for n in chain]
        for i in range(1, len(arities) - 1):
            if arities[i] == 0 and arities[i - 1] > 0 and any(a > 0 for a in arities[i + 1:]):
                feats.add("nongeneric_mid")
    declaring = [k for k in mro(spec, leaf) if any(f == field for f, _ in get_class(spec, k)["fields"])]
    for k in declaring[1:]:
        if k in mro(spec, declaring[0]):
            feats.add("override")             # re-annotation of an inherited field
        else:
            feats.add("same_name_bases")      # unrelated bases declare the same field: the MRO decides
    for c in spec["classes"]:
        if c["generic"] is not None and c["bases"]:
            implicit = []
            for b in c["bases"]:
                for a in (b["args"] or ()):
                    vars_of(freeze(a), implicit)
            if implicit and [p for p in c["generic"] if p in implicit] != implicit:
                feats.add("generic_reordered")
    return "+".join(sorted(feats)) if feats else "plain"


def hierarchy_shape(spec, leaf, args_feature=()):
    """features of the whole hierarchy under the leaf (for problems that concern the model as a whole)"""
    feats = set(args_feature)
    for f in members(spec, leaf):
        feats |= set(field_shape(spec, leaf, f).split("+"))
    todo, seen = [leaf], set()
    while todo:
        name = todo.pop()
        if name in seen:
            continue
        seen.add(name)
        for b in get_class(spec, name)["bases"]:
            feats |= edge_features(spec, name, b)
            todo.append(b["cls"])
    feats.discard("plain")
    return "+".join(sorted(feats)) if feats else "plain"


def args_features(spec, leaf, args):
    params = class_params(spec, leaf)
    kinds = {TYPEVARS[p]["kind"] for p in params}
    out = set()
    if args is None:
        if params:
            out.add("bare")
            if "bound" in kinds:
                out.add("bare_bound")
            if "constrained" in kinds:
                out.add("bare_constrained")
            if "tuple" in kinds:
                out.add("bare_variadic")
    elif "tuple" in kinds:
        out.add("variadic")
        env = bind(params, args)
        if any(TYPEVARS[p]["kind"] == "tuple" and len(env[p]) == 0 for p in params):
            out.add("variadic_empty")
    return out


# ---------------------------------------------------------------------------------------------- data: conformity, values

def conforms(t, d):  # noqa: PLR0911
    """does datum d fit type t under the documented strict rules?"""
    h = t[0]
    if h == "Any":
        return True
    if h == "int":
        return type(d) is int
    if h == "str":
        return type(d) is str
    if h == "bool":
        return type(d) is bool
    if h == "List":
        return type(d) is list and all(conforms(t[1], x) for x in d)
    if h == "Dict":
        return type(d) is dict and all(type(k) is str and conforms(t[1], v) for k, v in d.items())
    if h == "Optional":
        return d is None or conforms(t[1], d)
    if h == "Union":
        return any(conforms(c, d) for c in t[1:])
    if h == "Tuple":
        return type(d) in (list, tuple) and len(d) == len(t) - 1 and all(conforms(c, x) for c, x in zip(t[1:], d))
    raise ValueError(t)


def ref_load(t, d):  # noqa: PLR0911
    h = t[0]
    if h in ("Any", "int", "str", "bool"):
        return d
    if h == "List":
        return [ref_load(t[1], x) for x in d]
    if h == "Dict":
        return {k: ref_load(t[1], v) for k, v in d.items()}
    if h == "Optional":
        return None if d is None else ref_load(t[1], d)
    if h == "Union":
        for c in t[1:]:
            if conforms(c, d):
                return ref_load(c, d)
    if h == "Tuple":
        return tuple(ref_load(c, x) for c, x in zip(t[1:], d))
    raise ValueError(t)


def ref_dump(t, v):  # noqa: PLR0911
    h = t[0]
    if h in ("Any", "int", "str", "bool"):
        return v
    if h == "List":
        return [ref_dump(t[1], x) for x in v]
    if h == "Dict":
        return {k: ref_dump(t[1], x) for k, x in v.items()}
    if h == "Optional":
        return None if v is None else ref_dump(t[1], v)
    if h == "Union":
        return v          # only unions of int/str occur: no conversion
    if h == "Tuple":
        return tuple(ref_dump(c, x) for c, x in zip(t[1:], v))   # "Dumper produces the tuple (or list for list children)"
    raise ValueError(t)


def reps(t):  # noqa: PLR0911
    """a few data that conform to t (simplest first)"""
    h = t[0]
    if h == "int":
        return [1]
    if h == "str":
        return ["x"]
    if h == "bool":
        return [True]
    if h == "Any":
        return [1, "x"]
    if h == "List":
        return [[r] for r in reps(t[1])[:2]] + [[]]
    if h == "Dict":
        return [{"k": r} for r in reps(t[1])[:2]]
    if h == "Optional":
        return [*reps(t[1])[:2], None]
    if h == "Union":
        return [r for c in t[1:] for r in reps(c)[:1]]
    if h == "Tuple":
        return [[reps(c)[0] for c in t[1:]]]
    raise ValueError(t)


def tkey(d):
    """type-exact key of a datum (1, True and 1.0 are different data)"""
    if type(d) in (list, tuple):
        return (type(d).__name__, tuple(tkey(x) for x in d))
    if type(d) is dict:
        return ("dict", tuple((tkey(k), tkey(v)) for k, v in d.items()))
    return (type(d).__name__, repr(d))


def same(a, b):
    return tkey(a) == tkey(b)


def substitutions(ann, pool=POOL):
    """all concrete instances of an annotation over the pool (a TypeVarTuple ranges over tuples of length <= 2)"""
    vs = vars_of(ann)
    if not vs:
        return [ann]
    domains = []
    for v in vs:
        if TYPEVARS[v]["kind"] == "tuple":
            domains.append([(), *((p,) for p in pool[:3]), *product(pool[:3], repeat=2)])
        else:
            domains.append(list(pool))
    out = []
    for combo in product(*domains):
        out.append(subst(ann, dict(zip(vs, combo))))
    return out


def universe(spec, leaf, field, actual, alternatives):
    """data that fit the field under *some* substitution: every declaration of the field in the hierarchy instantiated over
    the pool, the field's reference type under every alternative parametrisation of the leaf, and the actual type"""
    types = [actual]
    for ann in declarations(spec, field):
        types.extend(substitutions(ann))
    types.extend(alternatives)
    out, seen = [], set()
    for t in types:
        if mentions(t, "unbounded"):
            continue
        for d in reps(t):
            k = tkey(d)
            if k not in seen:
                seen.add(k)
                out.append(d)
    return out
