"""Stateless schedule explorer over real threads (iterative context bounding).

N real threading.Thread objects run the harness bodies; a sys.settrace line tracer hands control back to the controller
at every `line` event inside the scheduling region, so exactly one thread runs between two scheduling points.  The
controller replays a prefix of choices and then always continues the running thread (choice 0); children of an execution
are generated at every later point where another thread is enabled and the preemption budget allows.

Locks of the library are replaced by cooperative locks whose acquisition is a scheduling point; a thread waiting for a
held lock is disabled; "no enabled thread" is a deadlock; a horizon bounds every execution.
"""
import os
import sys
import threading

SRC_PREFIX = None   # set by configure()


STEP_TIMEOUT = 60      # seconds of wall time for ONE step of one thread (a step is a few bytecodes)


class Deadlock(Exception):
    pass


class HorizonExceeded(Exception):
    pass


class ReplayDivergence(Exception):
    pass


class Stuck(Exception):
    """the running thread neither reached a scheduling point nor finished within the step timeout: it blocks on something the
    scheduler does not control (a real lock taken by a parked thread, a sleep, an endless loop outside the traced region)"""


_CUR = None   # the Execution currently running (one at a time per process)


class CoopLock:
    """Cooperative (re-entrant if asked) lock: acquisition is a scheduling point, waiting disables the thread."""

    def __init__(self, reentrant=False):
        self.owner = None
        self.depth = 0
        self.reentrant = reentrant

    def acquire(self, blocking=True, timeout=-1):
        ex = _CUR
        if ex is None or threading.get_ident() not in ex.by_ident:
            # outside a controlled execution (set-up / post-check code): behave as an uncontended lock
            self.owner = "outside"
            self.depth += 1
            return True
        me = ex.by_ident[threading.get_ident()]
        ex.lock_point(me, self)
        while self.owner is not None and not (self.reentrant and self.owner == me):
            if not blocking or timeout >= 0:
                # try-lock (a timed wait is modelled as a try-lock whose timeout expired: time is not part of the model)
                return False
            ex.wait_for(me, self)
        self.owner = me
        self.depth += 1
        return True

    def release(self):
        self.depth -= 1
        if self.depth <= 0:
            self.depth = 0
            self.owner = None

    def __enter__(self):
        self.acquire()
        return self

    def __exit__(self, *a):
        self.release()

    def locked(self):
        return self.owner is not None

    def held_by_other(self, tid):
        return self.owner is not None and self.owner != tid and self.owner != "outside"


def configure(src_prefix):
    global SRC_PREFIX
    SRC_PREFIX = src_prefix.rstrip("/") + "/adaptix/_internal/"


class Region:
    """Which line events are scheduling points."""

    def __init__(self, files, funcs=None, name="R"):
        self.files = frozenset(files)
        self.funcs = frozenset(funcs) if funcs is not None else None
        self.name = name
        self._memo = {}

    def wants(self, code):
        w = self._memo.get(code)
        if w is None:
            w = self._memo[code] = self._wants(code)
        return w

    def _wants(self, code):
        fn = code.co_filename
        if not fn.startswith(SRC_PREFIX):
            return False
        if fn[len(SRC_PREFIX):] not in self.files:
            return False
        return self.funcs is None or code.co_name in self.funcs


class Execution:
    def __init__(self, bodies, prefix, region, horizon=200000, record_sites=False):
        self.bodies = bodies
        self.prefix = list(prefix)
        self.region = region
        self.n = len(bodies)
        self.sems = [threading.Semaphore(0) for _ in range(self.n)]
        self.main = threading.Semaphore(0)
        self.done = [False] * self.n
        self.results = [None] * self.n
        self.points = []      # per step: (running_still_enabled, number of enabled threads)
        self.choices = []
        self.sites = [] if record_sites else None    # per step: (thread, site) of the thread that was resumed
        self.waiting_on = [None] * self.n
        self.by_ident = {}
        self.horizon = horizon
        self.at = [None] * self.n     # where each thread is parked
        self.switches = 0

    # ---- called from worker threads
    def _park(self, i, site):
        self.at[i] = site
        self.main.release()
        self.sems[i].acquire()

    def line_point(self, i, frame):
        self._park(i, (frame.f_code.co_filename[len(SRC_PREFIX):], frame.f_lineno))

    def lock_point(self, i, lock):
        self._park(i, ("lock",))

    def wait_for(self, i, lock):
        self.waiting_on[i] = lock
        self._park(i, ("wait",))
        self.waiting_on[i] = None

    def _tracer(self, i):
        region = self.region

        def local(frame, event, arg):
            if event == "line":
                self.line_point(i, frame)
            return local

        def glob(frame, event, arg):
            if region.wants(frame.f_code):
                return local
            return None

        return glob

    def _thread_main(self, i):
        self.by_ident[threading.get_ident()] = i
        self.sems[i].acquire()
        sys.settrace(self._tracer(i))
        try:
            self.results[i] = ("ok", self.bodies[i]())
        except BaseException as e:  # noqa: BLE001
            sys.settrace(None)
            self.results[i] = ("exc", type(e).__name__, _exc_summary(e))
        finally:
            sys.settrace(None)
            self.done[i] = True
            self.main.release()

    # ---- controller
    def run(self):
        global _CUR
        _CUR = self
        threads = [threading.Thread(target=self._thread_main, args=(i,), daemon=True) for i in range(self.n)]
        for t in threads:
            t.start()
        cur = 0
        step = 0
        try:
            while not all(self.done):
                enabled = [i for i in range(self.n)
                           if not self.done[i] and not (self.waiting_on[i] is not None
                                                        and self.waiting_on[i].held_by_other(i))]
                if not enabled:
                    raise Deadlock([self.at[i] for i in range(self.n)])
                order = [cur] + [i for i in enabled if i != cur] if cur in enabled else enabled
                if step < len(self.prefix):
                    c = self.prefix[step]
                    if c >= len(order):
                        raise ReplayDivergence(f"step {step}: choice {c} but only {len(order)} enabled")
                else:
                    c = 0
                self.points.append((cur in enabled, len(order)))
                self.choices.append(c)
                nxt = order[c]
                if nxt != cur and cur in enabled:
                    self.switches += 1
                cur = nxt
                if self.sites is not None:
                    self.sites.append((cur, self.at[cur]))
                step += 1
                if step > self.horizon:
                    raise HorizonExceeded(step)
                self.sems[cur].release()
                if not self.main.acquire(timeout=STEP_TIMEOUT):
                    raise Stuck((cur, self.at[cur]))
        except (Deadlock, HorizonExceeded, ReplayDivergence, Stuck):
            # let the threads run to completion without control so that the process stays usable
            self._abandon()
            raise
        finally:
            _CUR = None
        for t in threads:
            t.join()
        return self.results

    def _abandon(self):
        for i in range(self.n):
            if not self.done[i]:
                # threads are daemons parked on their semaphore; leave them parked
                pass


def _exc_summary(e, depth=0):
    s = f"{type(e).__name__}: {str(e)[:120]}"
    if isinstance(e, BaseExceptionGroup) and depth < 3:
        s += " [" + "; ".join(_exc_summary(x, depth + 1) for x in e.exceptions[:3]) + "]"
    return s


def children_of(ex, prefix_len, bound):
    """prefixes of the executions that deviate once more from `ex` after its prefix, within the preemption bound"""
    out = []
    pre = 0
    for i in range(len(ex.choices)):
        running_enabled, k = ex.points[i]
        if i < prefix_len:
            if ex.choices[i] != 0 and running_enabled:
                pre += 1
            continue
        cost = pre + (1 if running_enabled else 0)
        if cost > bound:
            continue
        for alt in range(1, k):
            out.append(ex.choices[:i] + [alt])
    return out


def preemptions_in(ex):
    return sum(1 for (running_enabled, _), c in zip(ex.points, ex.choices) if c != 0 and running_enabled)


def explore_subtree(make, region, bound, root_prefix, check, stats, horizon=200000, twice_every=50, budget=None):
    """DFS over all executions extending root_prefix (root_prefix itself included)."""
    stack = [list(root_prefix)]
    while stack:
        prefix = stack.pop()
        bodies, ctx = make()
        ex = Execution(bodies, prefix, region, horizon=horizon, record_sites=(stats["executions"] % twice_every == 0))
        try:
            results = ex.run()
        except Deadlock as e:
            check(("deadlock", repr(e.args[0])[:300]), ex, ctx, prefix)
            stats["executions"] += 1
            continue
        except HorizonExceeded:
            check(("livelock",), ex, ctx, prefix)
            stats["executions"] += 1
            continue
        except Stuck as e:
            check(("stuck", repr(e.args[0])[:300]), ex, ctx, prefix)
            stats["executions"] += 1
            stats["capped"] = True      # every further schedule of this subtree would cost the step timeout again
            break
        stats["executions"] += 1
        stats["points"] += len(ex.choices)
        stats["switches"] += ex.switches
        stats["max_preemptions"] = max(stats["max_preemptions"], preemptions_in(ex))
        check(("done", results), ex, ctx, prefix)
        if ex.sites is not None:
            # determinism proof: the same schedule must reproduce the same sequence of scheduling points
            bodies2, ctx2 = make()
            ex2 = Execution(bodies2, ex.choices, region, horizon=horizon, record_sites=True)
            res2 = ex2.run()
            stats["replayed_twice"] += 1
            if ex2.sites != ex.sites or res2 != results:
                raise ReplayDivergence(f"schedule {compress(ex.choices)} is not reproducible")
        stack.extend(children_of(ex, len(prefix), bound))
        if budget is not None and budget():
            stats["capped"] = True
            break
    return stats


def new_stats():
    return {"executions": 0, "points": 0, "switches": 0, "max_preemptions": 0, "replayed_twice": 0, "capped": False}


def compress(choices):
    """schedule as the list of (step, choice) deviations from 'continue the running thread'"""
    return [(i, c) for i, c in enumerate(choices) if c]


def expand(deviations, length=0):
    out = []
    for i, c in deviations:
        while len(out) < i:
            out.append(0)
        out.append(c)
    return out
