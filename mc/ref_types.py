"""Executable statement of docs/loading-and-dumping/specific-types-behavior.rst for non-model types.

Never calls adaptix.  Three-valued: ACCEPT / REJECT / UNSPEC (documentation silent or says "undefined").

  accepts(ts, d, strict)          -> ACCEPT | REJECT | UNSPEC
  matches(ts, d, strict, result)  -> bool   (is `result` a value the rule allows for accepted datum d?)
  ref_dump(ts, x)                 -> dumped value (type exact), raises Unspec where the docs are silent
  has_overlap(ts, d, strict)      -> some union node has >= 2 cases that may accept its datum
"""
import base64
import binascii
import collections
import collections.abc
import datetime as dt
import io
import ipaddress
import math
import pathlib
import re
import uuid
from .codec import srepr as codec_srepr
from decimal import Decimal, InvalidOperation
from enum import Enum
from fractions import Fraction

from .space import DICTS, ENUMS, FLAGS, ITER_IMPL, LITERALS, unwrap

ACCEPT, REJECT, UNSPEC = "accept", "reject", "unspec"


class Unspec(Exception):
    pass


# ------------------------------------------------------------------------------------------------------------
# helpers

def same(a, b):  # noqa: C901, PLR0911
    """Type-exact recursive equality; NaN equals NaN."""
    if type(a) is not type(b):
        return False
    if isinstance(a, float):
        return a == b or (math.isnan(a) and math.isnan(b))
    if isinstance(a, complex):
        return same(a.real, b.real) and same(a.imag, b.imag)
    if isinstance(a, Decimal):
        return (a.is_nan() and b.is_nan()) or (a == b and a.as_tuple() == b.as_tuple()) if a.is_nan() or b.is_nan() \
            else a.as_tuple() == b.as_tuple()
    if isinstance(a, (list, tuple, collections.deque)):
        return len(a) == len(b) and all(same(x, y) for x, y in zip(a, b))
    if isinstance(a, (set, frozenset)):
        if len(a) != len(b):
            return False
        rest = list(b)
        for x in a:
            for i, y in enumerate(rest):
                if same(x, y):
                    del rest[i]
                    break
            else:
                return False
        return True
    if isinstance(a, dict):
        if len(a) != len(b):
            return False
        if isinstance(a, collections.defaultdict) and a.default_factory is not b.default_factory:
            return False
        for k, v in a.items():
            hit = [k2 for k2 in b if same(k, k2)]
            if not hit or not same(v, b[hit[0]]):
                return False
        return True
    if isinstance(a, io.BytesIO):
        return a.getvalue() == b.getvalue()
    if isinstance(a, re.Pattern):
        return a.pattern == b.pattern and a.flags == b.flags
    if hasattr(a, "__dataclass_fields__"):
        return all(same(getattr(a, f), getattr(b, f)) for f in a.__dataclass_fields__)
    return a == b


_B64 = re.compile(r"[A-Za-z0-9+/]*={0,2}")


def _b64(d):
    """valid padded base64 string -> bytes, else None"""
    if not isinstance(d, str):
        return None
    try:
        raw = d.encode("ascii")
    except UnicodeEncodeError:
        return None
    if not _B64.fullmatch(d) or len(raw) % 4 != 0:
        return None
    if d.endswith("=") and len(d.rstrip("=")) % 4 == 1:
        return None
    try:
        return base64.b64decode(raw)
    except binascii.Error:
        return None


def _ctor(fn, d):
    """constructor succeeded? -> (True, value) ; failure of any kind -> (False, None)"""
    try:
        return True, fn(d)
    except Exception:  # noqa: BLE001
        return False, None


_STRICT_ORIGINS = {
    "int": (int,), "float": (float, int), "str": (str,), "bool": (bool,),
    "Decimal": (str, Decimal), "Fraction": (str, Fraction), "complex": (str, complex),
}
_CTORS = {"int": int, "float": float, "str": str, "bool": bool, "Decimal": Decimal, "Fraction": Fraction,
          "complex": complex}
_STR_CTORS = {
    "UUID": uuid.UUID, "IPv4Address": ipaddress.IPv4Address, "IPv6Network": ipaddress.IPv6Network,
    "IPv4Interface": ipaddress.IPv4Interface, "PurePosixPath": pathlib.PurePosixPath, "Path": pathlib.Path,
    "PathLike": pathlib.Path, "date": dt.date.fromisoformat, "time": dt.time.fromisoformat,
    "datetime": dt.datetime.fromisoformat,
}


def _hashable(x):
    try:
        hash(x)
    except TypeError:
        return False
    return True


_IMMUTABLE = (int, float, str, bytes, bool, type(None), complex, Decimal, Fraction, tuple, frozenset)


def _iter_items(d):
    try:
        return list(iter(d))
    except TypeError:
        return None


# ------------------------------------------------------------------------------------------------------------
# loading: leaf rules return (verdict, value-or-None)

def _leaf_load(h, ts, d, strict):  # noqa: C901, PLR0911, PLR0912
    if h in _STRICT_ORIGINS:
        if strict:
            if type(d) not in _STRICT_ORIGINS[h]:
                return REJECT, None
            ok, v = _ctor(_CTORS[h], d)
            return (ACCEPT, v) if ok else (REJECT, None)
        # lax: "all conversions that the corresponding constructor can perform"
        ok, v = _ctor(_CTORS[h], d)
        return (ACCEPT, v) if ok else (REJECT, None)
    if h == "LiteralString":
        return _leaf_load("str", ts, d, strict)
    if h == "None":
        return (ACCEPT, None) if d is None else (REJECT, None)
    if h in ("Any", "object"):
        return ACCEPT, d
    if h in ("bytes", "ByteString", "bytearray", "BytesIO", "IOBytes"):
        raw = _b64(d)
        if raw is None:
            return REJECT, None
        if h == "bytearray":
            return ACCEPT, bytearray(raw)
        if h in ("BytesIO", "IOBytes"):
            return ACCEPT, io.BytesIO(raw)
        return ACCEPT, raw
    if h == "Pattern":
        if not isinstance(d, str):
            return REJECT, None
        ok, v = _ctor(re.compile, d)
        return (ACCEPT, v) if ok else (REJECT, None)
    if h in _STR_CTORS:
        if not isinstance(d, str):
            # the docs promise strings only; objects the raw constructor happens to take (a Path for Path,
            # an int for IPv4Address, bytes for IPv6Network ...) are not specified for lax mode
            if strict:
                return REJECT, None
            ok, v = _ctor(_STR_CTORS[h], d)
            return (UNSPEC, None) if ok else (REJECT, None)
        ok, v = _ctor(_STR_CTORS[h], d)
        return (ACCEPT, v) if ok else (REJECT, None)
    if h == "timedelta":
        if type(d) not in (int, float, Decimal):
            return REJECT, None
        try:
            exact = Fraction(d)
            if abs(exact) > 86400 * 999999999:
                return REJECT, None
        except (ValueError, OverflowError, TypeError):
            return REJECT, None
        return ACCEPT, exact   # matched within 1 microsecond
    if h == "Flag":
        cls = FLAGS[ts[1]]
        mask = 0
        for m in cls.__members__.values():
            mask |= m.value
        if type(d) is not int:
            return REJECT, None
        if d < 0 or d > mask:
            return REJECT, None
        return ACCEPT, cls(d)
    if h == "Enum":
        cls = ENUMS[ts[1]]
        try:
            hits = [m for m in cls if m.value == d]
        except Exception:  # noqa: BLE001
            hits = []
        if not hits:
            return REJECT, None   # in particular a member of a plain Enum is not the representation of a member
        if type(hits[0].value) is not type(d):
            return UNSPEC, None   # look-alike (True for 1, 1.0 for 1, str subclass): not specified
        return ACCEPT, hits[0]
    if h == "Literal":
        return _literal_load(LITERALS[ts[1]], d, strict)
    raise ValueError(h)


def _literal_load(members, d, strict):  # noqa: C901, PLR0912
    """Returns (verdict, list of allowed results)"""
    allowed = []
    unspec = False
    # enum members through their loaders (by exact value), first
    for m in members:
        if isinstance(m, Enum):
            try:
                if not isinstance(d, type(m)) and m.value == d:
                    if type(m.value) is type(d):
                        allowed.append(m)
                    else:
                        unspec = True
            except Exception:  # noqa: BLE001, S110
                pass
    for m in members:
        if isinstance(m, bytes):
            if _b64(d) == m and _b64(d) is not None:
                allowed.append(m)
    for m in members:
        try:
            eq = bool(d == m)
        except Exception:  # noqa: BLE001
            eq = False
        if not eq:
            continue
        if isinstance(m, Enum) and isinstance(d, Enum):
            # an enum member given as itself: "Enum instances will be loaded via its loaders" -> the loader rejects
            # members, but plain value listing would accept it: not specified
            unspec = True
            continue
        if type(d) is type(m):
            allowed.append(d)
            continue
        both_boolint = type(d) in (bool, int) and type(m) in (bool, int)
        if both_boolint:
            if strict:
                continue           # documented: strict distinguishes equal bool and int
            if any(type(x) is type(d) and x == d for x in members if not isinstance(x, Enum)):
                continue           # the datum itself is listed: it is the value that is loaded
            allowed.append(d)      # documented: lax considers them the same value
            allowed.append(m)
            continue
        unspec = True              # 1.0 for 1, Decimal(1) for 1, str subclass ...
    if allowed:
        return ACCEPT, allowed
    return (UNSPEC, []) if unspec else (REJECT, [])


def _is_iter_excluded(d, strict):
    """strict: any iterable excluding str and Mapping"""
    if not strict:
        return False
    return type(d) is str or isinstance(d, collections.abc.Mapping)


class OneShotView:
    """a one-shot iterator materialised for the reference: still recognisable as an iterator, but re-iterable"""

    def __init__(self, items):
        self.items = items

    def __iter__(self):
        return iter(self.items)

    def __next__(self):   # marks the object as an iterator for the rules that ask
        raise StopIteration


def _view(d):
    if hasattr(d, "__next__") and not isinstance(d, OneShotView):
        return OneShotView(list(d))
    return d


def accepts(ts, d, strict):  # noqa: C901, PLR0911, PLR0912
    d = _view(d)
    ts = unwrap(ts)
    h = ts[0]
    if h in ITER_IMPL:
        if _is_iter_excluded(d, strict):
            return REJECT
        if strict and isinstance(d, str):
            return UNSPEC    # str subclass: "excluding str" does not say
        items = _iter_items(d)
        if items is None:
            return REJECT
        v = _all([accepts(ts[1], x, strict) for x in items])
        if v != REJECT and h in ("Set", "FrozenSet", "AbstractSet", "MutableSet"):
            if passes_any(ts[1]) and not all(_hashable(x) or accepts_elsewhere(ts[1], x, strict) for x in items):
                return REJECT    # an unhashable element cannot be loaded "into the origin"
            if any(type(x) is Decimal and x.is_snan() for x in items):
                return UNSPEC    # a signaling NaN passes the Decimal loader but no set can hold it
            for i, x in enumerate(items):
                for y in items[i + 1:]:
                    try:
                        if x == y and not same(x, y):
                            return UNSPEC   # equal items of different types collapse inside a set (False/0, 1/1.0)
                    except Exception:  # noqa: BLE001, S110
                        pass
        return v
    if h == "Tuple":
        if _is_iter_excluded(d, strict):
            return REJECT
        if strict and isinstance(d, str):
            return UNSPEC
        if not hasattr(d, "__len__") and hasattr(d, "__next__"):
            return UNSPEC    # one-shot iterator for a constant-length tuple: C06's finding, not specified here
        items = _iter_items(d)
        if items is None:
            return REJECT
        if len(items) != len(ts) - 1:
            return REJECT
        return _all([accepts(t, x, strict) for t, x in zip(ts[1:], items)])
    if h in DICTS:
        if not isinstance(d, collections.abc.Mapping):
            return REJECT
        verdicts = []
        for k, v in d.items():
            verdicts.append(accepts(ts[1], k, strict))
            verdicts.append(accepts(ts[2], v, strict))
        return _all(verdicts)
    if h == "Optional":
        if d is None:
            return ACCEPT
        return accepts(ts[1], d, strict)
    if h == "Union":
        verdicts = [accepts(t, d, strict) for t in ts[1:]]
        if ACCEPT in verdicts:
            return ACCEPT
        if all(v == REJECT for v in verdicts):
            return REJECT
        return UNSPEC
    verdict, _ = _leaf_load(h, ts, d, strict)
    return verdict


def _all(verdicts):
    if REJECT in verdicts:
        return REJECT
    if UNSPEC in verdicts:
        return UNSPEC
    return ACCEPT


def matches(ts, d, strict, result):  # noqa: C901, PLR0911, PLR0912
    """Given that d may be accepted: is `result` one of the values the rules allow?"""
    d = _view(d)
    ts = unwrap(ts)
    h = ts[0]
    if h in ITER_IMPL:
        impl = ITER_IMPL[h]
        if type(result) is not impl:
            return False
        items = _iter_items(d)
        if items is None:
            return False
        if impl in (set, frozenset):
            # element-wise load into a set: every result element comes from some datum element and vice versa
            res = list(result)
            return (all(any(matches(ts[1], x, strict, r) for r in res) for x in items
                        if accepts(ts[1], x, strict) != REJECT)
                    and all(any(accepts(ts[1], x, strict) != REJECT and matches(ts[1], x, strict, r) for x in items)
                            for r in res))
        res = list(result)
        return len(res) == len(items) and all(matches(ts[1], x, strict, r) for x, r in zip(items, res))
    if h == "Tuple":
        if type(result) is not tuple:
            return False
        items = _iter_items(d)
        return (items is not None and len(items) == len(result) == len(ts) - 1
                and all(matches(t, x, strict, r) for t, x, r in zip(ts[1:], items, result)))
    if h in DICTS:
        want = collections.defaultdict if h == "DefaultDict" else dict
        if type(result) is not want:
            return False
        if want is collections.defaultdict and result.default_factory is not None:
            return False
        items = list(d.items())
        if len(result) > len(items):
            return False
        ritems = list(result.items())
        # every datum item must be represented; distinct datum keys that load to equal keys may collapse
        for k, v in items:
            if not any(matches(ts[1], k, strict, rk) and matches(ts[2], v, strict, rv) for rk, rv in ritems):
                if len(result) == len(items):
                    return False
                if not any(matches(ts[1], k, strict, rk) for rk, _ in ritems):
                    return False
        return True
    if h == "Optional":
        if d is None:
            return result is None
        return matches(ts[1], d, strict, result)
    if h == "Union":
        return any(accepts(t, d, strict) != REJECT and matches(t, d, strict, result) for t in ts[1:])
    verdict, val = _leaf_load(h, ts, d, strict)
    if verdict == REJECT:
        return False
    if verdict == UNSPEC:
        return True
    if h in ("Any", "object"):
        return (result is d or (hasattr(d, "__next__") and hasattr(result, "__next__"))
                or (type(d) in _IMMUTABLE and same(result, d)))
    if h == "Literal":
        return any(same(result, a) for a in val)
    if h == "timedelta":
        if type(result) is not dt.timedelta:
            return False
        got = Fraction(result.days * 86400 + result.seconds) + Fraction(result.microseconds, 10**6)
        return abs(got - val) < Fraction(1, 10**6)
    if h in ("str", "LiteralString") and not strict and type(val) is str and " object at 0x" in val:
        return type(result) is str and " object at 0x" in result
    if h in _STRICT_ORIGINS and strict and h in ("Decimal",) and type(d) is Decimal:
        return result is d or same(result, d)
    return same(result, val)


def passes_any(ts):
    """does a loader of this type hand some data through unchanged (Any / object, also as a case of Optional / Union)?"""
    ts = unwrap(ts)
    h = ts[0]
    if h in ("Any", "object"):
        return True
    if h == "Optional":
        return passes_any(ts[1])
    if h == "Union":
        return any(passes_any(c) for c in ts[1:])
    return False


def accepts_elsewhere(ts, x, strict):
    """an unhashable element of a set is fine when a case OTHER than the pass-through one converts it (none does in this grammar)"""
    return False


def has_overlap(ts, d, strict):  # noqa: C901, PLR0911
    d = _view(d)
    ts = unwrap(ts)
    h = ts[0]
    if h == "Union":
        n = sum(1 for t in ts[1:] if accepts(t, d, strict) != REJECT)
        if n >= 2:
            return True
        return any(has_overlap(t, d, strict) for t in ts[1:] if accepts(t, d, strict) != REJECT)
    if h == "Optional":
        return d is not None and has_overlap(ts[1], d, strict)
    if h in ITER_IMPL:
        # whatever the loader would iterate: bytes always, str in lax mode (accepts() has already ruled on admission)
        items = _iter_items(d) if not (strict and isinstance(d, str)) else None
        return bool(items) and any(has_overlap(ts[1], x, strict) for x in items)
    if h == "Tuple":
        items = _iter_items(d) if not (strict and isinstance(d, str)) else None
        return bool(items) and len(items) == len(ts) - 1 and any(has_overlap(t, x, strict) for t, x in zip(ts[1:], items))
    if h in DICTS:
        if not isinstance(d, collections.abc.Mapping):
            return False
        return any(has_overlap(ts[1], k, strict) or has_overlap(ts[2], v, strict) for k, v in d.items())
    if h == "Literal":
        verdict, allowed = _literal_load(LITERALS[ts[1]], d, strict)
        return len({(type(a), codec_srepr(a)) for a in allowed}) >= 2
    return False


# ------------------------------------------------------------------------------------------------------------
# dumping

def ref_dump(ts, x):  # noqa: C901, PLR0911, PLR0912
    ts = unwrap(ts)
    h = ts[0]
    if h in ("int", "float", "str", "bool", "None", "Any", "object", "LiteralString"):
        return x
    if h in ("Decimal", "Fraction", "complex"):
        return str(x)
    if h in ("bytes", "bytearray", "ByteString"):
        return base64.b64encode(bytes(x)).decode("ascii")
    if h in ("BytesIO", "IOBytes"):
        # the whole content, wherever the stream position is
        return base64.b64encode(x.getvalue()).decode("ascii")
    if h == "Pattern":
        return x.pattern
    if h in ("PurePosixPath", "Path", "PathLike"):
        return x.__fspath__()
    if h in ("UUID", "IPv4Address", "IPv6Network", "IPv4Interface"):
        return str(x)
    if h in ("date", "time", "datetime"):
        return x.isoformat()
    if h == "timedelta":
        return x.total_seconds()
    if h in ("Flag", "Enum"):
        return x.value
    if h == "Literal":
        if isinstance(x, Enum):
            return x.value
        if isinstance(x, bytes):
            return base64.b64encode(x).decode("ascii")
        return x
    if h in ITER_IMPL:
        out = [ref_dump(ts[1], e) for e in x]
        return out if h in ("List", "list") else tuple(out)
    if h == "Tuple":
        return tuple(ref_dump(t, e) for t, e in zip(ts[1:], x))
    if h in DICTS:
        return {ref_dump(ts[1], k): ref_dump(ts[2], v) for k, v in x.items()}
    if h == "Optional":
        return None if x is None else ref_dump(ts[1], x)
    if h == "Union":
        return ref_dump(_union_case(ts, x), x)
    raise ValueError(ts)


_RUNTIME_CLASS = {
    "int": int, "float": float, "str": str, "bool": bool, "None": type(None), "Decimal": Decimal,
    "Fraction": Fraction, "complex": complex, "bytes": bytes, "bytearray": bytearray, "date": dt.date,
    "time": dt.time, "datetime": dt.datetime, "timedelta": dt.timedelta, "UUID": uuid.UUID,
    "List": list, "list": list, "Set": set, "FrozenSet": frozenset, "TupleVar": tuple, "Tuple": tuple,
    "Deque": collections.deque, "Dict": dict, "DefaultDict": collections.defaultdict,
    "object": object,
}


def _union_case(ts, x):
    """Union dumped by runtime class with nearest-ancestor fallback; Literal cases by value listing."""
    classes = []
    for t in ts[1:]:
        u = unwrap(t)
        if u[0] == "Literal":
            members = LITERALS[u[1]]
            # a value listed in the literal is dumped by the literal dumper; a look-alike of another type
            # (Decimal(1) vs Literal[1]) is not "listed"
            if any(type(m) is type(x) and m == x for m in members):
                return t
            continue
        if u[0] == "Enum":
            classes.append((ENUMS[u[1]], t))
        elif u[0] == "Flag":
            classes.append((FLAGS[u[1]], t))
        elif u[0] in _RUNTIME_CLASS:
            classes.append((_RUNTIME_CLASS[u[0]], t))
        else:
            raise Unspec(f"union case {u[0]}")
    for cls in type(x).__mro__:
        for c, t in classes:
            if c is cls:
                return t
    raise Unspec("no union case for the runtime class")


def expected_loaded_type_ok(ts, x):
    """Is x already exactly what loading its dump should produce (used to build round-trip expectations)?"""
    return True
