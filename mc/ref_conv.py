"""Reference model of adaptix.conversion (C13, C14): linking model, coercible(), conforms().

Written from docs/conversion/tutorial.rst and docs/conversion/extended-usage.rst; never imports adaptix.

TypeSpec (hashable nested tuples, JSON-able as nested lists)
    ("int",) ("bool",) ("str",) ("float",) ("None",) ("Any",) ("object",)
    ("List", e) ("Set", e) ("FrozenSet", e) ("TupleVar", e) ("Deque", e) ("Tuple", t1, ..., tn)
    ("Dict", k, v) ("DefaultDict", k, v) ("OrderedDict", k, v) ("Counter", k)
    ("Union", c1, ..., cn)           Optional[X] is ("Union", X, ("None",))  -- see opt()
    ("Model", name)                  a non-generic model of the universe
    ("GModel", name, arg)            a generic model G[arg]; its field types mention ("T",)
    ("NewType", name, base) ("Literal", value) ("Annotated", t, meta)

The tutorial's rules (section "Type coercion"):
    as is:    R1 same type - R2 destination Any - R3 source a subclass of destination (excluding generics) -
              R4 source union a subset of the destination union (== on the cases)
    compound: C1 both models (like top-level models) - C2 both Optional - C3 both builtin iterables - C4 both dict,
              each only if the corresponding inner types are coercible
    user:     coercer(src_pred, dst_pred, func); link(..., coercer=func) has higher priority
Everything else: "there are no implicit coercions", creation of the converter fails.

Three-valued verdicts: the tutorial is silent about
    * whether wrappers (Annotated, NewType) are transparent         -> relation evaluated twice (opaque / transparent),
                                                                      a disagreement of the two readings is UNSPEC
    * Literal[v] -> class of v, Any as a *source* of object          -> UNSPEC
    * whether collections.deque / constant-length tuples count as "builtin iterable" and dict subclasses
      (defaultdict, OrderedDict, Counter) as "dict"                  -> UNSPEC when the inner types are coercible,
                                                                      NO when they are not (no reading accepts those)
"""
import collections
import typing
from dataclasses import dataclass
from typing import Any, Optional

YES, NO, UNSPEC = "yes", "no", "unspec"


def and3(vals):
    out = YES
    for v in vals:
        if v == NO:
            return NO
        if v == UNSPEC:
            out = UNSPEC
    return out


def or3(vals):
    out = NO
    for v in vals:
        if v == YES:
            return YES
        if v == UNSPEC:
            out = UNSPEC
    return out


# ------------------------------------------------------------------------------------------------------------
# type specs

NONE = ("None",)
ANY = ("Any",)
OBJECT = ("object",)
INT, BOOL, STR, FLOAT = ("int",), ("bool",), ("str",), ("float",)

SCALAR_CLASSES = {"int": int, "bool": bool, "str": str, "float": float, "None": type(None), "object": object}
ITER_CERTAIN = {"List": list, "Set": set, "FrozenSet": frozenset, "TupleVar": tuple}
# not builtins; the tutorial says "builtin iterable": creation is unspecified, what a produced converter places is not
ITER_UNCERTAIN = {"Deque": collections.deque, "Sequence": collections.abc.Sequence, "Iterable": collections.abc.Iterable}
ITER_IMPL = {**ITER_CERTAIN, **ITER_UNCERTAIN}
DICT_CERTAIN = {"Dict": dict}
DICT_UNCERTAIN = {"DefaultDict": collections.defaultdict, "OrderedDict": collections.OrderedDict,
                  "Counter": collections.Counter, "Mapping": collections.abc.Mapping,
                  "MutableMapping": collections.abc.MutableMapping}
DICT_IMPL = {**DICT_CERTAIN, **DICT_UNCERTAIN}
WRAPPERS = ("Annotated", "NewType")


def opt(ts):
    return union(ts, NONE)


def union(*cases):
    """flattened, de-duplicated union (the way typing builds it); a single case collapses"""
    flat = []
    for c in cases:
        for x in (c[1:] if c[0] == "Union" else (c,)):
            if x not in flat:
                flat.append(x)
    return flat[0] if len(flat) == 1 else ("Union", *flat)


def cases_of(ts):
    return ts[1:] if ts[0] == "Union" else (ts,)


def is_optional(ts):
    return ts[0] == "Union" and NONE in ts[1:]


def not_none(ts):
    return union(*[c for c in ts[1:] if c != NONE])


def canon(ts):
    """order-insensitive identity of a type (union cases as a set)"""
    head = ts[0]
    if head == "Union":
        return ("Union", frozenset(canon(c) for c in union(*ts[1:])[1:]))
    if head == "Literal":
        return ("Literal", type(ts[1]).__name__, ts[1])
    if head == "Annotated":
        return ("Annotated", canon(ts[1]), ts[2])
    if head == "NewType":
        return ("NewType", ts[1])
    if head in ("Model",):
        return ts
    return (head, *[canon(a) if isinstance(a, tuple) else a for a in ts[1:]])


def same(a, b):
    return canon(a) == canon(b)


def strip(ts):
    """remove wrappers at the top of a spec"""
    while ts[0] in WRAPPERS:
        ts = ts[1] if ts[0] == "Annotated" else ts[2]
    return ts


def deep_strip(ts):
    ts = strip(ts)
    if ts[0] == "Literal":
        return ts
    out = tuple(deep_strip(x) if isinstance(x, tuple) else x for x in ts)
    return union(*out[1:]) if out[0] == "Union" else out


def show(ts):  # noqa: C901, PLR0911
    head = ts[0]
    if head in SCALAR_CLASSES or head == "Any":
        return head
    if head == "Union":
        if is_optional(ts) and len(ts) == 3:  # noqa: PLR2004
            return f"Optional[{show(not_none(ts))}]"
        return "Union[" + ", ".join(show(c) for c in ts[1:]) + "]"
    if head == "TupleVar":
        return f"Tuple[{show(ts[1])}, ...]"
    if head == "Model":
        return ts[1]
    if head == "GModel":
        return f"{ts[1]}[{show(ts[2])}]"
    if head == "NewType":
        return ts[1]
    if head == "Literal":
        return f"Literal[{ts[1]!r}]"
    if head == "Annotated":
        return f"Annotated[{show(ts[1])}, {ts[2]!r}]"
    if head == "T":
        return "T"
    return head + "[" + ", ".join(show(a) for a in ts[1:]) + "]"


def to_json(ts):
    return [to_json(x) if isinstance(x, tuple) else x for x in ts]


def from_json(j):
    return tuple(from_json(x) if isinstance(x, list) else x for x in j)


def kind_of(ts):  # noqa: C901, PLR0911
    """coarse kind used in violation signatures"""
    head = ts[0]
    if head in ("int", "bool", "str", "float", "None"):
        return "scalar"
    if head in ("Any", "object"):
        return head
    if head == "FrozenSet":
        return "frozenset"
    if head in ITER_CERTAIN:
        return "iterable"
    if head == "Deque":
        return "deque"
    if head == "Tuple":
        return "const_tuple"
    if head == "Dict":
        return "dict"
    if head in DICT_UNCERTAIN:
        return "dict_subclass"
    if head == "Union":
        return "optional" if is_optional(ts) and len(ts) == 3 else ("optional_union" if is_optional(ts) else "union")  # noqa: PLR2004
    if head == "Model":
        return "model"
    if head == "GModel":
        return "generic_model"
    return head.lower()


# ------------------------------------------------------------------------------------------------------------
# models, recipes, environment

NO_DEFAULT = ("<no default>",)


@dataclass(frozen=True)
class FieldSpec:
    name: str
    type: tuple
    default: Any = NO_DEFAULT          # NO_DEFAULT, a plain value, or ("factory", zero-arg callable)

    @property
    def has_default(self):
        return self.default is not NO_DEFAULT

    def default_value(self):
        d = self.default
        if isinstance(d, tuple) and len(d) == 2 and d[0] == "factory":  # noqa: PLR2004
            return d[1]()
        return d


@dataclass(frozen=True)
class ModelSpec:
    name: str
    fields: tuple                      # FieldSpec, ... (inherited fields included, in constructor order)
    bases: tuple = ()                  # names of the model specs it subclasses (transitively)
    generic: bool = False              # field types may mention ("T",)
    kind: str = "dataclass"            # dataclass | namedtuple | typeddict | attrs

    def field(self, name) -> Optional[FieldSpec]:
        for f in self.fields:
            if f.name == name:
                return f
        return None


def subst(ts, arg):
    if ts == ("T",):
        return arg
    return tuple(subst(x, arg) if isinstance(x, tuple) else x for x in ts)


@dataclass(frozen=True)
class FuncSpec:
    """a function handed to link_function: `pos` are its positional-or-keyword parameters (the first one receives the
    model unless the function starts with a keyword-only parameter), `kw` its keyword-only ones; entries (name, TypeSpec)"""
    fn: Any
    pos: tuple
    kw: tuple = ()


class Env:
    """everything the reference needs to know about one converter program"""

    def __init__(self, universe, recipe=(), params=(), objects=None, classes=None):
        self.universe = universe          # name -> ModelSpec
        self.recipe = tuple(recipe)       # recipe elements, see find_link / user_coercer / policy_allows
        self.params = tuple(params)       # extra converter parameters, left to right: (name, TypeSpec)
        self.objects = objects or {}      # id -> python object used by the recipe (constants, factories, functions, FuncSpec)
        self.classes = classes or {}      # model name -> real class (used by conforms/describe/read_field only)
        self.transparent = False          # reading of Annotated/NewType currently evaluated (see coercible())
        self._wrappers = None

    def mentions_wrappers(self, *specs):
        if self._wrappers is None:
            self._wrappers = any(_mentions_wrapper(f.type) for m in self.universe.values() for f in m.fields)
        return self._wrappers or any(_mentions_wrapper(ts) for ts in specs)

    def model_fields(self, ts):
        spec = self.universe[ts[1]]
        if ts[0] == "GModel":
            return spec, tuple(FieldSpec(f.name, subst(f.type, ts[2]), f.default) for f in spec.fields)
        return spec, spec.fields

    def param_type(self, name):
        for n, ts in self.params:
            if n == name:
                return ts
        return None


def is_model(ts):
    return ts[0] in ("Model", "GModel")


# recipe elements ---------------------------------------------------------------------------------------------
#   ("link", src_ref, dst_ref, coercer_id | None)      src_ref = ("field", model, name) | ("param", name)
#   ("const", dst_ref, object_id)                       dst_ref = ("field", model, name)
#   ("factory", dst_ref, object_id)
#   ("func", dst_ref, funcspec_id)
#   ("coercer", src_pred, dst_pred, coercer_id)         pred = ("type", TypeSpec) | ("field", model, name)
#   ("allow", scope) / ("forbid", scope)                scope = None (all fields) | ("field", model, name)


def policy_allows(env, dst_model, fname):
    """extended-usage.rst, 'Using default value for fields': by default every destination field must be linked even if
    it has a default; allow_unlinked_optional / forbid_unlinked_optional change that for the fields their predicates
    select; as everywhere in a recipe the first matching provider wins."""
    for el in env.recipe:
        if el[0] in ("allow", "forbid"):
            scope = el[1]
            if scope is None or (scope[1] == dst_model and scope[2] == fname):
                return el[0] == "allow"
    return False


@dataclass(frozen=True)
class Link:
    kind: str              # field | param | const | factory | func | ambiguous
    name: Any = None       # source field name / parameter name / object id
    coercer: Any = None    # object id of link(..., coercer=)


def find_link(env, src_ts, dst_model, fld, top):
    """Linking algorithm of the tutorial: the first link / link_constant / link_function of the recipe whose destination
    predicate selects the field; otherwise the same-named extra parameter (right to left, top-level model only),
    otherwise the same-named source field."""
    src_spec, src_fields = env.model_fields(src_ts)
    for el in env.recipe:
        if el[0] not in ("link", "const", "factory", "func"):
            continue
        dst_ref = el[2] if el[0] == "link" else el[1]
        if not (dst_ref[1] == dst_model and dst_ref[2] == fld.name):
            continue
        if el[0] == "link":
            src_ref = el[1]
            if src_ref[0] == "param":
                if env.param_type(src_ref[1]) is not None:
                    return Link("param", src_ref[1], el[3])
                return Link("ambiguous")      # the destination matches but the source predicate selects nothing
            if src_ref[1] == src_spec.name and any(f.name == src_ref[2] for f in src_fields):
                return Link("field", src_ref[2], el[3])
            return Link("ambiguous")
        return Link(el[0], el[2])
    if top:
        for name, _ in reversed(env.params):
            if name == fld.name:
                return Link("param", name)
    if any(f.name == fld.name for f in src_fields):
        return Link("field", fld.name)
    return None


def user_coercer(env, s, d, sloc, dloc):
    """first coercer(...) of the recipe whose two predicates select the pair; a class predicate selects 'all same types',
    P[Model].field selects exactly that field"""
    for el in env.recipe:
        if el[0] != "coercer":
            continue
        if _pred(el[1], s, sloc) and _pred(el[2], d, dloc):
            return el[3]
    return None


def _pred(pred, ts, loc):
    if pred[0] == "type":
        return same(pred[1], ts)
    return loc is not None and loc == (pred[1], pred[2])


# ------------------------------------------------------------------------------------------------------------
# the relation (and, with it, the function computing the expected value)

@dataclass
class Co:
    verdict: str
    fn: Any = None           # value -> expected value (None unless verdict is YES)
    rule: str = ""           # which rule decided
    ambiguous: bool = False  # several rules apply and may produce different (all conforming) results


def _as_is(x, ctx):
    return x


class RefObj:
    """a destination object the reference constructed field-wise"""
    __slots__ = ("model", "fields")

    def __init__(self, model, fields):
        self.model, self.fields = model, fields

    def __repr__(self):
        return f"{self.model}({', '.join(f'{k}={v!r}' for k, v in self.fields.items())})"


def read_field(env, spec, value, name):
    if isinstance(value, RefObj):
        return value.fields[name]
    if spec.kind == "typeddict":
        return value[name]
    return getattr(value, name)


_CLASS_ORDER = {"bool": ("bool", "int", "object"), "int": ("int", "object"), "str": ("str", "object"),
                "float": ("float", "object"), "None": ("None", "object"), "object": ("object",)}


def _is_class(env, ts):
    return ts[0] in _CLASS_ORDER or (ts[0] == "Model" and not env.universe[ts[1]].generic)


def _subclass(env, s, d):
    if d[0] == "object":
        return True
    if s[0] == "Model":
        return d[0] == "Model" and (d[1] == s[1] or d[1] in env.universe[s[1]].bases)
    return d[0] in _CLASS_ORDER.get(s[0], ())


def coercible(env, s, d, sloc=None, dloc=None, top=False) -> Co:
    """the tutorial's relation; wrappers evaluated under both readings (see module docstring)"""
    opaque = _co(env, s, d, sloc, dloc, top)
    if not env.mentions_wrappers(s, d):
        return opaque
    env.transparent = True
    try:
        transparent = _co(env, s, d, sloc, dloc, top)
    finally:
        env.transparent = False
    if opaque.verdict == transparent.verdict:
        return transparent if transparent.verdict == YES else opaque
    return Co(UNSPEC, rule="wrapper transparency")


def _mentions_wrapper(ts):
    return ts[0] in WRAPPERS or any(isinstance(x, tuple) and x and isinstance(x[0], str) and _mentions_wrapper(x)
                                    for x in ts[1:])


def _co(env, s, d, sloc=None, dloc=None, top=False) -> Co:  # noqa: C901, PLR0911, PLR0912, PLR0915
    cid = user_coercer(env, s, d, sloc, dloc)
    if cid is not None:
        func = env.objects[cid]
        return Co(YES, lambda x, ctx: func(x), rule="user coercer")
    if env.transparent:
        s, d = deep_strip(s), deep_strip(d)
    same_type = same(s, d)
    if d == ANY:
        return Co(YES, _as_is, rule="same type" if same_type else "destination Any")

    found = []   # Co of every applicable rule
    if same_type:
        # equal types pass as is - but the structural rules stand before that rule (tutorial: "models, Optional, iterables and
        # dicts are converted item by item"; the builtin recipe has them first), so whatever the recipe says about the items (a
        # user coercer for the element type, a link inside a model kept in a dict) still applies below an unchanged container
        # (and a failure below is a failure of the whole: the item-by-item providers demand their items, they do not decline)
        deep = _co_structural(env, s, d, top)
        if deep is None:
            return Co(YES, _as_is, rule="same type")
        return Co(deep.verdict, deep.fn, rule="same type, item by item: " + deep.rule, ambiguous=deep.ambiguous)

    # R3 subclass (excluding generics)
    if _is_class(env, s) and _is_class(env, d):
        if _subclass(env, s, d):
            found.append(Co(YES, _as_is, rule="subclass"))
    elif s == ANY and d == OBJECT:
        found.append(Co(UNSPEC, rule="Any as a source"))
    elif s == ("Tuple",) and d == OBJECT:
        # Tuple[()] has no arguments left: whether "excluding generics" still applies to it is not said
        found.append(Co(UNSPEC, rule="Tuple[()] as a subclass of object"))
    elif s[0] == "Literal" and d[0] in _CLASS_ORDER.get(type(s[1]).__name__, ()):
        found.append(Co(UNSPEC, rule="Literal member as instance of its class"))

    # R4 union subset, simple == on the cases (a non-union source counts as its single case)
    if d[0] == "Union" and all(any(same(c, e) for e in cases_of(d)) for c in cases_of(s)):
        found.append(Co(YES, _as_is, rule="union subset"))

    # C2 both Optional
    if is_optional(s) and is_optional(d):
        inner = _co(env, not_none(s), not_none(d))
        if inner.verdict == YES:
            fn = inner.fn
            found.append(Co(YES, lambda x, ctx: None if x is None else fn(x, ctx), rule="optional",
                            ambiguous=inner.ambiguous))
        else:
            found.append(Co(inner.verdict, rule="optional"))

    # C3 builtin iterables
    if (s[0] in ITER_IMPL or s[0] == "Tuple") and (d[0] in ITER_IMPL or d[0] == "Tuple"):
        found.append(_co_iterable(env, s, d))

    # C4 dicts
    if s[0] in DICT_IMPL and d[0] in DICT_IMPL:
        sk, sv = (s[1], INT) if s[0] == "Counter" else (s[1], s[2])
        dk, dv = (d[1], INT) if d[0] == "Counter" else (d[1], d[2])
        kco = _co(env, sk, dk)
        vco = _co(env, sv, dv)
        verdict = and3([kco.verdict, vco.verdict])
        if verdict != NO and (s[0] in DICT_UNCERTAIN or d[0] in DICT_UNCERTAIN):
            found.append(Co(UNSPEC, rule="dict subclass as dict"))
        elif verdict == YES:
            kfn, vfn = kco.fn, vco.fn
            found.append(Co(YES, lambda x, ctx: {kfn(k, ctx): vfn(v, ctx) for k, v in x.items()}, rule="dict",
                            ambiguous=kco.ambiguous or vco.ambiguous))
        else:
            found.append(Co(verdict, rule="dict"))

    # C1 models
    if is_model(s) and is_model(d):
        found.append(_co_model(env, s, d, top))

    verdict = or3([c.verdict for c in found])
    if verdict == YES:
        winners = [c for c in found if c.verdict == YES]
        first = winners[0]
        return Co(YES, first.fn, rule=first.rule, ambiguous=first.ambiguous or len({c.rule for c in winners}) > 1)
    if verdict == UNSPEC:
        return Co(UNSPEC, rule=next(c.rule for c in found if c.verdict == UNSPEC))
    return Co(NO, rule=found[0].rule if found else "no rule applies")


def _co_structural(env, s, d, top) -> Optional[Co]:
    """the item-by-item rules alone (Optional, builtin iterables, dicts, models) for a pair of equal types"""
    if is_optional(s) and is_optional(d):
        inner = _co(env, not_none(s), not_none(d))
        if inner.verdict != YES:
            return Co(inner.verdict, rule="optional: " + inner.rule)
        fn = inner.fn
        return Co(YES, lambda x, ctx: None if x is None else fn(x, ctx), rule="optional", ambiguous=inner.ambiguous)
    if s[0] in ITER_IMPL and d[0] in ITER_IMPL and s[0] not in ITER_UNCERTAIN:
        return _co_iterable(env, s, d)
    if s[0] in DICT_IMPL and d[0] in DICT_IMPL and s[0] not in DICT_UNCERTAIN and s[0] != "Counter":
        kco, vco = _co(env, s[1], d[1]), _co(env, s[2], d[2])
        verdict = and3([kco.verdict, vco.verdict])
        if verdict != YES:
            return Co(verdict, rule="dict: " + (kco.rule if kco.verdict == verdict else vco.rule))
        kfn, vfn = kco.fn, vco.fn
        return Co(YES, lambda x, ctx: {kfn(k, ctx): vfn(v, ctx) for k, v in x.items()}, rule="dict",
                  ambiguous=kco.ambiguous or vco.ambiguous)
    if is_model(s) and is_model(d):
        return _co_model(env, s, d, top)
    return None


def _co_iterable(env, s, d) -> Co:
    if d[0] == "Tuple":
        # the destination needs exactly len(d)-1 elements of given types
        if s[0] != "Tuple" or len(s) != len(d):
            return Co(NO, rule="constant-length tuple")
        inner = and3([_co(env, a, b).verdict for a, b in zip(s[1:], d[1:])])
        return Co(NO if inner == NO else UNSPEC, rule="constant-length tuple")
    if s[0] == "Tuple":
        inner = and3([_co(env, a, d[1]).verdict for a in s[1:]])
        return Co(NO if inner == NO else UNSPEC, rule="constant-length tuple")
    eco = _co(env, s[1], d[1])
    if eco.verdict != NO and (s[0] in ITER_UNCERTAIN or d[0] in ITER_UNCERTAIN):
        return Co(UNSPEC, rule="deque as builtin iterable")
    if eco.verdict == YES:
        impl, efn = ITER_IMPL[d[0]], eco.fn
        return Co(YES, lambda x, ctx: impl(efn(e, ctx) for e in x), rule="iterable", ambiguous=eco.ambiguous)
    return Co(eco.verdict, rule="iterable")


def _co_model(env, s, d, top) -> Co:  # noqa: C901, PLR0912
    """'conversion like top-level models': every destination field needs a link and a coercer; an unlinked field is
    tolerated only if it has a default and the policy allows it"""
    src_spec, src_fields = env.model_fields(s)
    dst_spec, dst_fields = env.model_fields(d)
    plan = []
    verdicts = []
    rules = []
    ambiguous = False
    for fld in dst_fields:
        link = find_link(env, s, dst_spec.name, fld, top)
        dloc = (dst_spec.name, fld.name)
        if link is None:
            if fld.has_default and policy_allows(env, dst_spec.name, fld.name):
                plan.append((fld, None, None))
                verdicts.append(YES)
                rules.append("unlinked optional field allowed by policy")
            else:
                verdicts.append(NO)
                rules.append("unlinked optional field forbidden by policy" if fld.has_default
                             else "unlinked required field")
            continue
        if link.kind == "ambiguous":
            verdicts.append(UNSPEC)
            rules.append("explicit link whose source predicate selects nothing")
            continue
        if link.kind in ("const", "factory"):
            plan.append((fld, link, None))
            verdicts.append(YES)
            rules.append("link_constant")
            continue
        if link.kind == "func":
            fco = _co_function(env, s, env.objects[link.name], dst_spec.name)
            if (fco.verdict == NO and fco.rule.startswith("link_function: unmatched") and fld.has_default
                    and policy_allows(env, dst_spec.name, fld.name)):
                # the documentation does not say whether a link_function whose parameters cannot be matched leaves the
                # field "unlinked" (then the policy lets it fall back to its default) or is an error
                fco = Co(UNSPEC, rule="unmatchable link_function on an optional field that may stay unlinked")
            verdicts.append(fco.verdict)
            rules.append(fco.rule)
            plan.append((fld, link, fco.fn))
            continue
        if link.kind == "param":
            src_type, sloc = env.param_type(link.name), None
        else:
            src_type = next(f.type for f in src_fields if f.name == link.name)
            sloc = (src_spec.name, link.name)
        if link.coercer is not None:
            func = env.objects[link.coercer]
            co = Co(YES, lambda x, ctx, func=func: func(x), rule="link coercer")
        else:
            co = _co(env, src_type, fld.type, sloc, dloc)
        verdicts.append(co.verdict)
        rules.append(co.rule)
        ambiguous = ambiguous or co.ambiguous
        plan.append((fld, link, co.fn))
    verdict = and3(verdicts)
    if verdict != YES:
        return Co(verdict, rule="model: " + next((r for v, r in zip(verdicts, rules) if v == verdict), "?"))

    def build(x, ctx):
        out = {}
        for fld, link, fn in plan:
            if link is None:
                out[fld.name] = fld.default_value()
            elif link.kind == "const":
                out[fld.name] = env.objects[link.name]
            elif link.kind == "factory":
                out[fld.name] = env.objects[link.name]()
            elif link.kind == "func":
                out[fld.name] = fn(x, ctx)
            elif link.kind == "param":
                out[fld.name] = fn(ctx[link.name], ctx)
            else:
                out[fld.name] = fn(read_field(env, src_spec, x, link.name), ctx)
        return RefObj(dst_spec.name, out)

    return Co(YES, build, rule="model", ambiguous=ambiguous)


def _co_function(env, s, fspec: FuncSpec, dst_model=None) -> Co:
    """extended-usage.rst 'Link function': the first parameter receives the model; further (non keyword-only) parameters
    are matched by name with the converter's extra parameters; keyword-only parameters are matched by name with the
    model's fields; the default coercing mechanism is applied to every matched argument; result taken as is."""
    src_spec, src_fields = env.model_fields(s)
    getters = []
    verdicts = []
    # the documentation gives the parameters of a linked function no location: whether coercer(..., P[Dst].name, ...)
    # selects a function parameter called `name` is left open
    named = {n for n, _ in fspec.pos[1:]} | {n for n, _ in fspec.kw}
    if any(el[0] == "coercer" and el[2][0] == "field" and el[2][1] == dst_model and el[2][2] in named for el in env.recipe):
        return Co(UNSPEC, rule="field-predicate coercer naming a parameter of a linked function")
    for i, (name, ts) in enumerate(fspec.pos):
        if i == 0:
            getters.append(("pos", lambda x, ctx: x))
            continue
        ptype = env.param_type(name)
        if ptype is None:
            return Co(NO, rule="link_function: unmatched parameter (no converter parameter of that name)")
        co = _co(env, ptype, ts)
        verdicts.append(co.verdict)
        getters.append(("pos", lambda x, ctx, name=name, fn=co.fn: fn(ctx[name], ctx)))
    for name, ts in fspec.kw:
        fld = next((f for f in src_fields if f.name == name), None)
        if fld is None:
            return Co(NO, rule="link_function: unmatched keyword-only parameter (no model field of that name)")
        co = _co(env, fld.type, ts, (src_spec.name, name), None)
        verdicts.append(co.verdict)
        getters.append((name, lambda x, ctx, name=name, fn=co.fn: fn(read_field(env, src_spec, x, name), ctx)))
    verdict = and3(verdicts)
    if verdict != YES:
        return Co(verdict, rule="link_function argument")
    func = fspec.fn

    def call(x, ctx):
        args = [g(x, ctx) for k, g in getters if k == "pos"]
        kwargs = {k: g(x, ctx) for k, g in getters if k != "pos"}
        return func(*args, **kwargs)

    return Co(YES, call, rule="link_function")


def converter(env, src, dst) -> Co:
    """the whole converter `(src_value, **extra) -> dst`; Co.fn takes (value, ctx) with ctx = {param name: value}"""
    return coercible(env, src, dst, top=True)


# ------------------------------------------------------------------------------------------------------------
# runtime type checker for the pool

def conforms(env, value, ts) -> bool:  # noqa: C901, PLR0911, PLR0912
    head = ts[0]
    if head in ("Any", "object"):
        return True
    if head == "None":
        return value is None
    if head == "bool":
        return type(value) is bool
    if head == "int":
        return isinstance(value, int)
    if head in ("str", "float"):
        return isinstance(value, SCALAR_CLASSES[head])
    if head in ITER_IMPL:
        return isinstance(value, ITER_IMPL[head]) and all(conforms(env, e, ts[1]) for e in value)
    if head == "Tuple":
        return (isinstance(value, tuple) and len(value) == len(ts) - 1
                and all(conforms(env, e, t) for e, t in zip(value, ts[1:])))
    if head in DICT_IMPL:
        kt, vt = (ts[1], INT) if head == "Counter" else (ts[1], ts[2])
        return (isinstance(value, DICT_IMPL[head])
                and all(conforms(env, k, kt) and conforms(env, v, vt) for k, v in value.items()))
    if head == "Union":
        return any(conforms(env, value, c) for c in ts[1:])
    if head in ("Model", "GModel"):
        spec, fields = env.model_fields(ts)
        if isinstance(value, RefObj):
            ok = value.model == spec.name
        elif spec.kind == "typeddict":
            ok = type(value) is dict and all(f.name in value or f.has_default for f in fields)
        else:
            ok = isinstance(value, env.classes[spec.name])
        if not ok:
            return False
        for f in fields:
            if spec.kind == "typeddict" and not isinstance(value, RefObj) and f.name not in value:
                continue
            if not conforms(env, read_field(env, spec, value, f.name), f.type):
                return False
        return True
    if head == "NewType":
        return conforms(env, value, ts[2])
    if head == "Annotated":
        return conforms(env, value, ts[1])
    if head == "Literal":
        return type(value) is type(ts[1]) and value == ts[1]
    raise ValueError(f"conforms: unknown spec {ts!r}")


# ------------------------------------------------------------------------------------------------------------
# type-exact description of values (Decimal(1) != True here)

def describe(env, value):  # noqa: C901, PLR0911
    if isinstance(value, RefObj):
        return ("obj", value.model, tuple((k, describe(env, v)) for k, v in value.fields.items()))
    t = type(value)
    for name, spec in env.universe.items():
        if spec.kind != "typeddict" and t is env.classes.get(name):
            return ("obj", name, tuple((f.name, describe(env, read_field(env, spec, value, f.name))) for f in spec.fields))
    if t in (list, tuple, collections.deque):
        return (t.__name__, tuple(describe(env, x) for x in value))
    if t in (set, frozenset):
        return (t.__name__, tuple(sorted((describe(env, x) for x in value), key=repr)))
    if t in (dict, collections.defaultdict, collections.OrderedDict, collections.Counter):
        return (t.__name__, tuple((describe(env, k), describe(env, v)) for k, v in value.items()))
    return (f"{t.__module__}.{t.__qualname__}", repr(value))


def describe_as(env, value, model_name):
    """description of a destination object of a known model (needed for TypedDict results, which are plain dicts)"""
    spec = env.universe[model_name]
    if spec.kind == "typeddict" and type(value) is dict:
        return ("obj", model_name, tuple((f.name, describe(env, value[f.name])) for f in spec.fields if f.name in value))
    return describe(env, value)


# ------------------------------------------------------------------------------------------------------------
# TypeSpec -> real hint (pure typing; model names resolved through the classes of the check)

def to_hint(ts, classes, extra=None):  # noqa: C901, PLR0911, PLR0912
    head = ts[0]
    if head == "Any":
        return typing.Any
    if head == "None":
        return None
    if head in SCALAR_CLASSES:
        return SCALAR_CLASSES[head]
    if head == "T":
        return extra["T"]
    sub = lambda x: to_hint(x, classes, extra)  # noqa: E731
    if head == "List":
        return typing.List[sub(ts[1])]
    if head == "Set":
        return typing.Set[sub(ts[1])]
    if head == "FrozenSet":
        return typing.FrozenSet[sub(ts[1])]
    if head == "TupleVar":
        return typing.Tuple[sub(ts[1]), ...]
    if head == "Deque":
        return typing.Deque[sub(ts[1])]
    if head == "Sequence":
        return typing.Sequence[sub(ts[1])]
    if head == "Iterable":
        return typing.Iterable[sub(ts[1])]
    if head == "Mapping":
        return typing.Mapping[sub(ts[1]), sub(ts[2])]
    if head == "MutableMapping":
        return typing.MutableMapping[sub(ts[1]), sub(ts[2])]
    if head == "Tuple":
        return typing.Tuple[tuple(sub(x) for x in ts[1:])]
    if head == "Dict":
        return typing.Dict[sub(ts[1]), sub(ts[2])]
    if head == "DefaultDict":
        return typing.DefaultDict[sub(ts[1]), sub(ts[2])]
    if head == "OrderedDict":
        return typing.OrderedDict[sub(ts[1]), sub(ts[2])]
    if head == "Counter":
        return typing.Counter[sub(ts[1])]
    if head == "Union":
        return typing.Union[tuple(sub(x) for x in ts[1:])]
    if head == "Model":
        return classes[ts[1]]
    if head == "GModel":
        return classes[ts[1]][sub(ts[2])]
    if head == "NewType":
        return classes[ts[1]]
    if head == "Literal":
        return typing.Literal[ts[1]]
    if head == "Annotated":
        return typing.Annotated[sub(ts[1]), ts[2]]
    raise ValueError(f"to_hint: unknown spec {ts!r}")
