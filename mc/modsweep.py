"""MODELS engine: enumeration of (model spec, name_mapping configs) programs, their inputs, and execution in 6 modes."""
import itertools
import linecache

from adaptix import (
    Chain,
    DebugTrail,
    ExtraForbid,
    ExtraKwargs,
    ExtraSkip,
    NameStyle,
    P,
    Retort,
    name_mapping,
)
from adaptix.load_error import (
    ExtraFieldsLoadError,
    ExtraItemsLoadError,
    NoRequiredFieldsLoadError,
    NoRequiredItemsLoadError,
    TypeLoadError,
)
from adaptix.struct_trail import get_trail

from . import models
from .matrix import DEBUGS, MODES, Err, Ok
from .models import TYPES
from .ref_layout import MAP_NEEDS_TWO, MAP_VARIANTS, STYLES, build_tree, field_paths

# ------------------------------------------------------------------------------------------------------------
# shapes

SHAPES = {
    "S1": [["a", "int", "req"]],
    "S2": [["a", "int", "req"], ["b_", "str", "dv"]],
    "S3": [["some_field", "int", "req"], ["x", "optint5", "dv"]],
    "S4": [["a", "int", "req"], ["b", "listint", "df"]],
    "S5": [["a", "nested", "req"], ["b", "any", "dv"]],
    "S6": [["a", "int", "req"], ["rest", "dictany", "df"]],
    "S7": [["a", "int", "req"], ["rest", "dictany", "req"]],
    "S8": [["a", "int", "req"], ["_p", "int", "dv"]],
    "S9": [["a", "int", "req"], ["b", "int", "req"], ["c", "str", "dv"]],
    "S10": [["a", "optint", "dv"], ["b", "int", "dv"]],
    "S11": [["from_", "str", "req"], ["a", "bool", "dv"]],
    "S12": [["a", "int", "req"], ["b", "str", "req"], ["rest", "dictany", "df"]],
    "S13": [["a", "int", "req"], ["r2", "dictany", "req"], ["r1", "dictany", "df"]],
    "S14": [["a", "int", "req"], ["b", "listdv", "dv"]],
    "S15": [["a", "int", "req"], ["e", "enum", "dv"]],
    "S16": [["n", "nested", "req"], ["e", "enum", "req"]],
    # factories that can not be rendered as a literal: a model instance, a non-empty list (called anew on every load)
    "S17": [["a", "int", "req"], ["b", "nested", "df"]],
    "S18": [["a", "int", "req"], ["b", "any", "df"]],
    # words with digits followed by letters: where str.title and str.capitalize differ (b2b -> B2B / B2b)
    "S19": [["partner_b2b_id", "int", "req"], ["utf8mb4_flag", "str", "dv"]],
}
QUICK_SHAPES = ["S1", "S2", "S3", "S4", "S6", "S8", "S10", "S14", "S15", "S17", "S19"]


# ------------------------------------------------------------------------------------------------------------
# option cube: dimension -> list of values (None = omitted)

def dimensions(nfields):
    maps = [m for m in MAP_VARIANTS if not (m in MAP_NEEDS_TWO and nfields < 2)]
    return {
        "map": maps,
        "name_style": list(STYLES),
        "trim": [False],
        "as_list": [True],
        "skip": [["field", 0], ["field", nfields - 1], ["type", "int"]],
        "only": [["field", 0], ["field", nfields - 1], ["type", "int"]],
        "omit_default": [True, ["field", nfields - 1]],
        "extra_in": ["forbid", "kwargs", ["target", [nfields - 1]], "saturator"],
        "extra_out": [["target", [nfields - 1]], "extractor"],
    }


def configs_upto(nfields, deviations):
    """all configs with at most `deviations` options set (deviation-bounded enumeration of the cube)"""
    dims = dimensions(nfields)
    names = list(dims)
    out = [{}]
    for k in range(1, deviations + 1):
        for combo in itertools.combinations(names, k):
            for vals in itertools.product(*(dims[d] for d in combo)):
                out.append(dict(zip(combo, vals)))
    return out


def stacked_configs(nfields):
    """pairs of providers: first overrides second (and Chain.LAST), maps concatenate"""
    singles = [c for c in configs_upto(nfields, 1) if c]
    out = []
    for a in singles:
        for b in singles:
            ka, kb = next(iter(a)), next(iter(b))
            if ka == kb and a != b:       # same parameter set twice: precedence is observable
                out.append([a, b])
                out.append([{**a, "chain": "LAST"}, b])
            elif ka == "map" or kb == "map":
                if ka != kb:
                    continue
    return out


# ------------------------------------------------------------------------------------------------------------
# config -> provider

SAT_LOG = []
EXTRACTED = {"ex_k": 1}


def _saturator(obj, extra):
    SAT_LOG.append((obj, dict(extra)))


def _extractor(obj):
    return dict(EXTRACTED)


def _field_name(spec, i):
    return spec["fields"][i][0]


def _sel(spec, sel):
    if sel is True:
        return True
    kind, arg = sel
    if kind == "field":
        return _field_name(spec, arg)
    return TYPES[arg]["hint"]


def adaptix_map(spec, variant):
    if variant == "pairs_int":
        return [(int, ("t", ...))]
    if variant == "callable_upper":
        return [(P.ANY, lambda shape, fld: fld.id.upper() + "!")]
    out = {}
    for idx, field in enumerate(spec["fields"]):
        for matcher, result in MAP_VARIANTS[variant](spec):
            if matcher(idx, field):
                out[field[0]] = result(idx, field)
                break
    return out


def to_provider(spec, cls, cfg):
    kw = {}
    if "map" in cfg:
        kw["map"] = adaptix_map(spec, cfg["map"])
    if "name_style" in cfg:
        kw["name_style"] = NameStyle[cfg["name_style"]]
    if "trim" in cfg:
        kw["trim_trailing_underscore"] = cfg["trim"]
    if "as_list" in cfg:
        kw["as_list"] = cfg["as_list"]
    if "skip" in cfg:
        kw["skip"] = _sel(spec, cfg["skip"])
    if "only" in cfg:
        kw["only"] = _sel(spec, cfg["only"])
    if "omit_default" in cfg:
        kw["omit_default"] = _sel(spec, cfg["omit_default"])
    if "extra_in" in cfg:
        e = cfg["extra_in"]
        kw["extra_in"] = (ExtraSkip() if e == "skip" else ExtraForbid() if e == "forbid" else ExtraKwargs() if e == "kwargs"
                          else _saturator if e == "saturator" else
                          (_field_name(spec, e[1][0]) if len(e[1]) == 1 else tuple(_field_name(spec, i) for i in e[1])))
    if "extra_out" in cfg:
        e = cfg["extra_out"]
        kw["extra_out"] = (ExtraSkip() if e == "skip" else _extractor if e == "extractor" else
                           (_field_name(spec, e[1][0]) if len(e[1]) == 1 else tuple(_field_name(spec, i) for i in e[1])))
    if cfg.get("chain") == "LAST":
        kw["chain"] = Chain.LAST
    return name_mapping(cls, **kw)


class Program:
    """one (spec, configs) program compiled in all modes"""

    def __init__(self, spec, configs, first_providers=None):
        self.spec, self.configs = spec, configs
        self.cls = models.build(spec)
        self.loaders, self.dumpers = {}, {}
        self.load_creation_error, self.dump_creation_error = None, None
        try:
            recipe = [to_provider(spec, self.cls, c) for c in configs]
            if first_providers is not None:
                recipe = [*first_providers(self.cls), *recipe]
        except Exception as e:  # noqa: BLE001
            self.load_creation_error = self.dump_creation_error = e
            self.recipe_error = e
            return
        self.recipe_error = None
        for mode in MODES:
            r = Retort(recipe=recipe, debug_trail=DebugTrail[mode[0]], strict_coercion=mode[1])
            try:
                self.loaders[mode] = r.get_loader(self.cls)
            except Exception as e:  # noqa: BLE001
                self.load_creation_error = e
            if mode[1]:
                try:
                    self.dumpers[mode[0]] = r.get_dumper(self.cls)
                except Exception as e:  # noqa: BLE001
                    self.dump_creation_error = e

    def load(self, mode, datum):
        try:
            return Ok(self.loaders[mode](datum))
        except Exception as e:  # noqa: BLE001
            return Err(e)

    def dump(self, dbg, obj):
        try:
            return Ok(self.dumpers[dbg](obj))
        except Exception as e:  # noqa: BLE001
            return Err(e)


# ------------------------------------------------------------------------------------------------------------
# inputs of a loader program

def _put(root, path, value, node_kinds):
    node = root
    for i, k in enumerate(path):
        last = i == len(path) - 1
        kind = node_kinds.get(path[:i + 1])
        if isinstance(node, list):
            while len(node) <= k:
                node.append(None)
            if last:
                node[k] = value
                return
            if node[k] is None:
                node[k] = [] if kind == "list" else {}
            node = node[k]
        else:
            if last:
                node[k] = value
                return
            if k not in node:
                node[k] = [] if kind == "list" else {}
            node = node[k]


def _deep_replace(root, path, value):
    if not path:
        return value
    import copy
    root = copy.deepcopy(root)
    node = root
    for k in path[:-1]:
        node = node[k]
    node[path[-1]] = value
    return root


def inputs_for(spec, in_paths, node_kinds, renamed_ids):
    """Generator of (name, datum-factory).  The full product of per-field variants x extra-key variants, plus every
    branch node replaced by every wrong kind."""
    real = {i: p for i, p in in_paths.items() if p not in (None, "target")}
    per_field = []
    for idx, path in real.items():
        fname, tkey, req = spec["fields"][idx]
        t = TYPES[tkey]
        variants = [("g0", t["good"][0][0]), ("g1", t["good"][1][0])]
        if t["bad"] is not None:
            variants.append(("bad", t["bad"]))
        if not isinstance(path[-1], int):
            variants.append(("absent", None))
        per_field.append([(idx, path, v) for v in variants])
    root_kind = node_kinds.get((), "dict")
    extra_variants = [("noextra", {})]
    if root_kind == "dict":
        extra_variants += [("x1", {"zz": 1}), ("x2", {"zz": 1, "yy": [2]})]
        if renamed_ids:
            extra_variants.append(("xid", {renamed_ids[0]: "collide"}))
    import copy
    for combo in itertools.product(*per_field) if per_field else [()]:
        for ename, extra in extra_variants:
            def make(combo=combo, extra=extra):
                root = [] if root_kind == "list" else {}
                for idx, path, (vname, value) in combo:
                    if vname != "absent":
                        _put(root, path, copy.deepcopy(value), node_kinds)
                if isinstance(root, dict):
                    for k, v in extra.items():
                        root.setdefault(k, copy.deepcopy(v))
                return root
            name = ",".join(f"{spec['fields'][idx][0]}={vname}" for idx, path, (vname, _) in combo) + ";" + ename
            yield name, make
    # extras inside nested dict nodes
    base_combo = tuple(v[0] for v in per_field)
    for npath, kind in node_kinds.items():
        if npath and kind == "dict":
            def make(npath=npath):
                root = [] if root_kind == "list" else {}
                for idx, path, (vname, value) in base_combo:
                    _put(root, path, copy.deepcopy(value), node_kinds)
                node = root
                for k in npath:
                    node = node[k]
                node["nn"] = "nested-extra"
                return root
            yield f"nested_extra@{list(npath)}", make
    # unknown keys that are not strings and not comparable with each other (no full product: base values only)
    if root_kind == "dict":
        for hname, hextra in (("int+str", {1: "i", "zz": 1}), ("None+str", {None: 0, "zz": 1}), ("tuple+int", {(1, 2): 0, 0: 1})):
            def make(hextra=hextra):
                root = {}
                for idx, path, (vname, value) in base_combo:
                    _put(root, path, copy.deepcopy(value), node_kinds)
                for k, v in hextra.items():
                    root.setdefault(k, v)
                return root
            yield f"hostile_extra={hname}", make
    # wrong kinds of branch nodes
    wrong = [("list", lambda: [1, 2, 3]), ("emptylist", list), ("dict", lambda: {"q": 1}), ("intdict", lambda: {0: 1, 1: 2, 2: 3}),
             ("str", lambda: "abc"), ("none", lambda: None), ("int", lambda: 5), ("emptydict", dict)]
    for npath, kind in node_kinds.items():
        for wname, wmake in wrong:
            def make(npath=npath, wmake=wmake):
                root = [] if root_kind == "list" else {}
                for idx, path, (vname, value) in base_combo:
                    _put(root, path, copy.deepcopy(value), node_kinds)
                return _deep_replace(root, npath, wmake())
            yield f"node{list(npath)}={wname}", make
    # list nodes: one item too many
    for npath, kind in node_kinds.items():
        if kind == "list":
            def make(npath=npath):
                root = [] if root_kind == "list" else {}
                for idx, path, (vname, value) in base_combo:
                    _put(root, path, copy.deepcopy(value), node_kinds)
                node = root
                for k in npath:
                    node = node[k]
                node.append("one-too-many")
                return root
            yield f"node{list(npath)}+1", make


# ------------------------------------------------------------------------------------------------------------
# error trees -> descriptors

def flatten_errors(exc, prefix=()):
    """[(leaf exception, full trail)] — trails concatenated through nested groups"""
    trail = (*prefix, *get_trail(exc))
    if isinstance(exc, BaseExceptionGroup):
        out = []
        for sub in exc.exceptions:
            out.extend(flatten_errors(sub, trail))
        return out
    return [(exc, trail)]


def describe_errors(exc, in_paths, node_kinds):
    import collections.abc
    field_paths_set = [p for p in in_paths.values() if p not in (None, "target")]
    out = set()
    for leaf, trail in flatten_errors(exc):
        trail = tuple(trail)
        if isinstance(leaf, NoRequiredFieldsLoadError) and trail in node_kinds:
            out.add(("missing", trail, frozenset(leaf.fields)))
        elif isinstance(leaf, ExtraFieldsLoadError) and trail in node_kinds:
            out.add(("extra", trail, frozenset(leaf.fields)))
        elif isinstance(leaf, NoRequiredItemsLoadError) and trail in node_kinds:
            out.add(("short", trail))
        elif isinstance(leaf, ExtraItemsLoadError) and trail in node_kinds:
            out.add(("long", trail))
        elif isinstance(leaf, TypeLoadError) and trail in node_kinds and leaf.expected_type in (
                collections.abc.Mapping, collections.abc.Sequence):
            out.add(("node_type", trail))
        else:
            hit = [p for p in field_paths_set if trail[:len(p)] == p]
            if hit:
                out.add(("field", hit[0]))
            else:
                out.add(("other", trail, type(leaf).__name__))
    return out


def clear_caches(n):
    if n % 100 == 99:
        linecache.clearcache()
        del SAT_LOG[:]
