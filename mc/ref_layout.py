"""Reference interpreter of name_mapping (written from docs/loading-and-dumping/extended-usage.rst; never calls adaptix).

Config (JSON-able dict, all keys optional = omitted):
  map:        name of a map variant (see MAP_VARIANTS)         name_style: "CAMEL" | "UPPER_SNAKE" | "LOWER_KEBAB" | "PASCAL"
  trim:       False                                           as_list: True
  skip/only:  ["field", i] | ["type", type_key]               omit_default: True | ["field", i]
  extra_in:   "skip" | "forbid" | "kwargs" | ["target", [i...]] | "saturator"
  extra_out:  "skip" | ["target", [i...]] | "extractor"
  chain:      "FIRST" (default) | "LAST"
Field references are indices into the model's field list so that configs are independent of field names.
"""
from .models import TYPES, field_default

STYLES = ("CAMEL", "UPPER_SNAKE", "LOWER_KEBAB", "PASCAL")


class Invalid(Exception):
    """the configuration must be refused at creation"""


class Unspec(Exception):
    """the documentation does not define the outcome"""


# ------------------------------------------------------------------------------------------------------------
# documented conversions

def convert_style(name, style):
    """snake_case -> style; defined for lower-case words separated by single underscores"""
    words = name.split("_")
    if style == "CAMEL":
        return words[0].lower() + "".join(w.title() for w in words[1:])
    if style == "PASCAL":
        return "".join(w.title() for w in words)
    if style == "UPPER_SNAKE":
        return "_".join(w.upper() for w in words)
    if style == "LOWER_KEBAB":
        return "-".join(w.lower() for w in words)
    raise ValueError(style)


def style_defined(name):
    return name == name.lower() and not name.startswith("_") and not name.endswith("_") and "__" not in name


def generated_key(spec, schema, idx):
    name = spec["fields"][idx][0]
    if schema["as_list"]:
        return idx
    if schema["trim"] and name.endswith("_") and not name.endswith("__"):
        name = name[:-1]
    if schema["name_style"] is not None:
        if not style_defined(name):
            raise Unspec(f"name style of {name!r}")
        name = convert_style(name, schema["name_style"])
    return name


# ------------------------------------------------------------------------------------------------------------
# map variants: name -> function(spec) -> list of (matcher(idx, field) -> bool, result(idx, field) -> raw map result)
# raw map result: str | int | Ellipsis | tuple of those | None

def _by_index(mapping):
    return [((lambda i, f, k=k: i == k), (lambda i, f, v=v: v)) for k, v in mapping.items()]


def _int_typed(spec):
    return [i for i, (_, t, _) in enumerate(spec["fields"]) if t == "int"]


MAP_VARIANTS = {
    "rename0": lambda spec: _by_index({0: "K"}),
    "hostile0": lambda spec: _by_index({0: "we ird-key"}),
    "rename_last": lambda spec: _by_index({len(spec["fields"]) - 1: "Z"}),
    "idx_all": lambda spec: _by_index({i: i for i in range(len(spec["fields"]))}),
    "idx_rev": lambda spec: _by_index({i: len(spec["fields"]) - 1 - i for i in range(len(spec["fields"]))}),
    "idx_gap": lambda spec: _by_index({i: 2 * i + 1 for i in range(len(spec["fields"]))}),
    "idx_partial": lambda spec: _by_index({0: 0}),
    "path_ss": lambda spec: _by_index({0: ("x", "y")}),
    "path_last_ss": lambda spec: _by_index({len(spec["fields"]) - 1: ("x", "y")}),   # a branch holding only the (often optional) last field
    "path_si": lambda spec: _by_index({0: ("x", 0)}),
    "path_si_gap": lambda spec: _by_index({0: ("x", 1)}),
    "path_ell": lambda spec: _by_index({0: ("x", ...)}),
    "path_shared": lambda spec: _by_index({i: ("x", "pq"[i] if i < 2 else f"r{i}") for i in range(len(spec["fields"]))}),
    "path_deep": lambda spec: _by_index({0: ("x", "y", "z"), len(spec["fields"]) - 1: ("x", "w")}
                                        if len(spec["fields"]) > 1 else {0: ("x", "y", "z")}),
    "none0": lambda spec: _by_index({0: None}),
    "none_last": lambda spec: _by_index({len(spec["fields"]) - 1: None}),
    "pairs_int": lambda spec: [((lambda i, f: f[1] == "int"), (lambda i, f: ("t", ...)))],
    "callable_upper": lambda spec: [((lambda i, f: True), (lambda i, f: f[0].upper() + "!"))],
    "prefix": lambda spec: _by_index({0: ("x",), 1: ("x", "y")}),
    "dup": lambda spec: _by_index({0: "K", 1: "K"}),
    "ellipsis0": lambda spec: _by_index({0: ...}),
}
MAP_NEEDS_TWO = {"prefix", "dup"}


def resolve(raw, gen_key):
    if raw is None:
        return None
    if raw is Ellipsis:
        return (gen_key,)
    if isinstance(raw, (str, int)):
        return (raw,)
    return tuple(gen_key if k is Ellipsis else k for k in raw)


# ------------------------------------------------------------------------------------------------------------
# effective schema of a stack of configs (recipe order; the builtin default is behind all of them)

DEFAULT = {"skip": None, "only": None, "map": [], "trim": True, "name_style": None, "as_list": False,
           "omit_default": None, "extra_in": "skip", "extra_out": "skip"}
PARAMS = ("skip", "only", "trim", "name_style", "as_list", "omit_default", "extra_in", "extra_out")


def effective(configs):
    """Earlier providers override later ones (Chain.FIRST, the default); Chain.LAST lets the later ones win; `map`s are
    concatenated: the overriding side first."""
    schema = dict(DEFAULT)
    schema["map"] = []
    schema["map_tail"] = []
    for cfg in reversed(configs):
        first = cfg.get("chain", "FIRST") == "FIRST"
        for p in PARAMS:
            if p in cfg:
                if first or schema.get("_set_" + p) is None:
                    schema[p] = cfg[p]
                schema["_set_" + p] = True
        if "map" in cfg:
            if first:
                schema["map"] = [cfg["map"]] + schema["map"]
            else:
                # Chain.LAST puts this provider behind everything that follows it, the builtin defaults included
                # (whose map skips private fields at dumping)
                schema["map_tail"] = schema["map_tail"] + [cfg["map"]]
    return schema


# ------------------------------------------------------------------------------------------------------------
# paths

def _matches(sel, idx, field):
    if sel is None:
        return False
    if sel is True:
        return True
    kind, arg = sel
    if kind == "field":
        return idx == arg
    if kind == "type":
        return field[1] == arg
    raise ValueError(sel)


def extra_targets(schema, side):
    e = schema["extra_in" if side == "in" else "extra_out"]
    if isinstance(e, (list, tuple)) and e[0] == "target":
        return list(e[1])
    return []


def field_paths(spec, schema, side):
    """field index -> path tuple, None (skipped) or 'target' (extra target, not part of the layout)"""
    out = {}
    targets = extra_targets(schema, side)
    for idx, field in enumerate(spec["fields"]):
        if idx in targets:
            out[idx] = "target"
            continue
        gen = generated_key(spec, schema, idx)
        path = (gen,)

        def lookup(variants):
            for variant in variants:
                for matcher, result in MAP_VARIANTS[variant](spec):
                    if matcher(idx, field):
                        return True, resolve(result(idx, field), gen)
            return False, None

        hit, found = lookup(schema["map"])
        if hit:
            path = found
        elif side == "out" and field[0].startswith("_"):
            path = None     # private fields are skipped at dumping unless mapped
        else:
            hit, found = lookup(schema.get("map_tail", []))
            if hit:
                path = found
        if path is not None:
            only = schema["only"]
            if _matches(schema["skip"], idx, field) or (only is not None and not _matches(only, idx, field)):
                path = None
        out[idx] = path
    return out


def is_optional_input(spec, idx):
    return spec["fields"][idx][2] != "req"


def validate(spec, schema, side, paths):
    """raises Invalid when creation must fail"""
    real = {i: p for i, p in paths.items() if p not in (None, "target")}
    if side == "in":
        skipped_required = [i for i, p in paths.items() if p is None and not is_optional_input(spec, i)]
        if skipped_required:
            raise Invalid("required field skipped")
    plist = list(real.values())
    if len(set(plist)) != len(plist):
        raise Invalid("duplicate paths")
    for a in plist:
        for b in plist:
            if a != b and len(a) < len(b) and b[:len(a)] == a:
                raise Invalid("path is a prefix of another")
    node_kinds = {}
    for p in plist:
        for i in range(len(p)):
            kind = "list" if isinstance(p[i], int) else "dict"
            if node_kinds.setdefault(p[:i], kind) != kind:
                raise Invalid("mixed int/str keys at one node")
    for i, p in real.items():
        if isinstance(p[-1], int):
            optional = is_optional_input(spec, i) if side == "in" else _optional_output(spec, i)
            if optional:
                raise Invalid("optional field at a list position")
    if side == "in" and schema["extra_in"] not in ("skip", "forbid"):
        if any(k == "list" for k in node_kinds.values()) or (not plist and schema["as_list"]):
            raise Invalid("collecting extra_in with list mapping")
    for t in extra_targets(schema, side):
        if t >= len(spec["fields"]):
            raise Invalid("no such target")
    if not plist:
        node_kinds[()] = "list" if schema["as_list"] else "dict"
    return node_kinds


def _optional_output(spec, idx):
    # a TypedDict NotRequired key is the only optional output field of the kinds used here
    return spec["kind"] == "typeddict" and spec["fields"][idx][2] != "req"


# ------------------------------------------------------------------------------------------------------------
# crown tree

def build_tree(paths):
    """nested structure: {'kind': 'dict'|'list', 'children': {key: subtree | ('field', idx)}}"""
    real = {i: p for i, p in paths.items() if p not in (None, "target")}
    root = {"kind": None, "children": {}}
    for idx, p in real.items():
        node = root
        for i, k in enumerate(p):
            kind = "list" if isinstance(k, int) else "dict"
            node["kind"] = kind
            if i == len(p) - 1:
                node["children"][k] = ("field", idx)
            else:
                node = node["children"].setdefault(k, {"kind": None, "children": {}})
    return root


# ------------------------------------------------------------------------------------------------------------
# loading

class _MISSING:
    pass


def _is_mapping(d):
    import collections.abc
    return isinstance(d, collections.abc.Mapping)


def _is_sequence(d):
    import collections.abc
    return isinstance(d, collections.abc.Sequence)


def load_field(tkey, datum, strict):
    """(ok, value) for the field types of mc.models.TYPES — the documented rules of the element types"""
    from .models import N
    if tkey == "any":
        return True, datum
    if tkey == "int":
        if strict:
            return (True, datum) if type(datum) is int else (False, None)
        try:
            return True, int(datum)
        except Exception:  # noqa: BLE001
            return False, None
    if tkey == "bool":
        if strict:
            return (True, datum) if type(datum) is bool else (False, None)
        return True, bool(datum)
    if tkey == "str":
        if strict:
            return (True, datum) if type(datum) is str else (False, None)
        return True, str(datum)
    if tkey in ("optint", "optint5"):
        if datum is None:
            return True, None
        return load_field("int", datum, strict)
    if tkey in ("listint", "listdv"):
        if strict and (type(datum) is str or _is_mapping(datum)):
            return False, None
        try:
            items = list(datum)
        except TypeError:
            return False, None
        out = []
        for x in items:
            ok, v = load_field("int", x, strict)
            if not ok:
                return False, None
            out.append(v)
        return True, out
    if tkey == "dictany":
        if not _is_mapping(datum):
            return False, None
        out = {}
        for k, v in datum.items():
            ok, kk = load_field("str", k, strict)
            if not ok:
                return False, None
            out[kk] = v
        return True, out
    if tkey == "enum":
        from .models import Tone
        for m in Tone:
            if type(datum) is str and datum == m.value:
                return True, m
        return False, None
    if tkey == "nested":
        if not _is_mapping(datum):
            return False, None
        if "n" not in datum:
            return False, None
        ok, v = load_field("int", datum["n"], strict)
        return (True, N(v)) if ok else (False, None)
    raise ValueError(tkey)


def ref_load(spec, schema, data, strict):
    """Returns ("ok", {idx: value}, extras or None) or ("err", set of error descriptors) ; may raise Unspec.

    error descriptors: ("node_type", path) ("missing", path, frozenset(keys)) ("extra", path, frozenset(keys))
                       ("short", path) ("long", path) ("field", path)
    """
    paths = field_paths(spec, schema, "in")
    node_kinds = validate(spec, schema, "in", paths)
    tree = build_tree(paths)
    if tree["kind"] is None:
        tree["kind"] = node_kinds.get((), "dict")
    policy = schema["extra_in"] if schema["extra_in"] in ("skip", "forbid") else "collect"
    errors = set()
    values = {}
    extras = {}

    def walk(node, datum, path, extra_sink):
        kind = node["kind"]
        if kind == "dict":
            if not _is_mapping(datum):
                if hasattr(datum, "get") or hasattr(datum, "__getitem__") and not isinstance(datum, (list, tuple, str, bytes)):
                    raise Unspec("non-Mapping object with item access at a dict node")
                errors.add(("node_type", path))
                return
            missing = set()
            for key, child in node["children"].items():
                if key in datum:
                    sub = datum[key]
                    if isinstance(child, tuple):
                        _field(child[1], sub, (*path, key))
                    else:
                        sub_sink = {}
                        walk(child, sub, (*path, key), sub_sink)
                        if extra_sink is not None:
                            extra_sink[key] = sub_sink
                elif isinstance(child, tuple) and is_optional_input(spec, child[1]):
                    values[child[1]] = _MISSING
                else:
                    missing.add(key)
            if missing:
                errors.add(("missing", path, frozenset(missing)))
            unknown = [k for k in datum if k not in node["children"]]
            if unknown:
                if policy == "forbid":
                    errors.add(("extra", path, frozenset(unknown)))
                elif policy == "collect" and extra_sink is not None:
                    for k in unknown:
                        extra_sink[k] = datum[k]
        else:
            if strict and type(datum) is str:
                errors.add(("node_type", path))
                return
            if _is_mapping(datum):
                errors.add(("node_type", path))
                return
            if not _is_sequence(datum):
                if hasattr(datum, "__getitem__"):
                    raise Unspec("non-Sequence object with item access at a list node")
                errors.add(("node_type", path))
                return
            size = (max(node["children"]) + 1) if node["children"] else 0
            for key, child in node["children"].items():
                if key < len(datum):
                    if isinstance(child, tuple):
                        _field(child[1], datum[key], (*path, key))
                    else:
                        walk(child, datum[key], (*path, key), None)
            if len(datum) < size:
                errors.add(("short", path))
            elif len(datum) > size and policy == "forbid":
                errors.add(("long", path))

    def _field(idx, datum, path):
        ok, v = load_field(spec["fields"][idx][1], datum, strict)
        if ok:
            values[idx] = v
        else:
            errors.add(("field", path))

    walk(tree, data, (), extras if policy == "collect" else None)
    # fields skipped on input take their default
    for idx, p in paths.items():
        if p is None:
            values[idx] = _MISSING
    if errors:
        return ("err", errors)
    return ("ok", values, extras if policy == "collect" else None)


def default_of(spec, idx):
    d = field_default(spec["fields"][idx][1], spec["fields"][idx][2])
    if d[0] == "value":
        return d[1]
    if d[0] == "factory":
        return d[1]()
    raise ValueError("no default")


# ------------------------------------------------------------------------------------------------------------
# dumping

def dump_field(tkey, value):
    if tkey == "enum":
        return value.value
    if tkey == "nested":
        return {"n": value.n}
    if tkey in ("listint", "listdv"):
        return list(value)
    if tkey == "dictany":
        return dict(value)
    return value


def ref_dump(spec, schema, values, extra_from=None):
    """values: {idx: value} of the fields the object has.  Returns (leaf map {path: dumped value}, root kind, list sizes)."""
    paths = field_paths(spec, schema, "out")
    node_kinds = validate(spec, schema, "out", paths)
    leaves = {}
    for idx, p in paths.items():
        if p in (None, "target"):
            continue
        if idx not in values:
            continue    # absent NotRequired key of a TypedDict
        fname, tkey, req = spec["fields"][idx]
        v = values[idx]
        if req != "req" and spec["kind"] != "typeddict" and _matches(schema["omit_default"], idx, spec["fields"][idx]):
            dflt = default_of(spec, idx)
            if type(v) is type(dflt) and v == dflt or v == dflt:
                continue
        leaves[p] = dump_field(tkey, v)
    return leaves, node_kinds


def assemble(leaves, node_kinds, all_paths):
    """nested dict/list from the leaf map; list gaps and omitted positions are None; containers of every path prefix exist"""
    root_kind = node_kinds.get((), "dict")
    root = [] if root_kind == "list" else {}

    def ensure(path):
        node = root
        for i, k in enumerate(path):
            kind = node_kinds.get(path[:i + 1])
            if isinstance(node, list):
                while len(node) <= k:
                    node.append(None)
                if i == len(path) - 1:
                    return node, k
                if node[k] is None:
                    node[k] = [] if kind == "list" else {}
                node = node[k]
            else:
                if i == len(path) - 1:
                    return node, k
                if k not in node:
                    node[k] = [] if kind == "list" else {}
                node = node[k]
        return node, None

    for p in sorted(all_paths, key=lambda p: (len(p), str(p))):
        if isinstance(p[-1], int):
            node, k = ensure(p)   # list positions always exist
    for p, v in leaves.items():
        node, k = ensure(p)
        node[k] = v
    return root


def flatten(obj, prefix=()):
    """leaf map of a dumped structure: non-container values and EMPTY containers are leaves"""
    out = {}
    if isinstance(obj, dict) and obj:
        for k, v in obj.items():
            out.update(flatten(v, (*prefix, k)))
    elif isinstance(obj, (list, tuple)) and obj:
        for i, v in enumerate(obj):
            out.update(flatten(v, (*prefix, i)))
    else:
        out[prefix] = obj
    return out
