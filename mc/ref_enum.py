"""Executable statement of what the documentation says about Enum / Flag representations (property C18).

Sources: docs/loading-and-dumping/specific-types-behavior.rst ("Flag subclasses", "Other Enum subclasses", "Basic types",
"Iterable subclasses", "Union") and the docstrings of enum_by_exact_value, enum_by_name, enum_by_value,
flag_by_exact_value, flag_by_member_names.  Never calls adaptix; works on the stdlib enum class only.

Three-valued verdicts (shared with ref_types): ACCEPT (with the expected result) / REJECT / UNSPEC (documentation silent:
nothing is compared).  What is deliberately UNSPEC:

  * data that are == to a member value without being type-exactly the same (True / 1.0 for 1, an IntEnum member given
    as datum, (1.0, 2) for (1, 2));
  * data a user-written ``_missing_`` resolves (exact-value providers; for enum_by_value the enum constructor is
    documented, so there it is ACCEPT);
  * alias names (``CRIMSON = RED``): the member's name is RED; whether the alias is also accepted is not said;
  * the name of a zero-valued flag member when allow_compound=False (neither a single flag nor a compound);
  * flag by exact value: an int inside the mask that is no OR-combination of members (only possible for multi-bit
    members without their single bits), bool / integral float look-alikes of such ints;
  * flag by member names: iterables other than list (tuple, set, ...) and, in lax mode, mappings as *containers* of
    otherwise valid names (a bad item inside them is still a REJECT: no reading makes it a representation).
"""
import collections.abc
import itertools
from enum import Enum, EnumMeta, Flag, IntEnum, IntFlag
from functools import reduce
from operator import or_
from typing import Optional, Tuple, Union

from . import ref_types
from .ref_types import ACCEPT, REJECT, UNSPEC, same

NAME_SCHEMES = {
    "snake": ("ALPHA_ONE", "BETA", "GAMMA_TWO", "DELTA"),
    # names that coincide with the str values of the alphabet (only matters for str-mixin enums, whose members are == str)
    "valuelike": ("a", "b", "c", "d"),
}

ENUM_BASES = ("Enum", "IntEnum", "StrMixin", "Missing")
FLAG_BASES = ("Flag", "IntFlag")
MISSING_KEY = "one"     # the datum the custom _missing_ resolves to the first member


def _custom_missing(cls, value):
    if type(value) is str and value == MISSING_KEY:
        return next(iter(cls.__members__.values()))
    return None


_BASES = {
    "Enum": (Enum,), "IntEnum": (IntEnum,), "StrMixin": (str, Enum), "Missing": (Enum,),
    "Flag": (Flag,), "IntFlag": (IntFlag,),
}


def build_class(spec):
    """spec = (base, name scheme, tuple of member values).  May raise whatever the stdlib raises for the definition."""
    base, scheme, values = spec
    names = NAME_SCHEMES[scheme][: len(values)]
    bases = _BASES[base]
    ns = EnumMeta.__prepare__("E", bases)
    for n, v in zip(names, values):
        ns[n] = v
    if base == "Missing":
        ns["_missing_"] = classmethod(_custom_missing)
    return EnumMeta("E", bases, ns)


def spec_text(spec):
    base, scheme, values = spec
    names = NAME_SCHEMES[scheme][: len(values)]
    head = {"Enum": "Enum", "IntEnum": "IntEnum", "StrMixin": "str, Enum", "Missing": "Enum /*custom _missing_*/",
            "Flag": "Flag", "IntFlag": "IntFlag"}[base]
    body = "; ".join(f"{n} = {v!r}" for n, v in zip(names, values)) or "pass"
    return f"class E({head}): {body}"


# ------------------------------------------------------------------------------------------------------------
# name styles: the member values of NameStyle are their own documentation ('lower_snake', 'camel_Snake', 'Pascal.Dot' ...)

def _lower(w):
    return w.lower()


def _upper(w):
    return w.upper()


def _title(w):
    return w[:1].upper() + w[1:].lower()


_CASES = {"LOWER": (_lower, _lower), "CAMEL": (_lower, _title), "PASCAL": (_title, _title), "UPPER": (_upper, _upper)}
_SEPS = {"SNAKE": "_", "KEBAB": "-", "DOT": ".", "": ""}
STYLES = {}
for _case in _CASES:
    for _sep_name, _sep in _SEPS.items():
        STYLES[f"{_case}_{_sep_name}" if _sep_name else _case] = (_sep, *_CASES[_case])
ALL_STYLES = tuple(sorted(STYLES))


def convert_name(name, style):
    """only defined for names made of alphabetic words joined by single underscores (all names of NAME_SCHEMES)"""
    words = name.split("_")
    if not all(w.isalpha() for w in words):
        raise ValueError(name)
    sep, first, other = STYLES[style]
    return sep.join([first(words[0]), *[other(w) for w in words[1:]]])


# ------------------------------------------------------------------------------------------------------------

def _safe_eq(a, b):
    try:
        return bool(a == b)
    except Exception:  # noqa: BLE001
        return False


class Verdict:
    __slots__ = ("kind", "value", "why", "exc")

    def __init__(self, kind, value=None, why="", exc=None):
        self.kind = kind
        self.value = value
        self.why = why
        self.exc = exc      # documented LoadError subclass name, where the docstring names one

    def __repr__(self):
        return f"{self.kind}({self.value!r}; {self.why})"


class Model:
    """reference view of one generated class"""

    def __init__(self, spec, cls):
        self.spec = spec
        self.cls = cls
        self.base = spec[0]
        self.is_flag = self.base in FLAG_BASES
        self.members = []        # canonical members, definition order
        self.alias = {}          # alias name -> member
        for name, m in cls.__members__.items():
            if m.name == name:
                self.members.append(m)
            else:
                self.alias[name] = m
        self.custom_missing = self.base == "Missing"
        if self.is_flag and self.members:
            self.mask = 0
            for m in self.members:
                self.mask |= int(m.value)
            self.zero = cls(0)
            self.single = [m for m in self.members if m.value > 0 and m.value & (m.value - 1) == 0]
            self.compound = [m for m in self.members if bin(m.value).count("1") >= 2]
            self.zero_members = [m for m in self.members if m.value == 0]
            self.single_mask = 0
            for m in self.single:
                self.single_mask |= m.value

    # ---- traits used for the root-cause discriminator of a violation
    def traits(self):
        t = []
        if self.is_flag:
            if self.zero_members:
                t.append("zero_member")
            if any(m.value & ~self.single_mask for m in self.compound):
                t.append("multibit_member_without_single_bits")
        if self.base == "StrMixin":
            names = set(self.cls.__members__)
            if any(type(m.value) is str and m.value in names and m.value != m.name for m in self.members):
                t.append("str_mixin_value_equals_other_member_name")
        if self.alias:
            t.append("alias")
        return t

    # ---- the values the property quantifies over
    def values(self):
        if not self.is_flag:
            return list(self.members)
        seen = {}
        for r in range(len(self.members) + 1):
            for subset in itertools.combinations(self.members, r):
                v = reduce(or_, subset, self.zero)
                seen.setdefault(int(v.value), v)
        return list(seen.values())

    def same_value(self, got, want):
        if not self.is_flag:
            return got is want
        return type(got) is type(want) and got == want and int(got.value) == int(want.value)

    # ---- flag by exact value: "flags with skipped bits and negative values are not supported"
    def excluded_by_exact_value(self):
        return self.mask < 0 or (self.mask & (self.mask + 1)) != 0


# ------------------------------------------------------------------------------------------------------------
# name mapping (enum_by_name, flag_by_member_names): map renames members individually (keys: member names as strings or
# member instances), name_style converts the names; an individual rename wins over the general style

MAP_KINDS = ("none", "by_name", "by_member", "mixed")


def build_map(model, kind):
    if kind == "none":
        return None
    if kind == "by_name":
        return {name: f"n{i}" for i, name in enumerate(model.cls.__members__)}
    if kind == "by_member":
        return {m: f"m{i}" for i, m in enumerate(model.members)}
    if kind == "mixed":
        out = {}
        if model.members:
            out[model.members[0].name] = "first"
        if len(model.members) >= 2:
            out[model.members[-1]] = "last"
        return out
    raise ValueError(kind)


class NameMap:
    def __init__(self, model, style, map_kind):
        self.model = model
        self.style = style
        self.map = build_map(model, map_kind)
        self.rep = {}            # id(member) -> representation
        self.by_rep = {}         # representation -> canonical member
        self.injective = True
        for m in model.members:
            r = self._rep_of_name(m.name, m)
            self.rep[id(m)] = r
            if r in self.by_rep:
                self.injective = False
            self.by_rep[r] = m
        # alias names: not specified; the strings an implementation could reasonably also accept
        self.alias_rep = {}
        for name, m in model.alias.items():
            self.alias_rep[self._rep_of_name(name, None)] = m
        for r in list(self.alias_rep):
            if r in self.by_rep:
                del self.alias_rep[r]

    def _rep_of_name(self, name, member):
        if self.map:
            if member is not None:
                for k, v in self.map.items():
                    if k is member:
                        return v
            for k, v in self.map.items():
                if type(k) is str and k == name:
                    return v
        if self.style:
            return convert_name(name, self.style)
        return name

    def rep_of(self, member):
        return self.rep[id(member)]


# ------------------------------------------------------------------------------------------------------------
# enum: exact value ("represented by their value without any conversion / processing")

def exact_load(model, d):
    for m in model.members:
        if same(m.value, d):
            return Verdict(ACCEPT, m, "type-exact value of a member")
    for m in model.members:
        if _safe_eq(m.value, d) or _safe_eq(d, m.value):
            return Verdict(UNSPEC, None, "equal to a member value but not type-exactly the same")
    if model.custom_missing:
        try:
            hit = _custom_missing(model.cls, d)
        except Exception:  # noqa: BLE001
            hit = None
        if hit is not None:
            return Verdict(UNSPEC, None, "resolved by the user's _missing_")
    return Verdict(REJECT, None, "not the value of a member")


def exact_dump_problem(model, v, d):
    return None if same(d, v.value) else f"dumped {d!r}, the member value is {v.value!r}"


# ------------------------------------------------------------------------------------------------------------
# enum: by name

def name_load(model, nm, d):
    if type(d) is str:
        if d in nm.by_rep:
            return Verdict(ACCEPT, nm.by_rep[d], "name of a member")
        if d in nm.alias_rep:
            return Verdict(UNSPEC, None, "alias name")
        return Verdict(REJECT, None, "not the name of a member")
    if isinstance(d, str):
        return Verdict(UNSPEC, None, "str subclass")
    return Verdict(REJECT, None, "not a string")


def name_dump_problem(model, nm, v, d):
    if type(d) is str and (d == nm.rep_of(v) or nm.alias_rep.get(d) is v):
        return None
    return f"dumped {d!r}, the documented representation is {nm.rep_of(v)!r}"


# ------------------------------------------------------------------------------------------------------------
# enum: by value through the loader / dumper of tp ("The loader will call the loader of the tp and pass it to the enum
# constructor"; "This type must cover all enum members")

def tp_for(model):
    """the simplest type that covers all member values, from the unambiguous documented set; None = none of them"""
    kinds = {type(m.value) for m in model.members}
    table = {
        frozenset([int]): ("int",), frozenset([str]): ("str",), frozenset([float]): ("float",),
        frozenset([bool]): ("bool",), frozenset([type(None)]): ("None",),
        frozenset([int, str]): ("Union", ("int",), ("str",)),
        frozenset([int, type(None)]): ("Optional", ("int",)),
        frozenset([str, type(None)]): ("Optional", ("str",)),
    }
    ts = table.get(frozenset(kinds))
    if ts is None and kinds == {tuple}:
        if all(len(m.value) == 2 and all(type(x) is int for x in m.value) for m in model.members):
            ts = ("Tuple", ("int",), ("int",))
    return ts


def tp_hint(ts):
    h = ts[0]
    if h == "Tuple":
        return Tuple[tuple(tp_hint(t) for t in ts[1:])]
    if h == "Optional":
        return Optional[tp_hint(ts[1])]
    if h == "Union":
        return Union[tuple(tp_hint(t) for t in ts[1:])]
    return {"int": int, "str": str, "float": float, "bool": bool, "None": None}[h]


def tp_text(ts):
    h = ts[0]
    if len(ts) == 1:
        return h
    return f"{h}[{', '.join(tp_text(t) for t in ts[1:])}]"


def tp_load(ts, d, strict):
    """(verdict, value) of the documented loader of the small tp language"""
    h = ts[0]
    if h in ("int", "str", "float", "bool", "None"):
        return ref_types._leaf_load(h, ts, d, strict)
    if h == "Optional":
        if d is None:
            return ACCEPT, None
        return tp_load(ts[1], d, strict)
    if h == "Union":
        got = [tp_load(t, d, strict) for t in ts[1:]]
        accepted = [g for g in got if g[0] == ACCEPT]
        if len(accepted) == 1 and all(g[0] != UNSPEC for g in got):
            return accepted[0]
        if not accepted and all(g[0] == REJECT for g in got):
            return REJECT, None
        return UNSPEC, None      # "there must be no value that would be accepted by several union case loaders"
    if h == "Tuple":
        if strict and (type(d) is str or isinstance(d, collections.abc.Mapping)):
            return REJECT, None
        if strict and isinstance(d, str):
            return UNSPEC, None
        try:
            items = list(iter(d))
        except TypeError:
            return REJECT, None
        if len(items) != len(ts) - 1:
            return REJECT, None
        got = [tp_load(t, x, strict) for t, x in zip(ts[1:], items)]
        if any(g[0] == REJECT for g in got):
            return REJECT, None
        if any(g[0] == UNSPEC for g in got):
            return UNSPEC, None
        return ACCEPT, tuple(g[1] for g in got)
    raise ValueError(ts)


def value_load(model, ts, d, strict):
    verdict, x = tp_load(ts, d, strict)
    if verdict == REJECT:
        return Verdict(REJECT, None, "rejected by the loader of tp")
    if verdict == UNSPEC:
        return Verdict(UNSPEC, None, "loader of tp not specified for this datum")
    try:
        return Verdict(ACCEPT, model.cls(x), "enum constructor on the loaded value")     # stdlib call, documented
    except ValueError:
        return Verdict(REJECT, None, "enum constructor refuses the loaded value")
    except Exception:  # noqa: BLE001
        return Verdict(UNSPEC, None, "enum constructor raised something else")


# ------------------------------------------------------------------------------------------------------------
# flag: by exact value

def flag_exact_load(model, d):
    if type(d) is int:
        if d < 0 or d > model.mask:
            return Verdict(REJECT, None, "outside 0..mask")
        for v in model.values():
            if int(v.value) == d:
                return Verdict(ACCEPT, v, "value of a combination of members")
        return Verdict(UNSPEC, None, "inside the mask but no OR-combination of members")
    if isinstance(d, (bool, int, float)):
        try:
            inside = 0 <= d <= model.mask and d == int(d)
        except (ValueError, OverflowError):
            inside = False
        if inside:
            return Verdict(UNSPEC, None, "numeric look-alike of a flag value")
        return Verdict(REJECT, None, "not a flag value")
    return Verdict(REJECT, None, "not an int")


def flag_exact_dump_problem(model, v, d):
    return None if type(d) is int and d == int(v.value) else f"dumped {d!r}, the value is {int(v.value)!r}"


# ------------------------------------------------------------------------------------------------------------
# flag: by list of member names

class FlagNames:
    def __init__(self, model, nm, allow_single_value, allow_duplicates, allow_compound):
        self.model = model
        self.nm = nm
        self.allow_single_value = allow_single_value
        self.allow_duplicates = allow_duplicates
        self.allow_compound = allow_compound
        self.allowed = {}        # name -> member whose name the loader must accept
        self.optional = dict(nm.alias_rep)     # name -> member; acceptance not specified
        self.forbidden_compound = {}
        for m in model.members:
            r = nm.rep_of(m)
            if allow_compound or m in model.single:
                self.allowed[r] = m
            elif m in model.zero_members:
                self.optional[r] = m
            else:
                self.forbidden_compound[r] = m

    def _items(self, items, container_unspec):
        unspec = container_unspec
        result = self.model.zero
        seen = []
        dup = False
        for it in items:
            if type(it) is not str:
                if isinstance(it, str):
                    unspec = True
                    continue
                return Verdict(REJECT, None, "item is not a string")
            if it in self.allowed:
                result = result | self.allowed[it]
            elif it in self.optional:
                unspec = True
            elif it in self.forbidden_compound:
                return Verdict(REJECT, None, "name of a compound member, allow_compound=False")
            else:
                return Verdict(REJECT, None, "item is not the name of a member")
            if it in seen:
                dup = True
            seen.append(it)
        if dup and not self.allow_duplicates:
            return Verdict(REJECT, None, "non-unique elements, allow_duplicates=False",
                           exc=None if unspec else "DuplicatedValuesLoadError")
        if unspec:
            return Verdict(UNSPEC, None, "container or a name whose acceptance is not specified")
        return Verdict(ACCEPT, result, "list of member names")

    def load(self, d, strict):
        if type(d) is str:
            if not self.allow_single_value:
                return Verdict(REJECT, None, "single value, allow_single_value=False")
            return self._items([d], False)
        if isinstance(d, str):
            return Verdict(UNSPEC, None, "str subclass")
        if type(d) is list:
            return self._items(d, False)
        if isinstance(d, collections.abc.Mapping):
            if strict:
                return Verdict(REJECT, None, "mapping under strict coercion")
            return self._items(list(d), True)
        if isinstance(d, collections.abc.Iterable) and not isinstance(d, (bytes, bytearray)):
            try:
                items = list(d)
            except Exception:  # noqa: BLE001
                return Verdict(UNSPEC, None, "datum whose own __iter__ raises")
            return self._items(items, True)
        if isinstance(d, (bytes, bytearray)):
            return Verdict(REJECT, None, "bytes are not a list of names")
        return Verdict(REJECT, None, "not a list")

    def dump_problem(self, v, d):
        if type(d) is not list:
            return f"dumped {d!r}, not a list"
        for it in d:
            if type(it) is not str:
                return f"dumped {d!r}: item {it!r} is not a string"
            m = self.allowed.get(it)
            if m is None:
                m = self.optional.get(it)
            if m is None:
                if it in self.forbidden_compound:
                    return f"dumped {d!r}: {it!r} names a compound member although allow_compound=False"
                return f"dumped {d!r}: {it!r} is not the name of a member"
            if int(m.value) & int(v.value) != int(m.value):
                return f"dumped {d!r}: member {m!r} is not included in {v!r}"
        return None
