"""Reference semantics of adaptix predicates over location stacks (C10).

Written from docs/loading-and-dumping/tutorial.rst, section "Predicate system", and the statement of property C10.
It never imports adaptix.  Everything is plain data:

* a *type* of the universe is a name (key of TYPES) with a hand-written description: the runtime class that is its origin,
  the names of its type arguments, and — for bare classes — whether the documentation treats it as a concrete class
  (rule 1: "applied to all same types"), an abstract class (rule 2: "applied to all subclasses") or a runtime checkable
  protocol (rule 3: "applied to all protocol implementations");
* a *location* is a triple (kind, type name, extra): ("T", t, None) a bare type hint, ("I", t, field_id) an input field,
  ("O", t, field_id) an output field, ("G", t, pos) the pos-th generic argument of the enclosing hint;
* a *stack* is a non-empty tuple of locations, outermost first;
* a *predicate expression* is a tuple tree in the surface syntax the user writes (see `compile_expr`).

Meaning of an expression = a function stack -> bool:

    [[ class C      ]](s) = origin(type of s[-1]) is C                  if C is concrete
                            issubclass(origin(type of s[-1]), C)        if C is abstract or a runtime protocol
    [[ hint  C[x..] ]](s) = normal form of the type of s[-1] == normal form of the hint  (origin and arguments equal)
    [[ "name"       ]](s) = s[-1] is a field and  field_id == name            if name.isidentifier()
                                                  re.fullmatch(name, field_id) otherwise   (rule 4)
    [[ P.ANY        ]](s) = True
    [[ P.x1....xn   ]](s) = len(s) >= n and [[xi]](s[:len(s)-n+i]) for every i = 1..n       ("pattern of path")
    P['n'] = P.n ;  P[A] = A ;  P[A] + P.n = P[A].n ;  P[A, B] = P[A] | P[B]                (facts 1-4)
    | & ^ ~  pointwise or / and / exclusive-or / not                                          (fact 5)
    generic_arg(i, x) as a chain element: s[-1] is the i-th generic argument and [[x]](s)     (undocumented public method;
                                                                                              meaning taken from its name)
"""
import abc
import collections.abc
import re
import typing
from dataclasses import dataclass
from typing import List

NAMES = ["a", "b", "ab", "a_1"]


# ---------------------------------------------------------------------------------------------------------------
# the classes of the universe (also the models of the end-to-end leg: fields named after NAMES)

@dataclass
class A:
    a: int
    b: str


@dataclass
class B(A):
    ab: bool
    a_1: List[int]


@dataclass
class C:
    """unrelated to A and B; implements the runtime protocol SupportsInt without inheriting from it"""
    a: A
    b: B
    ab: List[str]
    a_1: list[int]

    def __int__(self):
        return 0


class Base(abc.ABC):
    @abc.abstractmethod
    def area(self):
        ...


class Impl(Base):
    """a concrete class (no abstract method left) whose metaclass is ABCMeta: rule 1 (same type only) applies to it"""

    def area(self):
        return 0


class Impl2(Impl):
    pass


@typing.runtime_checkable
class Proto(typing.Protocol):
    """a user-written runtime checkable protocol: its member is an ordinary (not abstract) method, as protocols are usually written;
    implemented by int, bool and C"""

    def __int__(self) -> int:
        ...


@dataclass(frozen=True)
class TypeDesc:
    hint: object        # what is written in Python source
    origin: type        # runtime class of the hint after stripping arguments / typing aliases
    args: tuple         # names of type arguments (empty for bare classes)
    kind: str           # "concrete" | "abstract" | "protocol" for bare classes, "parametrized" for hints with arguments


TYPES = {
    "int": TypeDesc(int, int, (), "concrete"),
    "bool": TypeDesc(bool, bool, (), "concrete"),
    "str": TypeDesc(str, str, (), "concrete"),
    "A": TypeDesc(A, A, (), "concrete"),
    "B": TypeDesc(B, B, (), "concrete"),
    "C": TypeDesc(C, C, (), "concrete"),
    "Sequence": TypeDesc(collections.abc.Sequence, collections.abc.Sequence, (), "abstract"),
    "list": TypeDesc(list, list, (), "concrete"),
    "Impl": TypeDesc(Impl, Impl, (), "concrete"),
    "Impl2": TypeDesc(Impl2, Impl2, (), "concrete"),
    "SupportsInt": TypeDesc(typing.SupportsInt, typing.SupportsInt, (), "protocol"),
    "Proto": TypeDesc(Proto, Proto, (), "protocol"),
    "List[int]": TypeDesc(typing.List[int], list, ("int",), "parametrized"),
    "list[int]": TypeDesc(list[int], list, ("int",), "parametrized"),
    "List[str]": TypeDesc(typing.List[str], list, ("str",), "parametrized"),
}

# fields of the models, in definition order: (field_id, type name)
MODEL_FIELDS = {
    "A": [("a", "int"), ("b", "str")],
    "B": [("a", "int"), ("b", "str"), ("ab", "bool"), ("a_1", "List[int]")],
    "C": [("a", "A"), ("b", "B"), ("ab", "List[str]"), ("a_1", "list[int]")],
}


def self_check():
    """the hand-written table agrees with Python itself (not with adaptix)"""
    import dataclasses
    import inspect

    for name, d in TYPES.items():
        if d.kind == "abstract":
            assert inspect.isabstract(d.origin), name
        if d.kind == "protocol":
            assert getattr(d.origin, "_is_protocol", False) and getattr(d.origin, "_is_runtime_protocol", False), name
        if d.kind == "concrete":
            assert not inspect.isabstract(d.origin) and not getattr(d.origin, "_is_protocol", False), name
        if d.kind == "parametrized":
            assert typing.get_origin(d.hint) is d.origin, name
            assert typing.get_args(d.hint) == tuple(TYPES[a].hint for a in d.args), name
    for model, fields in MODEL_FIELDS.items():
        got = [(f.name, f.type) for f in dataclasses.fields(TYPES[model].hint)]
        assert got == [(n, TYPES[t].hint) for n, t in fields], model
    assert issubclass(C, typing.SupportsInt) and not issubclass(A, typing.SupportsInt)
    assert issubclass(C, Proto) and issubclass(bool, Proto) and not issubclass(A, Proto) and not issubclass(str, Proto)
    assert inspect.isabstract(typing.SupportsInt) and not inspect.isabstract(Proto)     # the two flavours of protocol


# ---------------------------------------------------------------------------------------------------------------
# meaning of the raw predicates

def _type_matcher(tname):
    want = TYPES[tname]
    if want.kind == "parametrized":
        norm = (want.origin, want.args)

        def match_parametrized(stack):
            got = TYPES[stack[-1][1]]
            return (got.origin, got.args) == norm
        return match_parametrized
    cls = want.origin
    if want.kind == "concrete":
        def match_exact(stack):
            return TYPES[stack[-1][1]].origin is cls
        return match_exact

    def match_subclass(stack):
        return issubclass(TYPES[stack[-1][1]].origin, cls)
    return match_subclass


def _name_matcher(text):
    if text.isidentifier():
        def match_field_id(stack):
            loc = stack[-1]
            return loc[0] in ("I", "O") and loc[2] == text
        return match_field_id
    rx = re.compile(text)

    def match_regex(stack):
        loc = stack[-1]
        return loc[0] in ("I", "O") and rx.fullmatch(loc[2]) is not None
    return match_regex


def _raw(expr):
    if expr[0] == "cls":
        return _type_matcher(expr[1])
    if expr[0] == "str":
        return _name_matcher(expr[1])
    raise ValueError(f"not a raw predicate: {expr!r}")


def _chain(elements):
    """P.x1....xn: the tail of the stack satisfies the elements in order; element i sees the stack up to its position"""
    n = len(elements)
    if n == 1:
        return elements[0]

    def match_chain(stack):
        size = len(stack)
        if size < n:
            return False
        for i, element in enumerate(elements, start=1):
            if not element(stack[:size - n + i]):
                return False
        return True
    return match_chain


def _or(fs):
    def match_or(stack):
        for f in fs:
            if f(stack):
                return True
        return False
    return match_or


def _elements(pat):
    """a P pattern denotes the list of its path elements"""
    tag = pat[0]
    if tag == "P":
        return []
    if tag == "attr":                           # pat.name
        return [*_elements(pat[1]), _name_matcher(pat[2])]
    if tag == "item":                           # pat[raw]
        return [*_elements(pat[1]), _raw(pat[2])]
    if tag == "items":                          # pat[raw, raw, ...]
        return [*_elements(pat[1]), _or([_raw(r) for r in pat[2]])]
    if tag == "garg":                           # pat.generic_arg(pos, raw)
        pos, inner = pat[2], _raw(pat[3])

        def match_generic_arg(stack):
            loc = stack[-1]
            return loc[0] == "G" and loc[2] == pos and inner(stack)
        return [*_elements(pat[1]), match_generic_arg]
    if tag == "add":                            # pat + pat
        return [*_elements(pat[1]), *_elements(pat[2])]
    if tag in ("or", "and", "xor", "not"):      # a combined P is again a P with one element
        return [compile_expr(pat)]
    raise ValueError(f"not a pattern: {pat!r}")


def compile_expr(expr):
    """expression tree -> function(stack) -> bool

    raw predicates     ("cls", type name) | ("str", text)
    patterns           ("P",) | ("attr", pat, name) | ("item", pat, raw) | ("items", pat, [raw, ...]) |
                       ("garg", pat, pos, raw) | ("add", pat, pat)
    the any-checker    ("ANY",)
    combinators        ("or", e, e) | ("and", e, e) | ("xor", e, e) | ("not", e)
    """
    tag = expr[0]
    if tag in ("cls", "str"):
        return _raw(expr)
    if tag == "ANY":
        return lambda stack: True
    if tag == "or":
        left, right = compile_expr(expr[1]), compile_expr(expr[2])
        return lambda stack: left(stack) or right(stack)
    if tag == "and":
        left, right = compile_expr(expr[1]), compile_expr(expr[2])
        return lambda stack: left(stack) and right(stack)
    if tag == "xor":
        left, right = compile_expr(expr[1]), compile_expr(expr[2])
        return lambda stack: left(stack) != right(stack)
    if tag == "not":
        inner = compile_expr(expr[1])
        return lambda stack: not inner(stack)
    elements = _elements(expr)
    if not elements:
        raise ValueError("P without elements has no meaning")
    return _chain(elements)


def matches(expr, stack) -> bool:
    return bool(compile_expr(expr)(tuple(tuple(loc) for loc in stack)))


# ---------------------------------------------------------------------------------------------------------------
# end-to-end: where a provider bound to the predicate replaces the builtin behaviour

@dataclass(frozen=True)
class Mark:
    """what the marker loader / dumper returns instead of the builtin result"""
    payload: object


def ref_load(match, tname, data, stack):
    """the value Retort(recipe=[loader(pred, Mark)]).load(data, TYPES[tname].hint) must produce: the marker replaces the
    loader exactly at the locations whose stack satisfies the predicate, everything else is loaded as documented"""
    if match(stack):
        return Mark(data)
    if tname in MODEL_FIELDS:
        return TYPES[tname].hint(**{
            fid: ref_load(match, ftype, data[fid], (*stack, ("I", ftype, fid)))
            for fid, ftype in MODEL_FIELDS[tname]
        })
    desc = TYPES[tname]
    if desc.kind == "parametrized":
        (arg,) = desc.args
        return [ref_load(match, arg, x, (*stack, ("G", arg, 0))) for x in data]
    return data


def ref_dump(match, tname, value, stack):
    if match(stack):
        return Mark(value)
    if tname in MODEL_FIELDS:
        return {
            fid: ref_dump(match, ftype, getattr(value, fid), (*stack, ("O", ftype, fid)))
            for fid, ftype in MODEL_FIELDS[tname]
        }
    desc = TYPES[tname]
    if desc.kind == "parametrized":
        (arg,) = desc.args
        return [ref_dump(match, arg, x, (*stack, ("G", arg, 0))) for x in value]
    return value


def walk_stacks(tname, direction, stack=None):
    """all location stacks a retort visits when it builds the loader ("I") / dumper ("O") of a type"""
    stack = (("T", tname, None),) if stack is None else stack
    yield stack
    if tname in MODEL_FIELDS:
        for fid, ftype in MODEL_FIELDS[tname]:
            yield from walk_stacks(ftype, direction, (*stack, (direction, ftype, fid)))
    elif TYPES[tname].kind == "parametrized":
        (arg,) = TYPES[tname].args
        yield from walk_stacks(arg, direction, (*stack, ("G", arg, 0)))
