"""Known findings, violation grouping, replay artefacts and the final verdict lines."""
import hashlib
import json
import os

from . import env

KNOWN_PATH = os.path.join(env.VERIF_ROOT, "known_findings.json")
REPLAY_DIR = os.path.join(env.VERIF_ROOT, "replays")
MAX_VIOLATION_LINES = 25


def load_known(pid):
    if not os.path.exists(KNOWN_PATH):
        return []
    with open(KNOWN_PATH) as f:
        doc = json.load(f)
    return [e for e in doc.get("findings", []) if e.get("property") == pid]


def _matches(entry_sig: dict, sig: dict) -> bool:
    return all(k in sig and sig[k] == v for k, v in entry_sig.items())


def classify(pid, violations: dict):
    """Split grouped violations into (known: entry id -> [violations], fresh: [violations], stale entries)."""
    known_entries = [e for e in load_known(pid) if e.get("status") == "open"]
    hit = {}
    fresh = []
    for v in violations.values():
        for e in known_entries:
            if _matches(e["signature"], v["sig"]):
                hit.setdefault(e["id"], []).append(v)
                break
        else:
            fresh.append(v)
    stale = [e for e in known_entries if e["id"] not in hit]
    return known_entries, hit, fresh, stale


def write_replay(pid, v):
    d = os.path.join(REPLAY_DIR, pid)
    os.makedirs(d, exist_ok=True)
    body = {"property": pid, "signature": v["sig"], "what": v["what"], "case": v["case"], "count": v["count"]}
    text = json.dumps(body, indent=1, sort_keys=True, default=repr)
    h = hashlib.blake2b(json.dumps(v["sig"], sort_keys=True, default=repr).encode(), digest_size=6).hexdigest()
    path = os.path.join(d, f"{h}.json")
    with open(path, "w") as f:
        f.write(text + "\n")
    return path


def verdict(pid, report, tier):
    """Print KNOWN-FINDING / VIOLATION lines; return (exit_code, n_fresh, known_ids_hit)."""
    known_entries, hit, fresh, stale = classify(pid, report.violations)
    d = os.path.join(REPLAY_DIR, pid)
    if os.path.isdir(d):   # replay files of earlier runs are stale by definition
        for name in os.listdir(d):
            if name.endswith(".json"):
                os.unlink(os.path.join(d, name))
    for e in known_entries:
        if e["id"] in hit:
            n = sum(v["count"] for v in hit[e["id"]])
            print(f"KNOWN-FINDING: property={pid} {e['what']} [{e['id']}; {n} case(s) in this run]")
    for e in stale:
        tiers = e.get("tiers")
        if tiers is None or tier in tiers:
            print(f"STALE-FINDING (info): property={pid} entry {e['id']} matched nothing in this {tier} run")
    fresh.sort(key=lambda v: len(json.dumps(v["case"], default=repr)))
    for i, v in enumerate(fresh):
        path = write_replay(pid, v)
        if i < MAX_VIOLATION_LINES:
            print(f"VIOLATION property={pid} replay={path}")
            print(f"  what: {v['what']}")
            print(f"  signature: {json.dumps(v['sig'], sort_keys=True, default=repr)}  ({v['count']} case(s))")
    if len(fresh) > MAX_VIOLATION_LINES:
        print(f"  ... and {len(fresh) - MAX_VIOLATION_LINES} more violation groups (replay files written)")
    return (1 if fresh else 0), len(fresh), sorted(hit)
