"""Run by setup_cmd: self-tests of the framework and of the reference models (no adaptix verdicts here)."""
import json
import os
import subprocess
import sys

ROOT = os.path.dirname(os.path.dirname(os.path.abspath(__file__)))
sys.path.insert(0, ROOT)


def test_codec():
    from decimal import Decimal

    from mc.codec import dec, enc
    for v in [1, 2**70, 10**400, 10**5000, -(10**5000), 10**5000 + 7, -0.0, (1, (2,)), {1: 2, "a": [b"x"]}, {1, 2}, Decimal("1"), None, True]:
        j = enc(v)
        json.dumps(j)
        d = dec(j)
        assert type(d) is type(v) and (d == v), (v, d)


def test_manifest():
    script = "import json,jsonschema,sys; jsonschema.Draft202012Validator(json.load(open(sys.argv[2]))).validate(json.load(open(sys.argv[1])))"
    try:
        subprocess.run(["python3-vt", "-c", script, os.path.join(ROOT, "MANIFEST.json"),
                        os.path.join(ROOT, "schemas", "MANIFEST.schema.json")], check=True,
                       env={k: v for k, v in os.environ.items() if not k.startswith("PYTHON")})
    except FileNotFoundError:
        print("python3-vt not available: MANIFEST schema validation skipped")


def main():
    for name, fn in sorted(globals().items()):
        if name.startswith("test_") and callable(fn):
            fn()
            print("ok", name)
    extra = os.path.join(ROOT, "tests", "test_refs.py")
    if os.path.exists(extra):
        subprocess.run(["/venv/bin/python", extra], check=True)


if __name__ == "__main__":
    main()
