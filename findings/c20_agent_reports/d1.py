"""Clean tree: loading a model from a defaultdict that lacks a required key inserts the key into the input.

The generated model loader fetches a required field with ``data[key]`` and relies on KeyError;
``defaultdict.__missing__`` inserts the default instead. C20 requires: loading never mutates the input datum
(and here the missing required field is silently accepted as well).
"""
import sys
from collections import defaultdict
from dataclasses import dataclass

from adaptix import Retort


@dataclass
class Model:
    a: int
    b: list


data = defaultdict(list, {"a": 1})
before = dict(data)
try:
    result = Retort().load(data, Model)
except Exception as e:  # a refusal is fine as long as the datum is untouched
    result = e
after = dict(data)
print("result:", result)
print("input before:", before)
print("input after: ", after)
if after != before:
    print("DEFECT: load() mutated its input; C20 requires that loading never mutates the input datum")
    sys.exit(1)
print("ok")
sys.exit(0)
