"""Clean tree: dumping a TypedDict value that is a defaultdict inserts the absent optional keys into the object.

The generated model dumper reads an optional item with ``data[key]`` + ``except KeyError``;
``defaultdict.__missing__`` inserts the default. C20 requires: dumping never mutates the object,
and repeating the call gives equal results (the first dump already reports the phantom key).
"""
import sys
from collections import defaultdict
from typing import TypedDict

from adaptix import Retort


class Options(TypedDict, total=False):
    a: int
    b: list


obj = defaultdict(list, {"a": 1})
before = dict(obj)
dumped = Retort().dump(obj, Options)
after = dict(obj)
print("dumped:", dumped)
print("object before:", before)
print("object after: ", after)
if after != before:
    print("DEFECT: dump() mutated the dumped object; C20 requires that dumping never mutates the object")
    sys.exit(1)
print("ok")
sys.exit(0)
