"""Clean tree: equal sets are dumped to unequal tuples (the iteration order of the set leaks into the result).

C20 requires: repeating a call with equal arguments gives equal results.
"""
import sys

from adaptix import Retort

retort = Retort()
one = set()
one.add(0)
one.add(8)
other = set()
other.add(8)
other.add(0)
assert one == other
first = retort.dump(one, set[int])
second = retort.dump(other, set[int])
print("arguments equal:", one == other, "results:", first, second)
if first != second:
    print("DEFECT: dump() of two equal sets gives different results; C20 requires equal results for equal arguments")
    sys.exit(1)
print("ok")
sys.exit(0)
