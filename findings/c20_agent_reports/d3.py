"""Clean tree: dumping an ``IO[bytes]`` value rewinds and reads the stream, so its position is changed.

C20 requires: dumping never mutates the object and repeating a call with equal arguments gives equal results.
For a non-seekable stream the second dump yields an empty string; for a seekable one the position is lost.
"""
import sys
from io import BytesIO
from typing import IO

from adaptix import Retort

retort = Retort()
stream = BytesIO(b"hello world")
stream.seek(3)
pos_before = stream.tell()
dumped = retort.dump(stream, IO[bytes])
pos_after = stream.tell()
print("dumped:", dumped, "position before:", pos_before, "after:", pos_after)


class OneShot(BytesIO):
    def seekable(self):
        return False


one_shot = OneShot(b"hello world")
first = retort.dump(one_shot, IO[bytes])
second = retort.dump(one_shot, IO[bytes])
print("non-seekable stream: first dump", repr(first), "second dump", repr(second))

if pos_after != pos_before or first != second:
    print("DEFECT: dump() of IO[bytes] moves the stream position (state of the argument is changed,"
          " a repeated dump of a non-seekable stream differs); C20 requires that dumping never mutates the object")
    sys.exit(1)
print("ok")
sys.exit(0)
