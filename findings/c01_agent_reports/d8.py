"""Default recipe: a field whose name starts with '_' is skipped by the dumper only (SkipPrivateFieldsNameMappingProvider
ignores input fields), a required private field therefore makes load(dump(x)) fail with the DEFAULT name mapping."""
import sys
from dataclasses import dataclass
from adaptix import Retort


@dataclass
class Account:
    name: str
    _token: int


retort = Retort()
x = Account("a", 1)
dumped = retort.dump(x, Account)
try:
    loaded = retort.load(dumped, Account)
except Exception as e:  # noqa: BLE001
    print(f"dump({x!r}) == {dumped!r}; load raised {type(e).__name__}; "
          "C01 requires load(dump(x, T), T) == x for every retort configuration (this is the default one)")
    sys.exit(1)
sys.exit(0 if loaded == x else 1)
