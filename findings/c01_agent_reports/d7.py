"""name_mapping with a nested path + extra_in/extra_out pointing to a field: the loader always stores an (empty) dict
of extras for the nested mapping, so load(dump(x)) gets extra == {'sub': {}} instead of {}.  Dumping that result once
more merges `extra` OVER the nested mapping and loses the field `a` completely."""
import sys
from dataclasses import dataclass, field
from adaptix import Retort, name_mapping


@dataclass
class M:
    a: int
    extra: dict = field(default_factory=dict)


retort = Retort(recipe=[name_mapping(M, map={"a": ("sub", "a")}, extra_in="extra", extra_out="extra")])
x = M(a=1)
dumped = retort.dump(x, M)
loaded = retort.load(dumped, M)
rc = 0
if loaded != x:
    print(f"load(dump({x!r})) == {loaded!r} (dumped {dumped!r}); C01 requires equality")
    rc = 1
    dumped2 = retort.dump(loaded, M)
    try:
        retort.load(dumped2, M)
    except Exception as e:  # noqa: BLE001
        print(f"second pass: dump({loaded!r}) == {dumped2!r}, load raised {type(e).__name__}")
sys.exit(rc)
