"""date_by_timestamp(): the dumper makes the timestamp of UTC midnight, the loader uses date.fromtimestamp (LOCAL time).
West of Greenwich every date comes back one day earlier."""
import os
import sys
import time
from datetime import date

os.environ["TZ"] = "America/New_York"
time.tzset()

from adaptix import Retort, date_by_timestamp  # noqa: E402

retort = Retort(recipe=[date_by_timestamp()])
x = date(2020, 1, 2)
dumped = retort.dump(x, date)
loaded = retort.load(dumped, date)
if loaded != x:
    print(f"TZ=America/New_York: load(dump({x!r})) == {loaded!r} (dumped {dumped!r}); C01 requires equality")
    sys.exit(1)
sys.exit(0)
