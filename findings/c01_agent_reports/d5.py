"""Enum with tuple values (default exact-value provider): the dumped tuple becomes a list after json, the loader looks
it up in a dict (unhashable -> BadVariantLoadError).  Without json the round trip works."""
import json
import sys
from enum import Enum
from adaptix import Retort


class Corner(Enum):
    TOP_LEFT = (0, 0)
    BOTTOM_RIGHT = (1, 1)


retort = Retort()
x = Corner.BOTTOM_RIGHT
dumped = json.loads(json.dumps(retort.dump(x, Corner)))
try:
    loaded = retort.load(dumped, Corner)
except Exception as e:  # noqa: BLE001
    print(f"load({dumped!r}, Corner) raised {type(e).__name__}: {e}; C01 requires load(json(dump(x))) == x")
    sys.exit(1)
sys.exit(0 if loaded == x else 1)
