"""timedelta: total_seconds() is a float, a timedelta beyond 2**53 microseconds (~285 years) with a non-zero
microsecond part does not survive dump -> load (timedelta.max is 999999999 days, so such values are legal)."""
import sys
from datetime import timedelta
from adaptix import Retort

retort = Retort()
bad = []
for x in [timedelta(days=200000, microseconds=1), timedelta(days=-200000, microseconds=1), timedelta(days=99999, microseconds=1)]:
    dumped = retort.dump(x, timedelta)
    loaded = retort.load(dumped, timedelta)
    if loaded != x:
        bad.append((x, dumped, loaded))
for x, dumped, loaded in bad:
    print(f"load(dump({x!r})) == {loaded!r}  (dumped {dumped!r}); C01 requires load(dump(x, timedelta), timedelta) == x")
sys.exit(1 if bad else 0)
