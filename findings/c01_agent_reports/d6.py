"""flag_by_member_names: bits of the value that no listed member covers are silently dropped by the dumper.
(a) allow_compound=False and a bit that is declared only inside a compound member; (b) a pseudo-member such as Perm(2)."""
import sys
from enum import Flag
from adaptix import Retort, flag_by_member_names


class Perm(Flag):
    READ = 1
    READ_WRITE = 3


bad = []
for title, retort, x in [
    ("allow_compound=False", Retort(recipe=[flag_by_member_names(allow_compound=False)]), Perm.READ_WRITE),
    ("default", Retort(recipe=[flag_by_member_names()]), Perm(2)),
]:
    dumped = retort.dump(x, Perm)
    loaded = retort.load(dumped, Perm)
    if loaded != x:
        bad.append(f"[{title}] load(dump({x!r})) == {loaded!r} (dumped {dumped!r})")
for line in bad:
    print(line, "; C01 requires equality (or a refusal), not a silently different value")
sys.exit(1 if bad else 0)
