"""re.Pattern: the dumper keeps only `.pattern`, flags of the value are lost (re.compile('a', re.I) != re.compile('a'))."""
import re
import sys
from adaptix import Retort

retort = Retort()
x = re.compile("a+", re.IGNORECASE | re.MULTILINE)
loaded = retort.load(retort.dump(x, re.Pattern), re.Pattern)
if loaded != x:
    print(f"load(dump({x!r})) == {loaded!r}; C01 requires equality for every value of a supported type")
    sys.exit(1)
sys.exit(0)
