"""Union[TypedDict, int]: the union dumper dispatches on type(data), a TypedDict value is a plain dict -> KeyError.
(Union[NamedTuple, int] and Union[dataclass, int] work.)"""
import sys
from typing import TypedDict, Union
from adaptix import Retort


class Point(TypedDict):
    x: int


retort = Retort()
tp = Union[Point, int]
value = Point(x=1)
try:
    loaded = retort.load(retort.dump(value, tp), tp)
except Exception as e:  # noqa: BLE001
    print(f"dump({value!r}, {tp}) raised {type(e).__name__}: {e}; C01 requires the round trip to succeed "
          "for unions with non-overlapping cases of every model kind")
    sys.exit(1)
sys.exit(0 if loaded == value else 1)
