"""pydantic: the declared default is passed to the constructor explicitly, so pydantic validates/coerces it
(and marks the field as set), whereas the model itself keeps an unvalidated default untouched.
C08: an absent field must hold what the model itself would produce (equal value of exactly the same type)."""
import sys
from pydantic import BaseModel
from adaptix import Retort


class M(BaseModel):
    x: int = "5"   # pydantic does not validate defaults (validate_default=False)
    y: int = 0


own = M()
loaded = Retort().load({}, M)
print("model itself:", repr(own.x), own.model_fields_set, "| loaded:", repr(loaded.x), loaded.model_fields_set)
bad = type(loaded.x) is not type(own.x) or loaded.x != own.x or loaded.model_fields_set != own.model_fields_set
if bad:
    print("DEFECT: omitted field x holds", repr(loaded.x), "but M() gives", repr(own.x),
          "; fields_set", loaded.model_fields_set, "vs", own.model_fields_set)
sys.exit(1 if bad else 0)
