"""An int default with more than 4300 digits: the literal renderer calls repr() that raises ValueError,
the loader of the model can not be created at all.
C08: an absent field must hold the declared default."""
import sys
from dataclasses import dataclass
from adaptix import Retort

BIG = 1 << 20000  # built without str conversion


@dataclass
class M:
    x: int = BIG


try:
    loaded = Retort().load({}, M)
except Exception as e:
    print(f"DEFECT: loading {{}} raised {type(e).__name__}: {str(e)[:120]}; M().x is the declared default")
    sys.exit(1)
sys.exit(0 if loaded.x == BIG else 1)
