"""A field skipped by name_mapping(skip=...) of a model taking **kwargs (extra_in=ExtraKwargs()):
the input key with the name of the skipped parameter is treated as extra data and goes to the constructor
as that very parameter - raw, not loaded by the field loader.
C08: the constructor gets exactly the loaded values of the fields present in the input; a skipped field keeps its default."""
import sys
from adaptix import ExtraKwargs, Retort, name_mapping


class K:
    def __init__(self, a: int, b: int = 7, **kw):
        self.a, self.b, self.kw = a, b, kw


retort = Retort(recipe=[name_mapping(K, skip=["b"], extra_in=ExtraKwargs())])
obj = retort.load({"a": 1, "b": "raw"}, K)
print(vars(obj))
if obj.b != 7:
    print("DEFECT: skipped field b must keep the constructor default 7 (and 'b' belong to extra data), got", repr(obj.b))
    sys.exit(1)
sys.exit(0)
