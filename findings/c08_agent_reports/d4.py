"""dataclass with a hand-written __init__ (init=False): defaults are taken from the dataclass fields,
not from the real constructor, so an absent field gets another value than the model itself produces.
(Known limitation mentioned in the docstring of get_dataclass_shape, still a violation of C08.)"""
import sys
from dataclasses import dataclass
from adaptix import Retort


@dataclass(init=False)
class A:
    x: int = 1

    def __init__(self, x: int = 2):
        self.x = x


own, loaded = A().x, Retort().load({}, A).x
print("model itself:", own, "| loaded:", loaded)
if own != loaded:
    print("DEFECT: omitted field x holds", loaded, "but A() gives", own)
    sys.exit(1)
sys.exit(0)
