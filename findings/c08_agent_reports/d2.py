"""pydantic >= 2.10: default_factory taking the validated data is called by the loader without arguments.
C08: an absent field must hold what the model itself would produce (M(a=2).b == 4)."""
import sys
from pydantic import BaseModel, Field
from adaptix import Retort


class M(BaseModel):
    a: int
    b: int = Field(default_factory=lambda data: data["a"] * 2)


own = M(a=2)
try:
    loaded = Retort().load({"a": 2}, M)
except Exception as e:
    print(f"DEFECT: model itself gives b={own.b}, loading {{'a': 2}} raised {type(e).__name__}: {e}")
    sys.exit(1)
print("loaded", loaded)
sys.exit(0 if loaded.b == own.b else 1)
