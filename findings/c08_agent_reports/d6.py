"""A default container that contains itself (or is nested deeper than the recursion limit):
the literal renderer recurses without bound, the loader can not be created.
C08: an absent field must hold the declared default (for a non-renderable value - the object itself)."""
import sys
from typing import Any
from adaptix import Retort

LOOP: list = [1]
LOOP.append(LOOP)


class M:
    def __init__(self, x: Any = LOOP):
        self.x = x


try:
    loaded = Retort().load({}, M)
except RecursionError as e:
    print(f"DEFECT: loading {{}} raised RecursionError ({str(e)[:60]}); M().x is the declared default")
    sys.exit(1)
ok = type(loaded.x) is list and len(loaded.x) == 2 and loaded.x[0] == 1
sys.exit(0 if ok else 1)
