"""Clean-tree defect (C11, minor - only the text of the load error differs).

`Optional[T]` and `T | None` are equal and hash equally, so they share one entry of the process-wide
`lru_cache` of `normalize_type` (and one entry of the facade cache of a retort).  The union loader puts
`norm.source` - the spelling that was normalised FIRST - into the message of `UnionLoadError`.
Hence the error of `load(x, Optional[int])` reads "while loading int | None" if `int | None` was requested before
(from this retort or from ANY other retort of the process), and "while loading typing.Optional[int]" otherwise.

Statement: the outcome of load for given arguments depends only on how the retort was constructed,
never on which other types were requested before.
"""
import sys
from typing import Optional

from adaptix import Retort


def message(retort, tp):
    try:
        retort.load("not a number", tp)
    except Exception as e:  # noqa: BLE001
        return e.message
    return None


# history 1: the PEP 604 spelling first, then typing.Optional -- on two different fresh retorts
message(Retort(), int | None)
after_other_spelling = message(Retort(), Optional[int])

# history 2 (same experiment with another member type so that the global cache is still untouched):
# typing.Optional is the first request
first_request = message(Retort(), Optional[float])

print("load(.., Optional[int])   after `int | None` was requested elsewhere:", repr(after_other_spelling))
print("load(.., Optional[float]) as the first request                      :", repr(first_request))
if "typing.Optional" in first_request and "typing.Optional" not in after_other_spelling:
    print("DEFECT: the error message of the same call on a fresh retort depends on requests made before")
    print("(even to other retorts); the statement requires it to depend on the construction of the retort only")
    sys.exit(1)
print("ok")
sys.exit(0)
