"""Clean-tree defect (C11): a compiled model loader holding a recursion stub is reused in another context.

Recursion stubs (`FuncWrapper`) compare equal when their *last location* is equal, and the per-retort call cache
is keyed by equality of arguments.  The loader of `Node` built for the request `Node` contains the stub of the
location "field next of Node"; the stub is bound to the loader of that field *in the context of that request*.
When `Outer` (field `node: Node`) is requested later, the inner `Node` loader has an equal cache key (same shape,
same layout, field loaders `{value: int_loader, next: <stub of the same location>}`), so the closure of the first
request is returned - although in this request the field `Outer.node.next` has a chained loader
(`loader(P[Outer].node.next, times10, Chain.FIRST)`) to which the stub would be bound in a fresh retort.

Statement: the outcome of load depends only on how the retort was constructed, never on which other types
were requested from it before.
"""
import sys
from dataclasses import dataclass
from typing import Optional

from adaptix import Chain, P, Retort, loader


@dataclass
class Node:
    value: int
    next: Optional["Node"] = None


@dataclass
class Outer:
    node: Node


def times10(data):
    return data if data is None else {**data, "value": data["value"] * 10}


def make_retort():
    return Retort(recipe=[loader(P[Outer].node.next, times10, Chain.FIRST)])


DOC = {"node": {"value": 1, "next": {"value": 2, "next": {"value": 3, "next": None}}}}

fresh = make_retort().load(DOC, Outer)

retort = make_retort()
retort.load({"value": 1}, Node)          # an unrelated earlier request
with_history = retort.load(DOC, Outer)

print("fresh retort        :", fresh)
print("after load(.., Node):", with_history)
if fresh != with_history:
    print("DEFECT: load(DOC, Outer) depends on whether Node was requested from the retort before;")
    print("the statement requires the same result as a fresh retort built the same way")
    sys.exit(1)
print("ok")
sys.exit(0)
