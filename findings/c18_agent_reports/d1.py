"""enum_by_exact_value (default) on an enum with an int/str mixin: the fast (dict) loader accepts data that is not the
representation of a member -- the member itself, True, 1.0 -- while the slow path of the very same provider
(enums with a _missing_ hook) rejects a member explicitly ("since MyEnum(MyEnum.MY_CASE) == MyEnum.MY_CASE").
The statement requires a LoadError for everything that is not the dumped value."""
import sys
from enum import Enum, IntEnum

from adaptix import Retort
from adaptix.load_error import LoadError


class Level(IntEnum):
    LOW = 1


class Name(str, Enum):
    A = "a"


class LevelWithHook(IntEnum):
    LOW = 1

    @classmethod
    def _missing_(cls, value):
        raise ValueError


retort = Retort()
bad = []
for cls, datas in ((Level, [Level.LOW, True, 1.0]), (Name, [Name.A])):
    loader = retort.get_loader(cls)
    for data in datas:
        try:
            result = loader(data)
        except LoadError:
            continue
        bad.append(f"{cls.__name__} loader accepted {data!r} (type {type(data).__name__}) -> {result!r}")
try:
    retort.get_loader(LevelWithHook)(LevelWithHook.LOW)
    hook = "accepted"
except LoadError:
    hook = "rejected"
print(f"the same provider on an IntEnum with a _missing_ hook: member as data is {hook}")
if bad:
    print("\n".join(bad))
    print("required: LoadError, only the plain value (1 / 'a') is the representation of the member")
    sys.exit(1)
