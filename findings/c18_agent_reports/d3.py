"""enum_by_name / flag_by_member_names with a name_style that is not injective on the member names (LOWER/CAMEL/PASCAL/UPPER
drop the underscores): two members get the same external name, nothing is reported when loader and dumper are created,
and dump -> load returns ANOTHER member. Required: round trip returns the same member (or creation is refused)."""
import sys
from enum import Enum, Flag

from adaptix import NameStyle, Retort, enum_by_name, flag_by_member_names


class E(Enum):
    AB = 1
    A_B = 2


class F(Flag):
    AB = 1
    A_B = 2


bad = []
retort = Retort(recipe=[enum_by_name(name_style=NameStyle.LOWER), flag_by_member_names(name_style=NameStyle.LOWER)])
for cls in (E, F):
    try:
        loader, dumper = retort.get_loader(cls), retort.get_dumper(cls)
    except Exception as e:
        print(f"{cls.__name__}: creation refused: {e!r}")
        continue
    for member in cls:
        back = loader(dumper(member))
        if back is not member:
            bad.append(f"{cls.__name__}: dump({member!r}) = {dumper(member)!r}, load of it = {back!r}")
if bad:
    print("\n".join(bad))
    print("required: loading the dumped data returns the same member")
    sys.exit(1)
