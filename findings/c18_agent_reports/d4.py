"""flag_by_exact_value (default) on a Flag class without members (a common base class for flags): creating the loader
dies with a bare TypeError from functools.reduce instead of succeeding (the only value is Flag(0)) or refusing with
CannotProvide/ProviderNotFoundError. The docs exclude only skipped bits and negative values."""
import sys
from enum import Flag

from adaptix import ProviderNotFoundError, Retort


class Empty(Flag):
    pass


retort = Retort()
try:
    loader = retort.get_loader(Empty)
    dumper = retort.get_dumper(Empty)
    assert loader(dumper(Empty(0))) == Empty(0)
except ProviderNotFoundError:
    sys.exit(0)
except Exception as e:
    print(f"creating loader for a Flag class without members raised {e!r}")
    print("required: creation succeeds (or is refused in the documented way)")
    sys.exit(1)
