"""flag_by_member_names(allow_compound=False) on a flag with a multi-bit member whose bits have no single-bit members
(A = 1, BC = 6): creation succeeds, the dumper silently drops the bits (dump(F.BC) == []) and loading gives F(0).
Required: the round trip returns the same member (or creation is refused)."""
import sys
from enum import Flag

from adaptix import Retort, flag_by_member_names


class F(Flag):
    A = 1
    BC = 6


retort = Retort(recipe=[flag_by_member_names(allow_compound=False)])
loader, dumper = retort.get_loader(F), retort.get_dumper(F)
bad = []
for member in (F.A, F.BC, F.A | F.BC):
    back = loader(dumper(member))
    if back != member:
        bad.append(f"dump({member!r}) = {dumper(member)!r}, load of it = {back!r}")
if bad:
    print("\n".join(bad))
    print("required: loading the dumped data returns the same member")
    sys.exit(1)
