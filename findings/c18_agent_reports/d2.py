"""enum_by_name on an enum with a str mixin: a member whose VALUE equals the NAME of another member is accepted as data
and loaded as that other member (dict lookup by hash/eq of the str mixin). Required: LoadError, a member is not a name."""
import sys
from enum import Enum

from adaptix import Retort, enum_by_name
from adaptix.load_error import LoadError


class Name(str, Enum):
    A = "a"
    B = "A"


loader = Retort(recipe=[enum_by_name()]).get_loader(Name)
try:
    result = loader(Name.B)
except LoadError:
    sys.exit(0)
print(f"by-name loader accepted the member {Name.B!r} as data and returned {result!r}; required: LoadError")
sys.exit(1)
