"""Diamond: the second base overrides a field of the shared generic grandparent."""
from dataclasses import dataclass
from typing import Generic, List, TypeVar

# --- helpers ------------------------------------------------------------
from adaptix import Retort
from adaptix.load_error import LoadError


def attempt(func):
    try:
        return ("ok", func())
    except LoadError as e:
        return ("LoadError", type(e).__name__)
    except Exception as e:  # noqa: BLE001
        return ("error", f"{type(e).__name__}: {str(e)[:160]}")


def load(data, tp):
    return attempt(lambda: Retort().load(data, tp))


def dump(obj, tp):
    return attempt(lambda: Retort().dump(obj, tp))


def report(title, meaning, checks):
    """checks: list of (description, observed, is_as_declared)"""
    print(title)
    print("declared meaning:", meaning)
    bad = False
    for desc, observed, good in checks:
        print(f"  [{'as declared' if good else 'DEFECT'}] {desc}: {observed!r}")
        bad = bad or not good
    print("RESULT:", "defect shows" if bad else "no defect")
    raise SystemExit(1 if bad else 0)
# ------------------------------------------------------------------------

T = TypeVar("T")


@dataclass
class A(Generic[T]):
    x: T
    y: T


@dataclass
class B(A[T], Generic[T]):
    pass


@dataclass
class C(A[T], Generic[T]):
    x: List[T]  # overrides A.x


@dataclass
class D(B[int], C[int]):  # MRO: D, B, C, A -> x is C's List[T] with T=int
    pass


good = load({"x": [1], "y": 2}, D)
bad = load({"x": 1, "y": 2}, D)
report(
    "d1: diamond with an override in the second base",
    "MRO is D, B, C, A, so D.x is C's annotation List[T] with T=int -> List[int]; y is int",
    [
        ("load {'x': [1], 'y': 2} (fits List[int])", good, good[0] == "ok"),
        ("load {'x': 1, 'y': 2} (fits A's x: int only)", bad, bad[0] == "LoadError"),
    ],
)
