"""A generic dataclass with one type parameter that defines __iter__."""
from dataclasses import dataclass
from typing import Generic, Iterator, List, TypeVar

# --- helpers ------------------------------------------------------------
from adaptix import Retort
from adaptix.load_error import LoadError


def attempt(func):
    try:
        return ("ok", func())
    except LoadError as e:
        return ("LoadError", type(e).__name__)
    except Exception as e:  # noqa: BLE001
        return ("error", f"{type(e).__name__}: {str(e)[:160]}")


def load(data, tp):
    return attempt(lambda: Retort().load(data, tp))


def dump(obj, tp):
    return attempt(lambda: Retort().dump(obj, tp))


def report(title, meaning, checks):
    """checks: list of (description, observed, is_as_declared)"""
    print(title)
    print("declared meaning:", meaning)
    bad = False
    for desc, observed, good in checks:
        print(f"  [{'as declared' if good else 'DEFECT'}] {desc}: {observed!r}")
        bad = bad or not good
    print("RESULT:", "defect shows" if bad else "no defect")
    raise SystemExit(1 if bad else 0)
# ------------------------------------------------------------------------

T = TypeVar("T")
K = TypeVar("K")


@dataclass
class Page(Generic[T]):
    items: List[T]

    def __iter__(self) -> Iterator[T]:
        return iter(self.items)


@dataclass
class Page2(Generic[T, K]):  # control: two parameters
    items: List[T]
    tag: K

    def __iter__(self) -> Iterator[T]:
        return iter(self.items)


c_load = load({"items": [1, 2], "tag": "t"}, Page2[int, str])
c_dump = dump(Page2([1, 2], "t"), Page2[int, str])
loaded = load({"items": [1, 2]}, Page[int])
dumped = dump(Page([1, 2]), Page[int])
report(
    "d6: one-parameter generic dataclass that is iterable",
    "Page[int] is a model with the field items: List[int]; it maps to {'items': [...]}",
    [
        ("control: Page2[int, str] load", c_load, c_load == ("ok", Page2([1, 2], "t"))),
        ("control: Page2[int, str] dump", c_dump, c_dump == ("ok", {"items": [1, 2], "tag": "t"})),
        ("load {'items': [1, 2]} as Page[int]", loaded, loaded == ("ok", Page([1, 2]))),
        ("dump Page([1, 2]) as Page[int]", dumped, dumped == ("ok", {"items": [1, 2]})),
    ],
)
