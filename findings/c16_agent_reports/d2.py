"""PEP 695 alias whose value uses its parameters in another order than it declares them."""
import sys
from dataclasses import dataclass
from typing import Generic, TypeVar

# --- helpers ------------------------------------------------------------
from adaptix import Retort
from adaptix.load_error import LoadError


def attempt(func):
    try:
        return ("ok", func())
    except LoadError as e:
        return ("LoadError", type(e).__name__)
    except Exception as e:  # noqa: BLE001
        return ("error", f"{type(e).__name__}: {str(e)[:160]}")


def load(data, tp):
    return attempt(lambda: Retort().load(data, tp))


def dump(obj, tp):
    return attempt(lambda: Retort().dump(obj, tp))


def report(title, meaning, checks):
    """checks: list of (description, observed, is_as_declared)"""
    print(title)
    print("declared meaning:", meaning)
    bad = False
    for desc, observed, good in checks:
        print(f"  [{'as declared' if good else 'DEFECT'}] {desc}: {observed!r}")
        bad = bad or not good
    print("RESULT:", "defect shows" if bad else "no defect")
    raise SystemExit(1 if bad else 0)
# ------------------------------------------------------------------------

if sys.version_info < (3, 12):
    print("needs Python 3.12")
    raise SystemExit(0)

ns = {}
exec("type M[K, V] = dict[V, K]", ns)  # noqa: S102
M = ns["M"]
T = TypeVar("T")


@dataclass
class G(Generic[T]):
    m: M[T, int]  # K=T, V=int -> dict[int, T]


good = load({"m": {1: "s"}}, G[str])
bad = load({"m": {"s": 1}}, G[str])
report(
    "d2: generic PEP 695 alias `type M[K, V] = dict[V, K]` as a field of a generic model",
    "G[str].m is M[str, int] = dict[int, str]",
    [
        ("load {'m': {1: 's'}} (fits dict[int, str])", good, good[0] == "ok"),
        ("load {'m': {'s': 1}} (fits dict[str, int] only)", bad, bad[0] == "LoadError"),
    ],
)
