"""InitVar[T] of a generic dataclass."""
from dataclasses import InitVar, dataclass
from typing import Generic, TypeVar

# --- helpers ------------------------------------------------------------
from adaptix import Retort
from adaptix.load_error import LoadError


def attempt(func):
    try:
        return ("ok", func())
    except LoadError as e:
        return ("LoadError", type(e).__name__)
    except Exception as e:  # noqa: BLE001
        return ("error", f"{type(e).__name__}: {str(e)[:160]}")


def load(data, tp):
    return attempt(lambda: Retort().load(data, tp))


def dump(obj, tp):
    return attempt(lambda: Retort().dump(obj, tp))


def report(title, meaning, checks):
    """checks: list of (description, observed, is_as_declared)"""
    print(title)
    print("declared meaning:", meaning)
    bad = False
    for desc, observed, good in checks:
        print(f"  [{'as declared' if good else 'DEFECT'}] {desc}: {observed!r}")
        bad = bad or not good
    print("RESULT:", "defect shows" if bad else "no defect")
    raise SystemExit(1 if bad else 0)
# ------------------------------------------------------------------------

T = TypeVar("T")


@dataclass
class G(Generic[T]):
    a: T
    iv: InitVar[T]

    def __post_init__(self, iv):
        self.seen = iv


@dataclass
class Plain:  # control: InitVar without type variables
    a: int
    iv: InitVar[int]

    def __post_init__(self, iv):
        self.seen = iv


control = load({"a": 1, "iv": 2}, Plain)
good = load({"a": 1, "iv": 2}, G[int])
bad = load({"a": 1, "iv": "s"}, G[int])
report(
    "d4: `iv: InitVar[T]` in a generic dataclass",
    "G[int].iv is InitVar[int]: an int constructor argument (InitVar[int] of a plain dataclass is supported)",
    [
        ("control: plain dataclass with InitVar[int]", control, control[0] == "ok"),
        ("load {'a': 1, 'iv': 2} as G[int]", good, good[0] == "ok"),
        ("load {'a': 1, 'iv': 's'} as G[int]", bad, bad[0] == "LoadError"),
    ],
)
