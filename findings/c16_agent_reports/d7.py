"""TypedDict child that overrides an inherited generic field with another generic annotation."""
import sys
from dataclasses import dataclass
from typing import Generic, List, TypedDict, TypeVar

# --- helpers ------------------------------------------------------------
from adaptix import Retort
from adaptix.load_error import LoadError


def attempt(func):
    try:
        return ("ok", func())
    except LoadError as e:
        return ("LoadError", type(e).__name__)
    except Exception as e:  # noqa: BLE001
        return ("error", f"{type(e).__name__}: {str(e)[:160]}")


def load(data, tp):
    return attempt(lambda: Retort().load(data, tp))


def dump(obj, tp):
    return attempt(lambda: Retort().dump(obj, tp))


def report(title, meaning, checks):
    """checks: list of (description, observed, is_as_declared)"""
    print(title)
    print("declared meaning:", meaning)
    bad = False
    for desc, observed, good in checks:
        print(f"  [{'as declared' if good else 'DEFECT'}] {desc}: {observed!r}")
        bad = bad or not good
    print("RESULT:", "defect shows" if bad else "no defect")
    raise SystemExit(1 if bad else 0)
# ------------------------------------------------------------------------

if sys.version_info < (3, 11):
    print("needs Python 3.11")
    raise SystemExit(0)

T = TypeVar("T")


class TP(TypedDict, Generic[T]):
    a: T


class TC(TP[int], Generic[T]):
    a: List[T]  # overrides TP.a


@dataclass
class DP(Generic[T]):  # control: the same hierarchy as dataclasses
    a: T


@dataclass
class DC(DP[int], Generic[T]):
    a: List[T]


control = load({"a": ["s"]}, DC[str])
good = load({"a": ["s"]}, TC[str])
bad = load({"a": 1}, TC[str])
report(
    "d7: TypedDict child overriding an inherited generic field with a generic annotation",
    "TC[str].a is the child's List[T] with T=str -> List[str]",
    [
        ("control: dataclass version, load {'a': ['s']} as DC[str]", control, control[0] == "ok"),
        ("load {'a': ['s']} as TC[str]", good, good[0] == "ok"),
        ("load {'a': 1} as TC[str] (fits the parent's a: int only)", bad, bad[0] == "LoadError"),
    ],
)
