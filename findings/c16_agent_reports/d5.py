"""A generic model whose only type parameter is a TypeVarTuple, used bare."""
import sys
from dataclasses import dataclass
from typing import Generic, Tuple, TypeVar

# --- helpers ------------------------------------------------------------
from adaptix import Retort
from adaptix.load_error import LoadError


def attempt(func):
    try:
        return ("ok", func())
    except LoadError as e:
        return ("LoadError", type(e).__name__)
    except Exception as e:  # noqa: BLE001
        return ("error", f"{type(e).__name__}: {str(e)[:160]}")


def load(data, tp):
    return attempt(lambda: Retort().load(data, tp))


def dump(obj, tp):
    return attempt(lambda: Retort().dump(obj, tp))


def report(title, meaning, checks):
    """checks: list of (description, observed, is_as_declared)"""
    print(title)
    print("declared meaning:", meaning)
    bad = False
    for desc, observed, good in checks:
        print(f"  [{'as declared' if good else 'DEFECT'}] {desc}: {observed!r}")
        bad = bad or not good
    print("RESULT:", "defect shows" if bad else "no defect")
    raise SystemExit(1 if bad else 0)
# ------------------------------------------------------------------------

if sys.version_info < (3, 11):
    print("needs Python 3.11")
    raise SystemExit(0)

from typing import TypeVarTuple, Unpack  # noqa: E402

T = TypeVar("T")
Ts = TypeVarTuple("Ts")


@dataclass
class Only(Generic[Unpack[Ts]]):
    b: Tuple[Unpack[Ts]]


@dataclass
class WithHead(Generic[T, Unpack[Ts]]):  # control: the same thing with one more ordinary parameter
    a: T
    b: Tuple[Unpack[Ts]]


control = load({"a": 1, "b": ["s", 2]}, WithHead)
parametrized = load({"b": ["s", 2]}, Only[str, int])
bare = load({"b": ["s", 2]}, Only)
report(
    "d5: bare use of a generic whose only parameter is a TypeVarTuple",
    "bare Only is Only[*tuple[Any, ...]], so b is tuple[Any, ...] and any sequence loads",
    [
        ("control: bare WithHead (TypeVar + TypeVarTuple)", control, control[0] == "ok"),
        ("control: Only[str, int]", parametrized, parametrized[0] == "ok"),
        ("load {'b': ['s', 2]} as bare Only", bare, bare[0] == "ok"),
    ],
)
