"""A generic pydantic model parametrized by the type variable of the enclosing generic dataclass."""
from dataclasses import dataclass
from typing import Generic, TypeVar

from pydantic import BaseModel

# --- helpers ------------------------------------------------------------
from adaptix import Retort
from adaptix.load_error import LoadError


def attempt(func):
    try:
        return ("ok", func())
    except LoadError as e:
        return ("LoadError", type(e).__name__)
    except Exception as e:  # noqa: BLE001
        return ("error", f"{type(e).__name__}: {str(e)[:160]}")


def load(data, tp):
    return attempt(lambda: Retort().load(data, tp))


def dump(obj, tp):
    return attempt(lambda: Retort().dump(obj, tp))


def report(title, meaning, checks):
    """checks: list of (description, observed, is_as_declared)"""
    print(title)
    print("declared meaning:", meaning)
    bad = False
    for desc, observed, good in checks:
        print(f"  [{'as declared' if good else 'DEFECT'}] {desc}: {observed!r}")
        bad = bad or not good
    print("RESULT:", "defect shows" if bad else "no defect")
    raise SystemExit(1 if bad else 0)
# ------------------------------------------------------------------------

T = TypeVar("T")


class Inner(BaseModel, Generic[T]):
    x: T


@dataclass
class Outer(Generic[T]):
    inner: Inner[T]


good = load({"inner": {"x": 1}}, Outer[int])
bad = load({"inner": {"x": "s"}}, Outer[int])
report(
    "d3: pydantic generic `Inner[T]` as a field type of generic dataclass `Outer[T]`",
    "Outer[int].inner is Inner[int], so inner.x is int",
    [
        ("load {'inner': {'x': 1}}", good, good[0] == "ok"),
        ("load {'inner': {'x': 's'}} (fits Inner[str] only)", bad, bad[0] == "LoadError"),
    ],
)
