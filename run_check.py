#!/venv/bin/python
"""Entry point of every MANIFEST command:  run_check.py <Cxx> [--tier quick|thorough] [--replay file]

exit 0: property held on everything explored (KNOWN-FINDING lines allowed)
exit 1: at least one `VIOLATION property=<id> replay=<path>` line
exit 2: framework error (never a verdict)
"""
import argparse
import importlib
import json
import os
import sys
import time

sys.path.insert(0, os.path.dirname(os.path.abspath(__file__)))
from mc import env  # noqa: E402

env.ensure_hashseed()
env.setup_path()

from mc import evidence, findings  # noqa: E402


def main():
    ap = argparse.ArgumentParser()
    ap.add_argument("pid")
    ap.add_argument("--tier", default=os.environ.get("VERIF_TIER") or "quick", choices=["quick", "thorough"])
    ap.add_argument("--replay")
    ap.add_argument("--jobs", type=int, default=0)
    args = ap.parse_args()
    if args.jobs:
        os.environ["VERIF_JOBS"] = str(args.jobs)
    pid = args.pid.upper()
    mod = importlib.import_module(f"checks.{pid.lower()}")

    if args.replay:
        with open(args.replay) as f:
            doc = json.load(f)
        out = mod.replay(doc["case"])
        if out:
            print(f"VIOLATION property={pid} replay={args.replay}")
            print(f"  what: {out}")
            sys.exit(1)
        print(f"replay of {args.replay}: property held")
        sys.exit(0)

    t0 = time.time()
    # stall watchdog of mc.parallel: no shard of a quick tier needs more than a few seconds
    os.environ.setdefault("VERIF_STALL", "300" if args.tier == "quick" else "1500")
    report = mod.run(args.tier)
    problems = mod.SANITY(report, args.tier) if getattr(mod, "SANITY", None) else []
    code, n_fresh, known_hit = findings.verdict(pid, report, args.tier)
    if problems and code == 0:
        # a quiet run that explored too little proves nothing; with violations reported the run is not quiet
        print("FRAMEWORK-ERROR: vacuity guard failed: " + "; ".join(problems), file=sys.stderr)
        sys.exit(2)
    if problems:
        print("note: the vacuity guard failed as well (expected when the code under test is broken): " + "; ".join(problems))
    wall = time.time() - t0
    meta = mod.META
    path = evidence.write(
        pid, args.tier, meta["level"], report,
        rule=meta["rule"], wall_s=wall, assumptions=meta["assumptions"], violations=n_fresh,
        known_hit=known_hit, exhaustive=meta.get("exhaustive", True),
        bound=(meta.get("bound") or {}).get(args.tier), extra=getattr(mod, "extra_evidence", lambda r, t: None)(report, args.tier),
    )
    print(f"{pid} {args.tier}: evaluations={report.evaluations} distinct_nontrivial={len(report.nontrivial)} "
          f"violation_groups={n_fresh} known_findings_hit={len(known_hit)} capped={report.capped} "
          f"wall={wall:.1f}s evidence={path}")
    sys.exit(code)


if __name__ == "__main__":
    try:
        main()
    except SystemExit:
        raise
    except BaseException:  # noqa: BLE001
        # an exception of the machinery itself is never a verdict (Python's default exit status for a traceback is 1)
        import traceback
        traceback.print_exc()
        print("FRAMEWORK-ERROR: the check itself raised", file=sys.stderr)
        sys.exit(2)
