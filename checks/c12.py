"""C12 — a shared retort is safe under concurrent first use.

Stateless exploration of real threads under a controlled scheduler (mc/sched.py): all schedules of 2 (and 3) threads that
race on the first request for the same / mutually recursive types, up to a preemption bound, with scheduling points at
every statement of the shared-access functions (region R1) or at every statement of the six anchored files (region R2).
Oracle: no exception, no deadlock, every result equals the single-threaded result, loaders stay correct afterwards.
"""
import os
import sys
import threading
import time
import types
from dataclasses import dataclass
from typing import List, Optional, Union

from adaptix import ProviderNotFoundError, Retort
from adaptix._internal.code_tools import compiler as _compiler
from adaptix._internal.retort import searching_retort as _searching_retort
from adaptix.conversion import get_converter
from adaptix.load_error import TypeLoadError

from mc import env, parallel, sched
from mc.report import Report

META = {
    "level": "model_checking",
    "rule": (
        "states = scheduling points visited, transitions = context switches, traces = schedules executed on the real threads "
        "(each is by construction a validated trace); all schedules of each harness up to the preemption bound are enumerated "
        "(iterative context bounding); every 50th schedule is executed twice and must reproduce the same point sequence"
    ),
    "assumptions": [
        "interleavings are controlled at Python statement boundaries under the GIL (CPython 3.12); races inside C-level dict "
        "operations or on a free-threaded build are not modelled",
        "region R1 (statements of the shared-access functions) is a sound reduction only while all other statements touch "
        "request-confined state; region R2 (every statement of the six anchored files) is explored at a lower bound",
        "the library's real locks are replaced by cooperative locks with the same mutual-exclusion semantics",
    ],
    "bound": {
        "quick": "R1: preemption bound 2 for H1 H4, bound 1 for H2 H3 H5 H6 H7 H8; R2: bound 0 (all non-preemptive orders)",
        "thorough": "R1: bound 3 for H1 H4, bound 2 for the others; R2: bound 1 for all harnesses",
    },
}

ANCHORED = (
    "morphing/facade/retort.py", "retort/searching_retort.py", "retort/builtin_mediator.py",
    "retort/operating_retort.py", "retort/request_bus.py", "code_tools/compiler.py",
)
# statements that read or write state shared between requests of one retort (or process-wide state):
# the three caches of the facade, the retort-wide call cache, recursion stubs (shared through closures kept in the call
# cache), the file-name counter and linecache.  Everything else works on objects created per top-level request.
R1_FUNCS = {
    "cached_call", "get_loader", "get_dumper", "get_converter", "set_func", "generate_idx", "_compile", "_get_unique_id",
    "_provide_from_recipe",
}
# region R1 additionally contains EVERY function of the files that own retort-wide state, except the ones below, which are
# known to work on per-request objects only and are called once per sub-request (they would only multiply commuting points).
# A function that a change adds to these files is therefore a scheduling region by default.
R1_WHOLE_FILES = ("retort/searching_retort.py", "morphing/facade/retort.py", "conversion/facade/retort.py")
R1_CONFINED = {
    "mediator_factory", "_create_request_bus", "_create_mediator", "_create_no_request_bus_error_maker", "no_request_bus_error_maker",
    "_exception_walk", "_get_exception_cause", "_extract_demonstrative_exc", "_create_recursion_resolver", "trail_rendering_wrapper",
    "load", "dump", "convert", "retort_request_handler", "get_request_handlers", "__init__", "_calculate_derived",
    "_create_request_cls_to_router", "_create_router", "_create_error_representor", "_get_recipe_tail", "_get_recipe_head",
    "_get_full_recipe", "<lambda>", "<genexpr>", "<listcomp>", "<dictcomp>", "<setcomp>",
}
ALL_FILES = (*ANCHORED, "conversion/facade/retort.py")


# ------------------------------------------------------------------------------------------------------------
# models of the harnesses (module level so that forward references resolve)

@dataclass
class Node:
    v: int
    children: List["Node"]


@dataclass
class A:
    x: int
    b: Optional["B"]


@dataclass
class B:
    y: int
    a: Optional["A"]


@dataclass
class Plain:
    a: int
    b: List[str]


@dataclass
class SrcInner:
    p: int


@dataclass
class Src:
    inner: SrcInner
    items: List[SrcInner]


@dataclass
class DstInner:
    p: int


@dataclass
class Dst:
    inner: DstInner
    items: List[DstInner]


NODE_DATA = {"v": 1, "children": [{"v": 2, "children": [{"v": 3, "children": []}]}]}
NODE_OBJ = Node(1, [Node(2, [Node(3, [])])])
A_DATA = {"x": 1, "b": {"y": 2, "a": {"x": 3, "b": None}}}
B_DATA = {"y": 1, "a": {"x": 2, "b": {"y": 3, "a": None}}}
PLAIN_DATA = {"a": 1, "b": ["x"]}
SRC_OBJ = Src(SrcInner(1), [SrcInner(2)])


def _fresh_world():
    """every execution starts from the same process image"""
    env.reset_process_caches()
    _cooperative_locks()


_LOCK_TYPES = (type(threading.Lock()), type(threading.RLock()))


def _cooperative_locks():
    """Every real lock of the library would block the one running thread forever: lock factories imported into library modules
    and lock instances held by module-level objects are found by scanning (not by name) and replaced by cooperative locks whose
    acquire is a scheduling point."""
    for name, mod in list(sys.modules.items()):
        if not (name == "adaptix" or name.startswith("adaptix.")):
            continue
        for attr, val in list(vars(mod).items()):
            if val is threading.Lock or getattr(val, "_verif_coop", None) == "Lock":
                setattr(mod, attr, _coop_lock_factory)
            elif val is threading.RLock or getattr(val, "_verif_coop", None) == "RLock":
                setattr(mod, attr, _coop_rlock_factory)
            elif not isinstance(val, (type, types.ModuleType, types.FunctionType)) and type(val).__module__.startswith("adaptix"):
                # attributes of module-level objects, whether kept in __dict__ or in __slots__
                names = list(getattr(val, "__dict__", {})) + [n for c in type(val).__mro__ for n in getattr(c, "__slots__", ())]
                for a2 in names:
                    v2 = getattr(val, a2, None)
                    if isinstance(v2, (*_LOCK_TYPES, sched.CoopLock)):
                        setattr(val, a2, sched.CoopLock(reentrant=isinstance(v2, _LOCK_TYPES[1]) or getattr(v2, "reentrant", False)))
            elif isinstance(val, _LOCK_TYPES):
                setattr(mod, attr, sched.CoopLock(reentrant=isinstance(val, _LOCK_TYPES[1])))


def _coop_lock_factory():
    return sched.CoopLock()


def _coop_rlock_factory():
    return sched.CoopLock(reentrant=True)


_coop_lock_factory._verif_coop = "Lock"
_coop_rlock_factory._verif_coop = "RLock"


def h1():
    _fresh_world()
    r = Retort()
    body = lambda: repr(r.load(NODE_DATA, Node))  # noqa: E731
    return [body, body], {"retort": r, "post": lambda: [repr(r.load(NODE_DATA, Node)), repr(r.dump(NODE_OBJ, Node))]}


def h2():
    _fresh_world()
    r = Retort()
    return ([lambda: repr(r.load(A_DATA, A)), lambda: repr(r.load(B_DATA, B))],
            {"retort": r, "post": lambda: [repr(r.load(A_DATA, A)), repr(r.load(B_DATA, B))]})


def h3():
    _fresh_world()
    r = Retort()
    got = {}

    def t1():
        got["loader"] = r.get_loader(Node)
        return repr(got["loader"](NODE_DATA))

    def t2():
        return repr(r.dump(NODE_OBJ, Node))

    return [t1, t2], {"retort": r, "post": lambda: [repr(got["loader"](NODE_DATA)), repr(r.load(NODE_DATA, Node)),
                                                     repr(r.dump(NODE_OBJ, Node))]}


def h4():
    _fresh_world()
    r = Retort()
    body = lambda: repr(r.load(PLAIN_DATA, Plain))  # noqa: E731
    return [body, body], {"retort": r, "post": lambda: [repr(r.load(PLAIN_DATA, Plain)), repr(r.dump(Plain(1, ["x"]), Plain))]}


def h5():
    _fresh_world()
    r = Retort()
    body = lambda: repr(r.load(NODE_DATA, Node))  # noqa: E731
    return [body, body, body], {"retort": r, "post": lambda: [repr(r.load(NODE_DATA, Node))]}


def h6():
    _fresh_world()
    from adaptix.conversion import ConversionRetort
    r = ConversionRetort()
    body = lambda: repr(r.get_converter(Src, Dst)(SRC_OBJ))  # noqa: E731
    return [body, body], {"retort": r, "post": lambda: [repr(r.get_converter(Src, Dst)(SRC_OBJ))]}


@dataclass
class Tree:
    name: str
    root: Node


TREE_DATA = {"name": "t", "root": NODE_DATA}


def h7():
    """different but overlapping types: Tree contains the recursive Node, the other thread asks for Node itself"""
    _fresh_world()
    r = Retort()
    return ([lambda: repr(r.load(TREE_DATA, Tree)), lambda: repr(r.load(NODE_DATA, Node))],
            {"retort": r, "post": lambda: [repr(r.load(TREE_DATA, Tree)), repr(r.load(NODE_DATA, Node))]})


def h8():
    """a retort included into another retort: one thread goes through the including retort, the other uses it directly"""
    _fresh_world()
    from adaptix import bound
    inner = Retort()
    outer = Retort(recipe=[bound(Node, inner)])
    return ([lambda: repr(outer.load(NODE_DATA, Node)), lambda: repr(inner.load(NODE_DATA, Node))],
            {"retort": inner, "post": lambda: [repr(outer.load(NODE_DATA, Node)), repr(inner.load(NODE_DATA, Node)),
                                               repr(outer.dump(NODE_OBJ, Node))]})


class NoLoader:
    """no loader can be produced for this class (*args can not be filled from data)"""

    def __init__(self, *args):
        self.args = args


@dataclass
class HoldsNoLoader:
    a: int
    b: NoLoader


def h9():
    """a request that FAILS (ProviderNotFoundError, directly and below a model) next to an ordinary first use: the failure must
    leave the retort usable for the other thread"""
    _fresh_world()
    r = Retort()

    def failing():
        out = []
        for tp in (NoLoader, HoldsNoLoader):
            try:
                r.get_loader(tp)
                out.append("created")
            except ProviderNotFoundError:
                out.append("refused")
        return repr(out)

    assert failing() == "['refused', 'refused']", "the H9 harness must contain requests that fail"
    _fresh_world()
    r = Retort()
    return ([failing, lambda: repr(r.load(NODE_DATA, Node))],
            {"retort": r, "post": lambda: [repr(r.load(NODE_DATA, Node)), failing(), repr(r.dump(NODE_OBJ, Node))]})


class Blob:
    """loadable only below Holder.root.next (a loader bound to that location)"""

    def __init__(self, *args):
        (self.text,) = args

    def __repr__(self):
        return f"Blob({self.text!r})"


def _load_blob(data):
    if isinstance(data, str):
        return Blob(data)
    raise TypeLoadError(str, data)     # a dict must fall through to the Link case of the union (the recursive loader)


@dataclass
class Link:
    value: int
    next: Union["Link", Blob, None] = None


@dataclass
class Holder:
    root: Link


HOLDER_DATA = {"root": {"value": 1, "next": {"value": 2, "next": {"value": 3, "next": "x"}}}}


def h10():
    """a request for a RECURSIVE model that fails after closures holding its recursion stub were cached (Link on its own: Blob
    has no loader there), next to a successful first use of an overlapping type (Holder, below which Blob is loadable): the
    clean-up after the failure must not be observable by the other thread"""
    from adaptix import P, loader

    def world():
        _fresh_world()
        return Retort(recipe=[loader(P[Holder].root.next[Blob], _load_blob)])

    def failing(r):
        try:
            r.get_loader(Link)
            return "created"
        except ProviderNotFoundError:
            return "refused"

    assert failing(world()) == "refused", "the H10 harness must contain a failing request for the recursive model"
    r = world()
    got = {}

    def t2():
        got["loader"] = r.get_loader(Holder)
        return repr(got["loader"](HOLDER_DATA))

    return ([lambda: failing(r), t2],
            {"retort": r, "post": lambda: [repr(got["loader"](HOLDER_DATA)), repr(r.load(HOLDER_DATA, Holder)), failing(r)]})


@dataclass
class Wide:
    a: int
    b: int
    c: List[int]
    d: List[int]
    e: Optional[int]
    f: Optional[int]
    n: Optional[Node]


WIDE_OBJ = Wide(1, 2, [3], [4], 5, None, Node(1, [Node(2, [])]))
WIDE_DATA = {"a": 1, "b": 2, "c": [3], "d": [4], "e": 5, "f": None, "n": {"v": 1, "children": [{"v": 2, "children": []}]}}


def h11():
    """a FAILING loader request next to a first use of a DUMPER (and the other way round) of a model whose creation asks the
    retort-wide call cache for the same keys several times: the clean-up after the failure must not be interleaved with a request
    of another class"""
    _fresh_world()
    r = Retort()

    def failing():
        out = []
        for tp in (HoldsNoLoader, NoLoader):
            try:
                r.get_loader(tp)
                out.append("created")
            except ProviderNotFoundError:
                out.append("refused")
        return repr(out)

    # the dumper thread comes first: one preemption inside its request hands the retort to the failing request
    return ([lambda: repr(r.dump(WIDE_OBJ, Wide)), failing],
            {"retort": r, "post": lambda: [repr(r.dump(WIDE_OBJ, Wide)), repr(r.load(WIDE_DATA, Wide)), failing()]})


HARNESSES = {"H10": h10, "H11": h11, "H1": h1, "H2": h2, "H3": h3, "H4": h4, "H5": h5, "H6": h6, "H7": h7, "H8": h8, "H9": h9}

_EXPECTED = {}


def expected(hname):
    """single-threaded results of the bodies (each on its own fresh retort) and of the post-check"""
    if hname not in _EXPECTED:
        results = []
        bodies, _ = HARNESSES[hname]()
        for i in range(len(bodies)):
            bodies_i, _ = HARNESSES[hname]()
            results.append(("ok", bodies_i[i]()))
        bodies, ctx = HARNESSES[hname]()
        for b in bodies:
            b()
        _EXPECTED[hname] = (results, ctx["post"]())
    return _EXPECTED[hname]


class R1Region(sched.Region):
    def _wants(self, code):
        fn = code.co_filename
        if not fn.startswith(sched.SRC_PREFIX):
            return False
        rel = fn[len(sched.SRC_PREFIX):]
        if rel in R1_WHOLE_FILES:
            return code.co_name not in R1_CONFINED or code.co_name in R1_FUNCS
        return rel in self.files and code.co_name in R1_FUNCS


REGIONS = {
    "R1": lambda: R1Region(ALL_FILES, R1_FUNCS, "R1"),
    "R2": lambda: sched.Region(ANCHORED, None, "R2"),
}


def make_check(hname, rname, bound, report):
    exp_results, exp_post = expected(hname)

    def check(outcome, ex, ctx, prefix):
        schedule = sched.compress(ex.choices)
        case = {"harness": hname, "region": rname, "bound": bound, "schedule": [list(p) for p in schedule]}
        report.case((hname, rname, tuple(schedule)), nontrivial=bool(schedule), sample=case)
        if outcome[0] == "deadlock":
            report.outcome("deadlock")
            report.violation({"check": "C12", "problem": "deadlock"}, f"{hname}/{rname}: deadlock at {outcome[1]} schedule {schedule}", case)
            return
        if outcome[0] == "stuck":
            report.outcome("stuck")
            report.violation({"check": "C12", "problem": "thread_blocked_outside_the_scheduler"},
                             f"{hname}/{rname}: thread {outcome[1]} made no progress for {sched.STEP_TIMEOUT} s (blocked on a lock the "
                             f"other, parked thread holds, or looping): schedule {schedule}", case)
            return
        if outcome[0] == "livelock":
            report.outcome("livelock")
            report.violation({"check": "C12", "problem": "livelock"}, f"{hname}/{rname}: horizon exceeded, schedule {schedule}", case)
            return
        results = outcome[1]
        problems = []
        for i, (got, want) in enumerate(zip(results, exp_results)):
            if got != want:
                problems.append(f"thread {i}: {got} instead of {want}")
        if not problems:
            try:
                post = ctx["post"]()
                if post != exp_post:
                    problems.append(f"later calls give {post} instead of {exp_post}")
            except Exception as e:  # noqa: BLE001
                problems.append(f"later call raised {type(e).__name__}: {str(e)[:100]}")
        key = "ok" if not problems else ("exc:" + results[0][1] if results[0][0] == "exc" else
                                         "exc:" + results[-1][1] if results[-1][0] == "exc" else "differs")
        report.outcome(f"{hname}:{key}")
        if problems:
            exc_classes = sorted({r[1] for r in results if r[0] == "exc"})
            sig = {"check": "C12", "problem": "exception" if exc_classes else "result_differs",
                   "exc": exc_classes[0] if exc_classes else None}
            if any("NoneType' object is not callable" in str(r) for r in results) or \
                    any("NoneType' object is not callable" in p for p in problems):
                sig = {"check": "C12", "problem": "unbound_recursion_stub_called"}
            report.violation(sig, f"{hname}/{rname} schedule {schedule}: " + "; ".join(problems)[:400], case)

    return check


def explore_shard(args):
    hname, rname, bound, root_prefix, deadline = args
    sched.configure(env.adaptix_src())
    report = Report()
    stats = sched.new_stats()
    budget = (lambda: time.time() > deadline) if deadline else None
    sched.explore_subtree(HARNESSES[hname], REGIONS[rname](), bound, root_prefix,
                          make_check(hname, rname, bound, report), stats, budget=budget)
    report.count("states", stats["points"])
    report.count("transitions", stats["switches"])
    report.count("traces_validated_against_impl", stats["executions"])
    report.count("executions_replayed_twice", stats["replayed_twice"])
    report.count(f"executions:{hname}/{rname}/b{bound}", stats["executions"])
    report.outcome(f"max_preemptions_in_a_schedule={stats['max_preemptions']}", 1)
    if stats["capped"]:
        report.capped = True
    return report


PLAN = {
    "quick": [("H1", "R1", 2), ("H4", "R1", 2), ("H2", "R1", 1), ("H3", "R1", 1), ("H5", "R1", 1), ("H6", "R1", 1),
              ("H7", "R1", 1), ("H8", "R1", 1), ("H9", "R1", 1), ("H10", "R1", 1), ("H11", "R1", 1), ("H1", "R2", 0), ("H2", "R2", 0)],
    "thorough": [("H1", "R1", 3), ("H4", "R1", 3), ("H2", "R1", 2), ("H3", "R1", 2), ("H5", "R1", 2), ("H6", "R1", 2),
                 ("H7", "R1", 2), ("H8", "R1", 2), ("H9", "R1", 2), ("H10", "R1", 2), ("H10", "R2", 1), ("H11", "R1", 2), ("H11", "R2", 1),
                 ("H1", "R2", 1), ("H2", "R2", 1), ("H3", "R2", 1), ("H4", "R2", 1), ("H5", "R2", 1), ("H6", "R2", 1),
                 ("H7", "R2", 1), ("H8", "R2", 1), ("H9", "R2", 1)],
}


def run(tier):
    sched.configure(env.adaptix_src())
    report = Report()
    # the thorough exploration stops at its time budget and reports `capped` (VERIF_C12_BUDGET overrides the 3 h default)
    deadline = time.time() + (240 if tier == "quick" else int(os.environ.get("VERIF_C12_BUDGET", "10800")))
    shards = []
    for hname, rname, bound in PLAN[tier]:
        expected(hname)
        # root execution in this process, its first-level children become shards
        bodies, ctx = HARNESSES[hname]()
        ex = sched.Execution(bodies, [], REGIONS[rname](), record_sites=True)
        sub = Report()
        try:
            results = ex.run()
        except sched.Deadlock as e:
            make_check(hname, rname, bound, sub)(("deadlock", repr(e.args[0])[:300]), ex, ctx, [])
            report.merge(sub)
            continue        # the default schedule already fails: nothing to branch from
        except sched.Stuck as e:
            make_check(hname, rname, bound, sub)(("stuck", repr(e.args[0])[:300]), ex, ctx, [])
            report.merge(sub)
            continue
        except sched.HorizonExceeded:
            make_check(hname, rname, bound, sub)(("livelock",), ex, ctx, [])
            report.merge(sub)
            continue
        make_check(hname, rname, bound, sub)(("done", results), ex, ctx, [])
        report.merge(sub)
        report.count("states", len(ex.choices))
        report.count("traces_validated_against_impl", 1)
        report.count(f"points_per_execution:{hname}/{rname}", len(ex.choices))
        for child in sched.children_of(ex, 0, bound):
            shards.append((hname, rname, bound, child, deadline))
    shards.sort(key=lambda s: -len(s[3]))
    parallel.run_shards(explore_shard, shards, report=report)
    return report


def SANITY(report, tier):  # noqa: N802
    problems = []
    if report.counters["traces_validated_against_impl"] < 500:
        problems.append("fewer than 500 schedules executed")
    if report.counters["executions_replayed_twice"] < 5:
        problems.append("determinism proof ran fewer than 5 times")
    if report.counters["transitions"] < 500:
        problems.append("hardly any context switch explored")
    return problems


def extra_evidence(report, tier):
    return {
        "states": report.counters["states"],
        "transitions": report.counters["transitions"],
        "traces_validated_against_impl": report.counters["traces_validated_against_impl"],
        "plan": [list(p) for p in PLAN[tier]],
    }


def replay(case):
    sched.configure(env.adaptix_src())
    hname, rname = case["harness"], case["region"]
    expected(hname)
    report = Report()
    bodies, ctx = HARNESSES[hname]()
    prefix = sched.expand([tuple(p) for p in case["schedule"]])
    ex = sched.Execution(bodies, prefix, REGIONS[rname](), record_sites=True)
    try:
        results = ex.run()
        outcome = ("done", results)
    except sched.Deadlock as e:
        outcome = ("deadlock", repr(e.args[0]))
    except sched.Stuck as e:
        outcome = ("stuck", repr(e.args[0]))
    make_check(hname, rname, case.get("bound", 0), report)(outcome, ex, ctx, prefix)
    for v in report.violations.values():
        return v["what"]
    return None
