"""C10 — predicates (types, strings, P patterns and combinators) match as documented.

Three legs, all exhaustive over explicitly listed spaces:

pred      every predicate expression of the grammar below x every location stack up to the tier's depth:
          adaptix.create_loc_stack_checker(expr).check_loc_stack(mediator, stack), evaluated twice on the same checker object,
          compared with the denotational semantics of mc/ref_pred.py (written from the "Predicate system" section of the tutorial)
identity  the four documented facts about P as pointwise equality of the two sides on all stacks (implementation against
          implementation, the reference is not involved)
e2e       Retort(recipe=[loader(expr, Mark)]) / dumper / bound(expr, loader(int, Mark)) on the dataclass models A, B(A), C whose
          fields carry the probed names and types: the marker must be applied exactly at the locations whose stack satisfies the
          reference meaning of the expression

Expression space (surface syntax; see `expression_space`):
  nesting 0  every raw predicate (10 classes, 3 parametrised hints, 4 identifiers, 3 regex strings), P[raw], P.name, P[r1, r2] over
             all ordered pairs of 6 raws and two 3-ary tuples, P.ANY, P.generic_arg(pos, raw), ALL chains of length 2 over a
             12-element alphabet and ALL chains of length 3 over a 5-element alphabet (P[A].a, P.a[int], P[C].a[A] ...)
  nesting 1  ~p for every pattern p of nesting 0; p|q, p&q, p^q for all ordered pairs over the 29 MID patterns; p+q for all ordered
             pairs of MID patterns that are P patterns
  nesting 2  over the 6 CORE patterns: ~e, e op c, c op e, e + c, c + e, e.a, e[int] for every nesting-1 expression e over CORE and
             every CORE pattern c; over the 3 CORE3 patterns additionally e op e' for every pair of nesting-1 expressions
             (the complete expression trees of height 2)
"""
import itertools
import linecache

from adaptix import P, Request, Retort, bound, create_loc_stack_checker, dumper, loader
from adaptix._internal.model_tools.definitions import NoDefault, create_attr_accessor
from adaptix._internal.provider.loc_stack_filtering import LocStack
from adaptix._internal.provider.location import GenericParamLoc, InputFieldLoc, OutputFieldLoc, TypeHintLoc

from mc import parallel, ref_pred
from mc.ref_pred import MODEL_FIELDS, NAMES, TYPES, Mark
from mc.report import Report

META = {
    "level": "exploration",
    "rule": (
        "every expression of the stated grammar (nesting <= 2 over the atom universe) x every location stack up to the tier's "
        "depth over the location alphabet; one case = one expression evaluated on all stacks (twice per stack on the same "
        "checker object); an expression is non-trivial when it is neither constantly True nor constantly False on the stacks; "
        "identities: both sides on all stacks; e2e: one case = (expression, top type, loader|dumper|bound), non-trivial when the "
        "marker is applied somewhere below the top location"
    ),
    "assumptions": [
        "class predicate on a location whose type is parametrised compares the origin (List[int] is 'the same type' as list); "
        "parametrised hint as predicate = equal normal form (List[int] == list[int] != List[str])",
        "generic_arg(pos, pred) is a public but undocumented method of P; its meaning is taken from its name and signature",
        "P.ANY matches every stack (named in the changelog only)",
        "combinators are applied to P patterns and P.ANY only (the documentation promises them for P; `int | str` is a Union)",
        "a combined pattern extended by .name/[x]/+ is read compositionally: the combination is one path element",
        "stacks deeper than the bound, expressions nested deeper than 2 and types outside the 13-type universe are not explored",
        "the mediator argument is a real BuiltinMediator obtained like the repo's own tests do (Retort()._create_mediator)",
    ],
    "bound": {
        "quick": "all expressions x all stacks of length <= 2 over the 47-location alphabet; e2e over nesting <= 1",
        "thorough": "quick space + all stacks of length 3 over the 27-location alphabet of location_alphabet(depth3=True); e2e over all expressions",
    },
}

HINT = {name: d.hint for name, d in TYPES.items()}

# ---------------------------------------------------------------------------------------------------------------
# atoms

CLASSES = ["int", "bool", "str", "A", "B", "C", "Sequence", "list", "SupportsInt", "Proto", "Impl"]
HINTS = ["List[int]", "list[int]", "List[str]"]
REGEXES = ["a|b", "a.*", "a."]
RAW = [("cls", t) for t in CLASSES + HINTS] + [("str", s) for s in NAMES + REGEXES]
PP = ("P",)


def cls(t):
    return ("cls", t)


def txt(s):
    return ("str", s)


def element(pat, el):
    """extend a pattern by one path element written in its natural syntax"""
    if el[0] == "str" and el[1].isidentifier():
        return ("attr", pat, el[1])
    if el[0] in ("cls", "str"):
        return ("item", pat, el)
    if el[0] == "garg":
        return ("garg", pat, el[1], el[2])
    if el[0] == "tuple":
        return ("items", pat, list(el[1]))
    raise ValueError(el)


def chain(*els):
    pat = PP
    for el in els:
        pat = element(pat, el)
    return pat


TUPLE_RAWS = [cls("int"), cls("A"), cls("B"), cls("Sequence"), txt("a"), txt("a|b")]
CHAIN2_ELEMENTS = [cls("int"), cls("A"), cls("B"), cls("C"), cls("list"), cls("Sequence"), cls("List[int]"),
                   txt("a"), txt("ab"), txt("a|b"), ("garg", 0, cls("int")), ("tuple", (cls("A"), cls("B")))]
CHAIN3_ELEMENTS = [cls("A"), cls("C"), cls("int"), txt("a"), txt("b")]
GARG_RAWS = [cls("int"), cls("A"), cls("List[int]"), cls("Sequence")]

MID = (
    [("item", PP, cls(t)) for t in CLASSES + HINTS]
    + [("attr", PP, n) for n in NAMES]
    + [("item", PP, txt(s)) for s in REGEXES]
    + [("items", PP, [cls("A"), cls("B")]), ("items", PP, [cls("int"), txt("a")])]
    + [("ANY",)]
    + [chain(cls("A"), txt("a")), chain(cls("C"), txt("a"), cls("A")), chain(cls("list"), cls("int")), chain(txt("a"), txt("b"))]
    + [("garg", PP, 0, cls("int")), chain(cls("list"), ("garg", 0, cls("int")))]
)
CORE = [("item", PP, cls("int")), ("item", PP, cls("Sequence")), ("attr", PP, "a"), ("item", PP, txt("a|b")),
        chain(cls("A"), txt("a")), ("ANY",)]
CORE3 = [("item", PP, cls("A")), ("attr", PP, "a"), ("ANY",)]
BIN_OPS = ["or", "and", "xor"]


def is_pattern(e):
    """does the expression evaluate to a P pattern (extendable by + . [])? P.ANY and ~P.ANY are plain checkers"""
    tag = e[0]
    if tag in ("attr", "item", "items", "garg", "add"):
        return True
    if tag == "not":
        return is_pattern(e[1])
    if tag in BIN_OPS:
        return is_pattern(e[1]) or is_pattern(e[2])
    return False


def nesting0():
    out = list(RAW)
    out += [("item", PP, r) for r in RAW]
    out += [("attr", PP, n) for n in NAMES]
    out += [("items", PP, [r1, r2]) for r1 in TUPLE_RAWS for r2 in TUPLE_RAWS]
    out += [("items", PP, [cls("int"), cls("bool"), cls("str")]), ("items", PP, [txt("a"), cls("A"), txt("a.")])]
    out += [("ANY",)]
    out += [("garg", PP, pos, r) for pos in (0, 1) for r in GARG_RAWS]
    out += [chain(e1, e2) for e1 in CHAIN2_ELEMENTS for e2 in CHAIN2_ELEMENTS]
    out += [chain(e1, e2, e3) for e1 in CHAIN3_ELEMENTS for e2 in CHAIN3_ELEMENTS for e3 in CHAIN3_ELEMENTS]
    out += [chain(cls("C"), txt("b"), cls("B"), txt("ab")), chain(cls("C"), txt("b"), cls("B"), txt("a_1"), cls("int"))]
    return out


def level1(atoms, with_add=True):
    out = [("not", p) for p in atoms]
    out += [(op, p, q) for op in BIN_OPS for p in atoms for q in atoms]
    if with_add:
        out += [("add", p, q) for p in atoms for q in atoms if is_pattern(p) and is_pattern(q)]
    return out


def nesting1(n0):
    out = [("not", p) for p in n0 if p[0] not in ("cls", "str")]
    seen = set(map(repr, out))
    for e in level1(MID):
        if repr(e) not in seen:
            out.append(e)
    return out


def nesting2():
    out = []
    l1_core = level1(CORE)
    for e in l1_core:
        out.append(("not", e))
        for c in CORE:
            for op in BIN_OPS:
                out.append((op, e, c))
                out.append((op, c, e))
            if is_pattern(e) and is_pattern(c):
                out.append(("add", e, c))
                out.append(("add", c, e))
        if is_pattern(e):
            out.append(("attr", e, "a"))
            out.append(("item", e, cls("int")))
    l1_core3 = level1(CORE3)
    for e1 in l1_core3:
        for e2 in l1_core3:
            for op in BIN_OPS:
                out.append((op, e1, e2))
            if is_pattern(e1) and is_pattern(e2):
                out.append(("add", e1, e2))
    return out


def dedup(exprs):
    seen, out = set(), []
    for e in exprs:
        k = repr(e)
        if k not in seen:
            seen.add(k)
            out.append(e)
    return out


_EXPRS = {}


def expression_space():
    """[(nesting, expr)] simplest first, syntactic duplicates removed"""
    if not _EXPRS:
        n0 = dedup(nesting0())
        n1 = [e for e in dedup(nesting1(n0)) if repr(e) not in set(map(repr, n0))]
        known = set(map(repr, n0)) | set(map(repr, n1))
        n2 = [e for e in dedup(nesting2()) if repr(e) not in known]
        _EXPRS["all"] = [(0, e) for e in n0] + [(1, e) for e in n1] + [(2, e) for e in n2]
    return _EXPRS["all"]


# ---------------------------------------------------------------------------------------------------------------
# locations and stacks

def location_alphabet(depth3=False):
    """reference-side locations (kind, type name, extra); no predicate can tell an input field from an output field, so the
    output fields carry a smaller set of types"""
    if depth3:
        t_types = ["int", "bool", "A", "B", "C", "list", "Sequence", "List[int]", "List[str]", "SupportsInt", "Proto"]
        i_fields = [(n, t) for n in NAMES for t in ("int", "A")] + [("a", "B"), ("ab", "List[int]")]
        o_fields = [("a", "int"), ("b", "B"), ("a_1", "list[int]")]
        g_params = [(0, "int"), (1, "int"), (0, "A")]
    else:
        t_types = list(TYPES)
        i_fields = [(n, t) for n in NAMES for t in ("int", "A", "B", "List[int]")]
        o_fields = [(n, t) for n in NAMES for t in ("int", "list[int]")] + [("a", "bool"), ("b", "B"), ("ab", "Sequence"),
                                                                            ("a_1", "List[str]")]
        g_params = [(pos, t) for pos in (0, 1) for t in ("int", "A", "List[int]")]
    return (
        [("T", t, None) for t in t_types]
        + [("I", t, n) for n, t in i_fields]
        + [("O", t, n) for n, t in o_fields]
        + [("G", t, pos) for pos, t in g_params]
    )


def real_location(loc):
    kind, tname, extra = loc
    tp = HINT[tname]
    if kind == "T":
        return TypeHintLoc(type=tp)
    if kind == "I":
        return InputFieldLoc(type=tp, field_id=extra, default=NoDefault(), metadata={}, is_required=True)
    if kind == "O":
        return OutputFieldLoc(type=tp, field_id=extra, default=NoDefault(), metadata={},
                              accessor=create_attr_accessor(extra, is_required=True))
    if kind == "G":
        return GenericParamLoc(type=tp, generic_pos=extra)
    raise ValueError(loc)


def real_stack(stack):
    return LocStack(*[real_location(tuple(loc)) for loc in stack])


_STACKS = {}


def stack_space(tier):
    """[(reference stack, real LocStack)] simplest first"""
    if tier not in _STACKS:
        locs = location_alphabet()
        ref_stacks = [(a,) for a in locs] + [(a, b) for a in locs for b in locs]
        if tier == "thorough":
            locs3 = location_alphabet(depth3=True)
            ref_stacks += list(itertools.product(locs3, repeat=3))
        real = {loc: real_location(loc) for loc in {*location_alphabet(), *location_alphabet(depth3=True)}}
        _STACKS[tier] = [(s, LocStack(*[real[loc] for loc in s])) for s in ref_stacks]
    return _STACKS[tier]


class _StubRequest(Request):
    pass


_MEDIATOR = []


def mediator():
    if not _MEDIATOR:
        _MEDIATOR.append(Retort()._create_mediator(_StubRequest()))
    return _MEDIATOR[0]


# ---------------------------------------------------------------------------------------------------------------
# expression -> real predicate object; rendering; forms

def build(e):  # noqa: C901, PLR0911
    tag = e[0]
    if tag == "cls":
        return HINT[e[1]]
    if tag == "str":
        return e[1]
    if tag == "P":
        return P
    if tag == "ANY":
        return P.ANY
    if tag == "attr":
        return getattr(build(e[1]), e[2])
    if tag == "item":
        return build(e[1])[build(e[2])]
    if tag == "items":
        return build(e[1])[tuple(build(r) for r in e[2])]
    if tag == "garg":
        return build(e[1]).generic_arg(e[2], build(e[3]))
    if tag == "add":
        return build(e[1]) + build(e[2])
    if tag == "or":
        return build(e[1]) | build(e[2])
    if tag == "and":
        return build(e[1]) & build(e[2])
    if tag == "xor":
        return build(e[1]) ^ build(e[2])
    if tag == "not":
        return ~build(e[1])
    raise ValueError(e)


_PREC = {"or": 1, "xor": 2, "and": 3, "add": 4, "not": 5}
_SYM = {"or": "|", "xor": "^", "and": "&", "add": "+"}


def show(e, parent=0):
    tag = e[0]
    if tag == "cls":
        return e[1]
    if tag == "str":
        return repr(e[1])
    if tag == "P":
        return "P"
    if tag == "ANY":
        return "P.ANY"
    if tag in ("attr", "item", "items", "garg"):
        base = show(e[1], 6)
        if tag == "attr":
            return f"{base}.{e[2]}"
        if tag == "item":
            return f"{base}[{show(e[2])}]"
        if tag == "items":
            return f"{base}[{', '.join(show(r) for r in e[2])}]"
        return f"{base}.generic_arg({e[2]}, {show(e[3])})"
    prec = _PREC[tag]
    if tag == "not":
        text = "~" + show(e[1], prec)
    else:
        text = f"{show(e[1], prec)} {_SYM[tag]} {show(e[2], prec + 1)}"
    return f"({text})" if prec < parent else text


def form(e):  # noqa: PLR0911
    """syntactic form of the root of an expression"""
    tag = e[0]
    if tag == "cls":
        kind = TYPES[e[1]].kind
        return "hint" if kind == "parametrized" else f"class.{kind}"
    if tag == "str":
        return "str.identifier" if e[1].isidentifier() else "str.regex"
    if tag == "ANY":
        return "P.ANY"
    if tag in ("attr", "item", "items", "garg") and tuple(e[1]) == PP:
        if tag == "attr":
            return "P.name"
        if tag == "items":
            return "P[,]"
        if tag == "garg":
            return "P.generic_arg"
        return {"cls": "P[hint]" if TYPES.get(e[2][1]) and TYPES[e[2][1]].kind == "parametrized" else "P[class]",
                "str": "P[str]"}[e[2][0]]
    if tag in ("attr", "item", "items", "garg"):
        return "chain" if e[1][0] in ("attr", "item", "items", "garg") else "extended-combination"
    return {"add": "+", "or": "|", "and": "&", "xor": "^", "not": "~"}[tag]


def to_tuple(x):
    if isinstance(x, (list, tuple)):
        return tuple(to_tuple(i) for i in x)
    return x


# ---------------------------------------------------------------------------------------------------------------
# leg 1: expression x stack

def evaluate_expression(nesting, e, stacks, report):
    frm = form(e)
    case = {"leg": "pred", "expr": e}
    try:
        checker = create_loc_stack_checker(build(e))
    except Exception as exc:  # noqa: BLE001
        report.case(("pred", repr(e)), nontrivial=False)
        report.outcome(f"pred:{frm}:construction-error")
        report.violation({"check": "C10.pred", "form": frm, "problem": f"construction raised {type(exc).__name__}"},
                         f"{show(e)}: {type(exc).__name__}: {exc}"[:300], case)
        return
    want_fn = ref_pred.compile_expr(e)
    check = checker.check_loc_stack
    med = mediator()
    n_true = 0
    n_bad = 0
    for ref_stack, stack in stacks:
        want = want_fn(ref_stack)
        try:
            got1 = check(med, stack)
            got2 = check(med, stack)
        except Exception as exc:  # noqa: BLE001
            report.violation({"check": "C10.pred", "form": frm, "problem": f"evaluation raised {type(exc).__name__}"},
                             f"{show(e)} on {show_stack(ref_stack)}: {type(exc).__name__}: {exc}"[:300],
                             {**case, "stack": ref_stack})
            n_bad += 1
            continue
        if want:
            n_true += 1
        if got1 != want or got2 != want:
            n_bad += 1
            if got1 != got2:
                problem = "second evaluation of the same checker on the same stack differs from the first"
            elif want:
                problem = "implementation False, semantics True"
            else:
                problem = "implementation True, semantics False"
            report.violation({"check": "C10.pred", "form": frm, "problem": problem},
                             f"{show(e)} on {show_stack(ref_stack)}: check_loc_stack gave {got1!r} then {got2!r}, "
                             f"documented meaning gives {want!r}",
                             {**case, "stack": ref_stack})
    n = len(stacks)
    report.case(("pred", repr(e)), nontrivial=0 < n_true < n, n=n,
                sample=lambda: {"leg": "pred", "expr": show(e), "nesting": nesting, "stacks": n, "matching": n_true})
    report.count("pred.pairs", n)
    report.count("pred.checker_calls", 2 * n)
    report.count(f"pred.expressions.nesting{nesting}", 1)
    report.outcome(f"pred:{frm}:True", n_true)
    report.outcome(f"pred:{frm}:False", n - n_true)
    if n_bad:
        report.outcome("pred:expressions-with-disagreement")


def show_stack(stack):
    parts = []
    for kind, tname, extra in stack:
        if kind == "T":
            parts.append(f"TypeHintLoc({tname})")
        elif kind == "G":
            parts.append(f"GenericParamLoc({tname}, {extra})")
        else:
            parts.append(f"{'Input' if kind == 'I' else 'Output'}FieldLoc({tname}, {extra!r})")
    return "[" + ", ".join(parts) + "]"


def shard_pred(args):
    tier, start, stop = args
    report = Report()
    exprs = expression_space()
    stacks = stack_space(tier)
    for nesting, e in exprs[start:stop]:
        evaluate_expression(nesting, e, stacks, report)
    return report


# ---------------------------------------------------------------------------------------------------------------
# leg 1b: pattern objects that were already USED (turned into a checker, evaluated) before they are extended or combined —
# `book = P[Book]; name_mapping(book, ...); loader(book.title, ...)` — and leg 1c: facade functions taking several predicates

_PATTERN_TAGS = ("P", "attr", "item", "items", "garg", "add")


def build_used(e, med, stack):
    """like build(), but every pattern sub-object is used as a predicate before its parent extends or combines it"""
    tag = e[0]
    if tag in ("cls", "str", "P", "ANY"):
        return build(e)

    def sub(x):
        obj = build_used(x, med, stack)
        if x[0] in _PATTERN_TAGS[1:] or x[0] in ("or", "and", "xor", "not"):
            create_loc_stack_checker(obj).check_loc_stack(med, stack)       # the use
        return obj
    if tag == "attr":
        return getattr(sub(e[1]), e[2])
    if tag == "item":
        return sub(e[1])[build(e[2])]
    if tag == "items":
        return sub(e[1])[tuple(build(r) for r in e[2])]
    if tag == "garg":
        return sub(e[1]).generic_arg(e[2], build(e[3]))
    if tag == "add":
        return sub(e[1]) + sub(e[2])
    if tag == "or":
        return sub(e[1]) | sub(e[2])
    if tag == "and":
        return sub(e[1]) & sub(e[2])
    if tag == "xor":
        return sub(e[1]) ^ sub(e[2])
    if tag == "not":
        return ~sub(e[1])
    raise ValueError(e)


def shard_used(args):
    tier, start, stop = args
    report = Report()
    exprs = [(n, e) for n, e in expression_space() if n >= 1]
    stacks = stack_space(tier)
    med = mediator()
    probe_stack = stacks[0][1]
    for nesting, e in exprs[start:stop]:
        case = {"leg": "pred_used", "expr": e}
        try:
            checker = create_loc_stack_checker(build_used(e, med, probe_stack))
        except Exception:  # noqa: BLE001
            continue        # construction errors are the subject of the main leg
        want_fn = ref_pred.compile_expr(e)
        bad = None
        for ref_stack, stack in stacks[::7]:
            report.evaluations += 1
            got, want = checker.check_loc_stack(med, stack), want_fn(ref_stack)
            if got != want and bad is None:
                bad = (ref_stack, got, want)
        report.case(("pred_used", repr(e)), nontrivial=True, sample=lambda: {"leg": "pred_used", "expr": show(e)})
        report.outcome("pred_used:" + ("differs" if bad else "agrees"))
        if bad:
            report.violation({"check": "C10.pred_used", "form": form(e)},
                             f"{show(e)} built from pattern objects that were used as predicates before being extended: on "
                             f"{show_stack(bad[0])} the checker gives {bad[1]!r}, the documented meaning gives {bad[2]!r}",
                             {**case, "stack": bad[0]})
    return report


def shard_facade(args):
    """allow_unlinked_optional(p1, .., pn) is a provider bound to 'any of the predicates' (the wrapped provider has no condition
    of its own): its request checker must be the pointwise OR on every stack, at every evaluation (the stacks are evaluated in
    sequence on ONE provider object)"""
    from adaptix._internal.conversion.request_cls import UnlinkedOptionalPolicyRequest as LoaderRequest
    from adaptix.conversion import allow_unlinked_optional as enum_by_exact_value
    tier, start, stop = args
    report = Report()
    atoms = [e for n, e in expression_space() if n == 0]
    combos = [(a, b) for a in atoms for b in atoms][::5] + [(a, b, c) for a in atoms[::9] for b in atoms[::7] for c in atoms[::11]]
    stacks = stack_space(tier)
    med = mediator()
    for combo in combos[start:stop]:
        case = {"leg": "facade_any", "exprs": list(combo)}
        try:
            provider = enum_by_exact_value(*[build(e) for e in combo])
            checkers = [chk for req_cls, chk, _ in provider.get_request_handlers() if req_cls is LoaderRequest]
        except Exception:  # noqa: BLE001
            continue
        wants = [ref_pred.compile_expr(e) for e in combo]
        bad = None
        for rnd in (0, 1):
            for ref_stack, stack in stacks[rnd::11]:
                report.evaluations += 1
                want = any(w(ref_stack) for w in wants)
                got = all(chk.check_request(med, LoaderRequest(loc_stack=stack)) for chk in checkers)
                if got != want and bad is None:
                    bad = (ref_stack, got, want, rnd)
        report.case(("facade_any", repr(combo)), nontrivial=True, sample=lambda: {"leg": "facade_any", "exprs": [show(e) for e in combo]})
        report.outcome("facade_any:" + ("differs" if bad else "agrees"))
        if bad:
            report.violation({"check": "C10.facade_any", "n": len(combo)},
                             f"allow_unlinked_optional({', '.join(show(e) for e in combo)}) on {show_stack(bad[0])} (pass {bad[3]}): request "
                             f"checker gives {bad[1]!r}, 'any of the predicates' gives {bad[2]!r}", {**case, "stack": bad[0]})
    return report


# ---------------------------------------------------------------------------------------------------------------
# leg 2: the documented identities, implementation against implementation

def identities():
    """[(name, lhs, rhs)]"""
    out = []
    for n in NAMES:
        out.append(("P['n'] == P.n", ("item", PP, txt(n)), ("attr", PP, n)))
        out.append(("P[A]['n'] == P[A].n", ("item", ("item", PP, cls("A")), txt(n)), ("attr", ("item", PP, cls("A")), n)))
    for r in RAW:
        out.append(("P[A] == A", ("item", PP, r), r))
    for t in CLASSES + HINTS:
        for n in NAMES:
            out.append(("P[A] + P.n == P[A].n", ("add", ("item", PP, cls(t)), ("attr", PP, n)),
                        ("attr", ("item", PP, cls(t)), n)))
    for r1 in RAW:
        for r2 in RAW:
            out.append(("P[A, B] == P[A] | P[B]", ("items", PP, [r1, r2]), ("or", ("item", PP, r1), ("item", PP, r2))))
    for r1, r2, r3 in [(cls("int"), cls("bool"), cls("str")), (txt("a"), cls("A"), txt("a.")), (cls("A"), cls("B"), cls("C"))]:
        out.append(("P[A, B, C] == P[A] | P[B] | P[C]", ("items", PP, [r1, r2, r3]),
                    ("or", ("or", ("item", PP, r1), ("item", PP, r2)), ("item", PP, r3))))
    # the same facts one level down a path
    for r1 in TUPLE_RAWS:
        for r2 in TUPLE_RAWS:
            out.append(("P[C][A, B] == P[C][A] | P[C][B]", ("items", ("item", PP, cls("C")), [r1, r2]),
                        ("or", ("item", ("item", PP, cls("C")), r1), ("item", ("item", PP, cls("C")), r2))))
    return out


def check_identity(name, lhs, rhs, stacks, report):
    case = {"leg": "identity", "name": name, "lhs": lhs, "rhs": rhs}
    try:
        left = create_loc_stack_checker(build(lhs)).check_loc_stack
        right = create_loc_stack_checker(build(rhs)).check_loc_stack
    except Exception as exc:  # noqa: BLE001
        report.case(("identity", repr(lhs), repr(rhs)))
        report.violation({"check": "C10.identity", "form": name, "problem": f"construction raised {type(exc).__name__}"},
                         f"{show(lhs)} / {show(rhs)}: {type(exc).__name__}: {exc}"[:300], case)
        return
    med = mediator()
    # the reference is used for the non-vacuity statistics only (does the documented meaning of the left side separate the
    # stacks?); the verdict compares implementation with implementation
    meaning = ref_pred.compile_expr(lhs)
    n_true = 0
    for ref_stack, stack in stacks:
        n_true += bool(meaning(ref_stack))
        try:
            a1, b1 = left(med, stack), right(med, stack)
            a2, b2 = left(med, stack), right(med, stack)
        except Exception as exc:  # noqa: BLE001
            report.violation({"check": "C10.identity", "form": name, "problem": f"evaluation raised {type(exc).__name__}"},
                             f"{show(lhs)} / {show(rhs)} on {show_stack(ref_stack)}: {type(exc).__name__}: {exc}"[:300],
                             {**case, "stack": ref_stack})
            continue
        if not (a1 == b1 == a2 == b2):
            report.violation({"check": "C10.identity", "form": name, "problem": "the two sides differ on a stack"},
                             f"{show(lhs)} gives {a1!r}/{a2!r} but {show(rhs)} gives {b1!r}/{b2!r} on {show_stack(ref_stack)}",
                             {**case, "stack": ref_stack})
    n = len(stacks)
    report.case(("identity", repr(lhs), repr(rhs)), nontrivial=0 < n_true < n, n=n,
                sample=lambda: {"leg": "identity", "lhs": show(lhs), "rhs": show(rhs), "stacks": n, "matching": n_true})
    report.count("identity.pairs", n)
    report.count("identity.instances", 1)
    report.outcome(f"identity:{name}:True", n_true)
    report.outcome(f"identity:{name}:False", n - n_true)


def shard_identity(args):
    tier, start, stop = args
    report = Report()
    stacks = stack_space(tier)
    for name, lhs, rhs in identities()[start:stop]:
        check_identity(name, lhs, rhs, stacks, report)
    return report


# ---------------------------------------------------------------------------------------------------------------
# leg 3: end to end through Retort

E2E_TOPS = ["C", "B", "List[int]", "int"]
LOAD_DATA = {
    "C": {"a": {"a": 1, "b": "x"}, "b": {"a": 2, "b": "y", "ab": True, "a_1": [3, 4]}, "ab": ["p", "q"], "a_1": [5]},
    "B": {"a": 2, "b": "y", "ab": True, "a_1": [3, 4]},
    "List[int]": [6, 7],
    "int": 8,
}
DUMP_VALUES = {
    "C": ref_pred.C(a=ref_pred.A(1, "x"), b=ref_pred.B(2, "y", True, [3, 4]), ab=["p", "q"], a_1=[5]),
    "B": ref_pred.B(2, "y", True, [3, 4]),
    "List[int]": [6, 7],
    "int": 8,
}
E2E_MODES = [("loader", top) for top in E2E_TOPS] + [("dumper", top) for top in E2E_TOPS] + [("bound", "C")]


def e2e_case(e, mode, top, report):
    frm = form(e)
    case = {"leg": "e2e", "expr": e, "mode": mode, "top": top}
    want_fn = ref_pred.compile_expr(e)
    if mode == "bound":
        int_fn = ref_pred.compile_expr(cls("int"))
        pred_fn = want_fn

        def want_fn(stack):
            return pred_fn(stack) and int_fn(stack)
    call = f"bound({show(e)}, loader(int, Mark))" if mode == "bound" else f"{mode}({show(e)}, Mark)"
    root = (("T", top, None),)
    direction = "O" if mode == "dumper" else "I"
    visited = list(ref_pred.walk_stacks(top, direction))
    hits = [s for s in visited if want_fn(s)]
    if mode == "dumper":
        want = ref_pred.ref_dump(want_fn, top, DUMP_VALUES[top], root)
    else:
        want = ref_pred.ref_load(want_fn, top, LOAD_DATA[top], root)
    try:
        pred = build(e)
        if mode == "loader":
            got = Retort(recipe=[loader(pred, Mark)]).load(LOAD_DATA[top], HINT[top])
        elif mode == "dumper":
            got = Retort(recipe=[dumper(pred, Mark)]).dump(DUMP_VALUES[top], HINT[top])
        else:
            got = Retort(recipe=[bound(pred, loader(int, Mark))]).load(LOAD_DATA[top], HINT[top])
    except Exception as exc:  # noqa: BLE001
        report.case(("e2e", repr(e), mode, top))
        report.violation({"check": "C10.e2e", "form": frm, "problem": f"{mode}: raised {type(exc).__name__}"},
                         f"{call} on {top}: {type(exc).__name__}: {exc}"[:300], case)
        return
    marked_top = want_fn(root)
    report.case(("e2e", repr(e), mode, top), nontrivial=bool(hits) and not marked_top,
                sample=lambda: {"leg": "e2e", "expr": show(e), "mode": mode, "top": top, "result": repr(got)[:200]})
    report.count("e2e.cases", 1)
    report.count("e2e.locations_visited_by_reference", len(visited))
    report.outcome("e2e:marker-at-top" if marked_top else ("e2e:marker-below-top" if hits else "e2e:marker-nowhere"))
    if repr(got) != repr(want) or got != want:
        report.violation(
            {"check": "C10.e2e", "form": frm, "problem": f"{mode}: marker applied at other locations than the predicate matches"},
            f"{call} on {top}: got {got!r}, the documented meaning of the predicate gives {want!r}"[:600], case)


def shard_e2e(args):
    tier, start, stop = args
    report = Report()
    exprs = e2e_expressions(tier)
    for i, e in enumerate(exprs[start:stop]):
        for mode, top in E2E_MODES:
            e2e_case(e, mode, top, report)
        if i % 50 == 49:
            linecache.clearcache()
    return report


def e2e_expressions(tier):
    limit = 2 if tier == "thorough" else 1
    return [e for nesting, e in expression_space() if nesting <= limit]


# ---------------------------------------------------------------------------------------------------------------

def _ranges(n, size):
    return [(i, min(n, i + size)) for i in range(0, n, size)]


COMPILED = [("A", "I"), ("a|B", "I"), ("a", ""), ("A_1", "I"), ("a b", "X"), ("AB", "I"), ("a.*", "I"), ("B", "")]


def compiled_patterns_leg(tier, report):
    """predicates given as COMPILED regular expressions (with flags): a field is matched iff the pattern, flags included, fully
    matches its id - as the bare predicate, as P[pattern] and as one alternative of P[pattern, 'b']"""
    import re
    stacks = stack_space(tier)
    med = mediator()
    for text, flags in COMPILED:
        flag_value = 0
        for f in flags:
            flag_value |= getattr(re, f)
        rx = re.compile(text, flag_value)

        def means(ref_stack, extra=None, rx=rx):
            loc = ref_stack[-1]
            return loc[0] in ("I", "O") and (rx.fullmatch(loc[2]) is not None or loc[2] == extra)
        for form, pred, extra in (("bare", rx, None), ("P[rx]", P[rx], None), ("P[rx,'b']", P[rx, "b"], "b"), ("~P[rx]", ~P[rx], None)):
            case = {"leg": "compiled", "pattern": text, "flags": flags, "form": form}
            try:
                checker = create_loc_stack_checker(pred)
            except Exception as e:  # noqa: BLE001
                report.violation({"check": "C10.compiled", "problem": "construction", "form": form},
                                 f"re.compile({text!r}, {flags or 0}) as {form}: {type(e).__name__}: {e}"[:250], case)
                continue
            n_true = 0
            bad = None
            for ref_stack, stack in stacks:
                report.evaluations += 1
                want = means(ref_stack, extra) != form.startswith("~")
                got = checker.check_loc_stack(med, stack)
                n_true += bool(want)
                if got != want and bad is None:
                    bad = (ref_stack, got, want)
            report.case(("compiled", text, flags, form), nontrivial=0 < n_true < len(stacks), sample=case)
            report.outcome("compiled:" + ("differs" if bad else "agrees"))
            if bad:
                report.violation({"check": "C10.compiled", "problem": "meaning", "form": form},
                                 f"re.compile({text!r}, flags={flags or 0}) as {form} on {show_stack(bad[0])}: checker gives {bad[1]!r}, a full "
                                 f"match of the compiled pattern (flags included) gives {bad[2]!r}", {**case, "stack": bad[0]})


def registration_leg(report):
    """an abstract class (or runtime protocol) as predicate means 'the class and its subclasses' AS THEY ARE when the predicate is
    evaluated: a virtual subclass registered with ABC.register after an earlier evaluation must be matched afterwards - by the old
    checker object, by a fresh one and end to end by a fresh retort.  All orders of {evaluate, register} of length <= 3."""
    import abc
    med = mediator()
    for forms in itertools.product(("old", "fresh", "e2e"), repeat=2):
        class Shape(abc.ABC):
            @abc.abstractmethod
            def area(self):
                ...

        class Square:
            def __init__(self, side=0):
                self.side = side

            def area(self):
                return self.side ** 2

        class Other:
            pass

        stacks = {c: LocStack(TypeHintLoc(type=c)) for c in (Square, Other)}
        old = create_loc_stack_checker(Shape)

        def evaluate(form, cls, old=old, Shape=Shape, stacks=stacks):
            if form == "old":
                return old.check_loc_stack(med, stacks[cls])
            if form == "fresh":
                return create_loc_stack_checker(Shape).check_loc_stack(med, stacks[cls])
            try:
                return Retort(recipe=[loader(Shape, lambda d: "served by the Shape loader")]).get_loader(cls)(1) == "served by the Shape loader"
            except Exception:  # noqa: BLE001
                return False
        case = {"leg": "registration", "before": forms[0], "after": forms[1]}
        report.case(("registration", forms), nontrivial=True, sample=case)
        before = {c.__name__: evaluate(forms[0], c) for c in (Square, Other)}
        Shape.register(Square)
        after = {c.__name__: evaluate(forms[1], c) for c in (Square, Other)}
        report.evaluations += 4
        report.outcome("registration:checked")
        if before != {"Square": False, "Other": False} or after != {"Square": True, "Other": False}:
            report.violation({"check": "C10.registration", "before": forms[0], "after": forms[1]},
                             f"abstract class Shape as predicate, evaluated ({forms[0]}) before and ({forms[1]}) after Shape.register(Square): "
                             f"before {before}, after {after}; the documented meaning is False/False then True/False", case)


def run(tier):
    ref_pred.self_check()
    report = Report()
    compiled_patterns_leg(tier, report)
    registration_leg(report)
    exprs = expression_space()
    stacks = stack_space(tier)
    mediator()
    report.count("space.expressions", len(exprs))
    report.count("space.stacks", len(stacks))
    for depth in (1, 2, 3):
        report.count(f"space.stacks.depth{depth}", sum(1 for s, _ in stacks if len(s) == depth))
    report.count("space.locations", len(location_alphabet()))
    report.count("space.locations_depth3", len(location_alphabet(depth3=True)) if tier == "thorough" else 0)
    n_e2e = len(e2e_expressions(tier))
    n_id = len(identities())
    shards = (
        [(shard_pred, (tier, a, b)) for a, b in _ranges(len(exprs), 40 if tier == "thorough" else 150)]
        + [(shard_e2e, (tier, a, b)) for a, b in _ranges(n_e2e, 60)]
        + [(shard_identity, (tier, a, b)) for a, b in _ranges(n_id, 40)]
        + [(shard_used, (tier, a, b)) for a, b in _ranges(sum(1 for n, _ in exprs if n >= 1), 400)]
        + [(shard_facade, (tier, a, b)) for a, b in _ranges(40000, 700)]
    )
    # interleave the legs so that the long shards do not all start last
    shards.sort(key=lambda s: (s[1][1], s[0].__name__))
    parallel.run_shards(_dispatch, shards, report=report)
    return report


def _dispatch(shard):
    func, args = shard
    return func(args)


ATOM_FORMS = ["class.concrete", "class.abstract", "class.protocol", "hint", "str.identifier", "str.regex", "P.name", "P[class]",
              "P[hint]", "P[str]", "P[,]", "P.generic_arg", "chain"]
OTHER_FORMS = ["+", "|", "&", "^", "~", "extended-combination"]


def SANITY(report, tier):  # noqa: N802
    problems = []
    out = report.outcomes
    for frm in ATOM_FORMS + OTHER_FORMS:
        for verdict in ("True", "False"):
            if out[f"pred:{frm}:{verdict}"] == 0:
                problems.append(f"semantics never gave {verdict} for an expression of form {frm}")
    if out["pred:P.ANY:True"] == 0:
        problems.append("P.ANY never evaluated")
    for name in {name for name, _, _ in identities()}:
        for verdict in ("True", "False"):
            if out[f"identity:{name}:{verdict}"] == 0:
                problems.append(f"identity {name}: no stack with result {verdict}")
    for k in ("e2e:marker-at-top", "e2e:marker-below-top", "e2e:marker-nowhere"):
        if out[k] == 0:
            problems.append(f"end-to-end leg never saw outcome {k}")
    constructed = report.counters["space.expressions"] - sum(v for k, v in out.items() if k.endswith(":construction-error"))
    if report.counters["pred.pairs"] != constructed * report.counters["space.stacks"]:
        problems.append("not every (expression, stack) pair was evaluated")
    return problems


def extra_evidence(report, tier):
    c = report.counters
    return {
        "expressions": c["space.expressions"],
        "expressions_by_nesting": [c["pred.expressions.nesting0"], c["pred.expressions.nesting1"], c["pred.expressions.nesting2"]],
        "stacks": c["space.stacks"],
        "stacks_by_depth": [c["space.stacks.depth1"], c["space.stacks.depth2"], c["space.stacks.depth3"]],
        "expression_stack_pairs": c["pred.pairs"],
        "checker_calls": c["pred.checker_calls"],
        "identity_instances": c["identity.instances"],
        "identity_pairs": c["identity.pairs"],
        "e2e_cases": c["e2e.cases"],
        "truth_values_by_form": {k[5:]: v for k, v in sorted(report.outcomes.items()) if k.startswith("pred:")},
    }


def replay(case):
    report = Report()
    leg = case["leg"]
    if leg == "pred":
        e = to_tuple(case["expr"])
        if "stack" in case:
            ref_stack = to_tuple(case["stack"])
            stacks = [(ref_stack, real_stack(ref_stack))]
        else:
            stacks = stack_space("quick")
        evaluate_expression(-1, e, stacks, report)
    elif leg == "identity":
        ref_stack = to_tuple(case["stack"]) if "stack" in case else None
        stacks = [(ref_stack, real_stack(ref_stack))] if ref_stack else stack_space("quick")
        check_identity(case["name"], to_tuple(case["lhs"]), to_tuple(case["rhs"]), stacks, report)
    else:
        e2e_case(to_tuple(case["expr"]), case["mode"], case["top"], report)
    for v in report.violations.values():
        return v["what"]
    return None
