"""C02 — non-model loaders and dumpers implement exactly the documented per-type rules.

Exhaustive sweep of the MATRIX space: every type of the grammar up to the tier's depth x every datum of the hostile
alphabet (plus structured data built from the components' representatives) x 6 modes, compared with the executable
documentation in mc/ref_types.py; every value of the value alphabets is dumped in the 3 debug modes and compared,
type-exact, with ref_dump.
"""
from mc import codec, parallel
from mc.matrix import MODES, blame, kind_of, mode_name, retort_for, type_shards
from mc.matrix import run as mrun
from mc.ref_types import ACCEPT, REJECT, UNSPEC, Unspec, accepts, matches, ref_dump, same
from mc.report import Report
from mc.space import from_json, show, to_hint, to_json
from mc.sweep import creation_error_violation, dump_sweep, load_sweep

META = {
    "level": "exploration",
    "rule": (
        "cases = (TypeSpec, datum, mode) triples, all enumerated: grammar depth<=2 (thorough 3) x hostile alphabet A0 "
        "+ structured data x 6 modes, and (TypeSpec, value, debug mode) dump triples; a case is non-trivial when the "
        "reference gives a definite verdict (accept with a checked value, or reject); UNSPEC cases are counted as skipped"
    ),
    "assumptions": [
        "mc/ref_types.py is a faithful transcription of specific-types-behavior.rst; where the prose is silent the case is UNSPEC and not compared",
        "an escaping non-LoadError is treated as a rejection here (its class is C04's business)",
        "small-scope: nesting beyond the depth bound and data outside the alphabet are not covered",
    ],
    "bound": {"quick": "type depth <= 2 (second level over 8 reduced leaves for binary constructors)",
              "thorough": "type depth <= 3 (third level over 4 leaves)"},
}


def _load_bad(ts, d, mode):
    """does the (sub)pair disagree with the reference in this mode?  d is a concrete object (not one-shot)"""
    strict = mode[1]
    verdict = accepts(ts, d, strict)
    if verdict == UNSPEC:
        return None
    try:
        loader = retort_for(mode).get_loader(to_hint(ts))
    except Exception:  # noqa: BLE001
        return None
    out = mrun(loader, d)
    if verdict == ACCEPT and not out.ok:
        return "rejects_documented_input"
    if verdict == REJECT and out.ok:
        return "accepts_undocumented_input"
    if verdict == ACCEPT and out.ok and not matches(ts, d, strict, out.value):
        return "wrong_value"
    return None


def load_oracle(ctx):
    ts, datum, report = ctx.ts, ctx.datum, ctx.report
    for mode in MODES:
        strict = mode[1]
        verdict = accepts(ts, datum.fresh(), strict)
        key = (ts, datum.name, mode)
        if verdict == UNSPEC:
            report.case(key)
            report.skip("reference UNSPEC (documentation silent / undefined)")
            continue
        out = ctx.vec[mode]
        report.case(key, nontrivial=True,
                    sample=lambda: {"type": to_json(ts), "datum": datum.name, "mode": mode_name(mode),
                                    "reference": verdict, "impl": repr(out)})
        report.outcome(f"ref={verdict},impl={'ok' if out.ok else 'err'}")
        problem = None
        if verdict == ACCEPT and not out.ok:
            problem = "rejects_documented_input"
        elif verdict == REJECT and out.ok:
            problem = "accepts_undocumented_input"
        elif verdict == ACCEPT and not matches(ts, datum.fresh() if datum.one_shot else ctx.inputs[mode], strict, out.value):
            problem = "wrong_value"
        if problem is None:
            continue
        if datum.one_shot:
            bts, bd = ts, datum.fresh()
        else:
            bts, bd = blame(ts, datum.fresh(), lambda t, d: _load_bad(t, d, mode) == problem)
        sig = {"check": "C02.load", "problem": problem, "node": show(bts) if len(bts) <= 2 and not isinstance(bts[-1], tuple) else bts[0],
               "datum_kind": kind_of(bd), "strict": strict}
        report.violation(
            sig,
            f"load {show(ts)} <- {datum.name} [{mode_name(mode)}]: {problem}; impl {out!r}, documentation says {verdict}"
            f" (blamed sub-case: {show(bts)} <- {codec.show(bd, 60)})",
            {"kind": "load", "type": to_json(ts), "datum": datum.name, "mode": list(mode)},
        )


def dump_oracle(ctx, idx):
    ts, x, report = ctx.ts, ctx.datum, ctx.report
    try:
        want = ref_dump(ts, x)
    except Unspec:
        report.case((ts, idx, "dump"))
        report.skip("reference UNSPEC (documentation silent / undefined)")
        return
    for dbg, out in ctx.vec.items():
        report.case(("dump", ts, idx, dbg), nontrivial=True,
                    sample=lambda: {"type": to_json(ts), "value": codec.enc(x), "debug_trail": dbg, "dumped": repr(out)})
        report.outcome("dump=" + ("ok" if out.ok else "err"))
        if out.ok and same(out.value, want):
            continue
        sig = {"check": "C02.dump", "node": _dump_blame(ts, x, dbg), "value_kind": kind_of(x),
               "problem": "dump_failed" if not out.ok else "wrong_dump"}
        report.violation(
            sig,
            f"dump {show(ts)} of {codec.show(x, 60)} [{dbg}]: impl {out!r}"
            + (f" ({type(out.exc).__name__}: {out.exc})"[:160] if not out.ok else "")
            + f", documentation says {codec.show(want, 80)}",
            {"kind": "dump", "type": to_json(ts), "value_index": idx, "debug": dbg},
        )


def _dump_blame(ts, x, dbg):
    """name of the smallest type node whose own dump disagrees"""
    from mc.matrix import children
    from mc.space import unwrap

    def bad(t, v):
        try:
            want = ref_dump(t, v)
            d = retort_for((dbg, True)).get_dumper(to_hint(t))
        except Exception:  # noqa: BLE001
            return False
        out = mrun(d, v)
        return not (out.ok and same(out.value, want))

    cur_t, cur_v = ts, x
    for _ in range(6):
        nxt = None
        u = unwrap(cur_t)
        kids = []
        try:
            if u[0] == "Union":
                from mc.ref_types import _union_case
                kids = [(_union_case(u, cur_v), cur_v)]
            else:
                kids = children(cur_t, cur_v)
        except Exception:  # noqa: BLE001
            kids = []
        for ct, cv in kids:
            if bad(ct, cv):
                nxt = (ct, cv)
                break
        if nxt is None:
            break
        cur_t, cur_v = nxt
    return show(cur_t) if len(cur_t) <= 2 and not isinstance(cur_t[-1], tuple) else cur_t[0]


def shard(types):
    report = Report()
    load_sweep(types, load_oracle, report, on_creation_error=creation_error_violation("C02.load"))
    dump_sweep(types, dump_oracle, report, on_creation_error=creation_error_violation("C02.dump"))
    return report


def run(tier):
    report = Report()
    parallel.run_shards(shard, type_shards(tier, 64 if tier == "quick" else 256), report=report)
    return report




def SANITY(report, tier):  # noqa: N802
    problems = []
    for k in ("ref=accept,impl=ok", "ref=reject,impl=err", "dump=ok"):
        if report.outcomes[k] < 100:
            problems.append(f"outcome {k} seen only {report.outcomes[k]} times")
    return problems


def replay(case):
    from mc.matrix import find_datum
    from mc.space import values_of
    report = Report()
    ts = from_json(case["type"])
    if case["kind"] == "load":
        from mc.sweep import Ctx, loaders_for
        datum = find_datum(ts, case["datum"])
        ctx = Ctx()
        ctx.ts, ctx.datum, ctx.report = ts, datum, report
        loaders = loaders_for(ts)
        ctx.inputs = {mode: datum.fresh() for mode in MODES}
        ctx.vec = {mode: mrun(loaders[mode], ctx.inputs[mode]) for mode in MODES}
        load_oracle(ctx)
    else:
        from mc.sweep import Ctx, dumpers_for
        x = values_of(ts)[case["value_index"]]
        ctx = Ctx()
        ctx.ts, ctx.datum, ctx.report = ts, x, report
        dumpers = dumpers_for(ts)
        ctx.vec = {dbg: mrun(dumpers[dbg], x) for dbg in dumpers}
        dump_oracle(ctx, case["value_index"])
    for v in report.violations.values():
        return v["what"]
    return None
