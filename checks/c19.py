"""C19 — generated code treats names and keys purely as data.

Dictionaries of hostile identifiers (every local/global name the generators use, their prefixed forms, builtins, keyword
escapes, non-ASCII, underscores), hostile keys (quotes, backslashes, braces, dollars, newlines, NUL, code fragments calling a
canary) and hostile class/function names are put at every interpolation site reachable through a layout feature, for the
model loader (6 modes), the model dumper (3 modes) and the converter.  Oracle: generation succeeds, behaviour is that of the
benign twin with the strings as plain data, `builtins.__canary__` is never called, and the generated source has the same
set of function definitions and call targets as the benign twin.
"""
import ast
import builtins
import dataclasses
import enum
import inspect
import itertools
import keyword
from fractions import Fraction
import unicodedata
import typing
from typing import Any, Dict, List, Optional

from adaptix import DebugTrail, ExtraForbid, Retort, name_mapping
from adaptix import P
from adaptix.conversion import ConversionRetort, coercer, get_converter, impl_converter, link, link_constant, link_function

from mc import codec, parallel
from mc.matrix import MODES, mode_name
from mc.report import Report

META = {
    "level": "exploration",
    "rule": (
        "programs = (generator, interpolation site, hostile string); identifiers x {first field, second field, pair (x, prefix_x)} "
        "x layouts; keys x sites {top-level key, nested path element, key under Forbid/Collect, unknown data key, extra target, "
        "list-layout neighbour, TypedDict item}; class/function names; converter field names, function names, stub defaults; all "
        "enumerated; every program is non-trivial (it contains a hostile string)"
    ),
    "assumptions": [
        "field ids are legal Python identifiers (the language itself enforces this for every kind but TypedDict); TypedDict items "
        "with non-identifier names are documented as unsupported and only required not to execute anything",
        "the canary is reachable as a builtin and as a global of every generated module",
    ],
    "bound": {"quick": "dictionaries as listed, one site at a time, 3 of the 6 modes (one per debug_trail), prefixed pairs for every second generator name",
              "thorough": "all 6 modes, prefixed pairs for every identifier, additionally all ordered pairs of identifiers as two fields of one model"},
}

CANARY_CALLS = []


def __canary__(*args, **kwargs):  # noqa: N807
    CANARY_CALLS.append((args, kwargs))
    return "canary"


builtins.__canary__ = __canary__

GEN_NAMES = ["data", "errors", "value", "key", "result", "extra", "getter", "sentinel", "constructor", "saturator", "packed_fields",
             "has_unexpected_error", "known_keys", "required_keys", "opt_fields", "extra_stack", "extractor", "model_identity", "ctx",
             "e", "idx", "loader", "dumper", "self", "cls", "field", "fields", "path", "state", "trail", "append_trail", "extend_trail",
             "render_trail_as_note", "LoadError", "AggregateLoadError", "TypeLoadError", "CompatExceptionGroup", "CollectionsMapping",
             "CollectionsSequence", "has_not_found_error", "extra_set", "placeholder", "obj", "target", "coercer", "src", "dst",
             "_closure_signature", "_stub_function", "_update_wrapper", "_closure_maker", "closure", "func", "model_loader",
             "model_dumper", "convert", "coerce", "field_loader", "field_dumper", "omitted", "Omitted", "sentinel_", "exc", "args",
             "kwargs", "packed", "opt", "accessor", "getter_", "trail_", "mapping", "sequence", "item", "items", "keys", "values",
             # placeholders of the generators' own code templates
             "__target_expr__", "a__target_expr__b", "target_expr", "__data__", "__value__"]
PREFIXES = ["loader_", "dumper_", "f_", "r_", "dfl_", "g_", "data_", "extra_", "known_keys_", "required_keys_", "v_", "accessor_"]
SUFFIXES = ["_default", "_loader", "_dumper", "_raw", "_factory", "_0"]
BUILTINS = ["print", "list", "dict", "type", "id", "len", "set", "str", "int", "isinstance", "tuple", "object", "getattr", "Exception",
            "KeyError", "AttributeError", "zip", "map", "iter", "next", "__canary__"]
ESCAPED = ["from_", "class_", "None_", "import_", "lambda_", "def_", "return_"]
NON_ASCII = ["ñ", "Ω", "名", "é_x", "ß"]
UNDERSCORES = ["_", "__", "_x", "x_", "x__", "__x", "_1", "a_1"]


def identifiers():
    out = []
    for n in GEN_NAMES + BUILTINS + ESCAPED + NON_ASCII + UNDERSCORES:
        if n.isidentifier() and not keyword.iskeyword(n) and n not in out:
            out.append(n)
    return out


KEYS = ["'", '"', "\\", "{", "}", "{x}", "{{", "$x", "${x}", "%s", "%(a)s", "\n", "a\nb", "\r", "\x00", " ", "", "'''", '"""', "#", "\t",
        "a b", "a.b", "a[0]", "None", "True", "class", "__canary__", "'+__canary__()+'", "{__canary__()}", "__import__('builtins').__canary__()",
        '"]);__canary__()#', "'];__canary__()#", "\\'];__canary__()#", "f'{__canary__()}'", "{data}", "{self}", " ", "𝒳", "퟿",
        "0", "-1", "1.5"]
CLASS_NAMES = ["Model", "we ird", "quo'te", 'dq"uote', "a.b", "a[b]", "class", "True", "None", "", "1abc", "__canary__", "x;__canary__()",
               "名前", "{x}", "a\nb", "def", "lambda", "with-dash", "M\u00b2", "x\u00bd", "\u00b5Model"]


# ------------------------------------------------------------------------------------------------------------

QUICK_MODES = [("DISABLE", True), ("FIRST", False), ("ALL", True)]
_TIER = ["quick"]


def retorts(recipe):
    modes = QUICK_MODES if _TIER[0] == "quick" else MODES
    return {mode: Retort(recipe=list(recipe), debug_trail=DebugTrail[mode[0]], strict_coercion=mode[1]) for mode in modes}


def expect_same(report, sig, what, case, got, want):
    if got != want:
        report.violation(sig, f"{what}: got {codec.show(got, 100)}, expected {codec.show(want, 100)}", case)
        return False
    return True


def run_program(report, sig_base, what, case, cls, recipe, data, fields, dumped, extra_checks=None):
    """generic loader+dumper program: load `data` in 6 modes -> object with `fields`; dump it in 3 modes -> `dumped`"""
    del CANARY_CALLS[:]
    report.case((sig_base["check"], what), nontrivial=True, sample=case)
    try:
        rs = retorts(recipe)
    except Exception as e:  # noqa: BLE001
        report.violation({**sig_base, "problem": "recipe_failed", "exc": type(e).__name__}, f"{what}: building the recipe failed: {e!r}"[:300], case)
        return
    for mode, r in rs.items():
        try:
            loader = r.get_loader(cls)
        except Exception as e:  # noqa: BLE001
            report.violation({**sig_base, "problem": "loader_creation_failed", "exc": type(e.__cause__ or e).__name__},
                             f"{what} [{mode_name(mode)}]: loader creation failed: {type(e).__name__}: {str(e.__cause__ or e)[:200]}", case)
            break
        try:
            obj = loader(data() if callable(data) else data)
        except Exception as e:  # noqa: BLE001
            report.violation({**sig_base, "problem": "load_failed", "exc": type(e).__name__},
                             f"{what} [{mode_name(mode)}]: load raised {type(e).__name__}: {str(e)[:150]}", case)
            continue
        got = {k: (obj[k] if isinstance(obj, dict) else getattr(obj, k, "<missing>")) for k in fields}
        expect_same(report, {**sig_base, "problem": "wrong_loaded_fields"}, f"{what} [{mode_name(mode)}] load", case, got, fields)
        report.outcome("loaded")
        if dumped is not None and mode[1]:
            try:
                dumper = r.get_dumper(cls)
                out = dumper(obj)
            except Exception as e:  # noqa: BLE001
                report.violation({**sig_base, "problem": "dump_failed", "exc": type(e.__cause__ or e).__name__},
                                 f"{what} [{mode_name(mode)}]: dumper failed: {type(e).__name__}: {str(e.__cause__ or e)[:200]}", case)
                continue
            expect_same(report, {**sig_base, "problem": "wrong_dump"}, f"{what} [{mode_name(mode)}] dump", case, out, dumped)
            report.outcome("dumped")
    if extra_checks:
        extra_checks(rs)
    if CANARY_CALLS:
        report.violation({**sig_base, "problem": "injected_text_executed"}, f"{what}: the canary was called {len(CANARY_CALLS)} times: injected text was executed", case)
        del CANARY_CALLS[:]


def trimmed(name):
    return name[:-1] if name.endswith("_") and not name.endswith("__") else name


# ------------------------------------------------------------------------------------------------------------
# leg 1: identifiers as field ids

_NONLIT_A = Fraction(7, 3)


def _nonlit_factory():
    return Fraction(1, 9)


def ident_programs(names_pairs):
    """(description, fields list of (name, default or NoDefault))"""
    for a, b in names_pairs:
        yield a, b


def leg_identifiers(pairs, report):
    for a, b in pairs:
        if a == b:
            continue
        for variant in ("plain", "defaults", "nested", "forbid", "collect", "aslist", "omit", "typeddict", "nonliteral"):
            case = {"leg": "ident", "names": [a, b], "variant": variant}
            what = f"fields ({a!r}, {b!r}) variant {variant}"
            sig = {"check": "C19.identifier", "variant": variant}
            try:
                if variant == "typeddict":
                    cls = typing.TypedDict("TD", {a: int, b: typing.NotRequired[str]})
                elif variant in ("defaults", "omit"):
                    cls = dataclasses.make_dataclass("M", [(a, int), (b, str, dataclasses.field(default="dflt"))])
                elif variant == "nonliteral":
                    # defaults that cannot be rendered as literals become constants / factory objects of the generated loader
                    cls = dataclasses.make_dataclass("M", [("zq", int, dataclasses.field(default=0)),
                                                           (a, Any, dataclasses.field(default=_NONLIT_A)),
                                                           (b, Any, dataclasses.field(default_factory=_nonlit_factory))])
                elif variant == "collect":
                    cls = dataclasses.make_dataclass("M", [(a, int), (b, Dict[str, Any], dataclasses.field(default_factory=dict))])
                else:
                    cls = dataclasses.make_dataclass("M", [(a, int), (b, str)])
            except Exception:  # noqa: BLE001
                report.skip("the model kind itself refuses the field names")
                continue
            ka, kb = trimmed(a), trimmed(b)
            private_a, private_b = a.startswith("_"), b.startswith("_")
            recipe, data, fields, dumped = [], None, None, None
            if ka == kb:
                report.skip("two field names collide after trailing-underscore trimming")
                continue
            if variant == "plain":
                data, fields = {ka: 1, kb: "s"}, {a: 1, b: "s"}
                dumped = {k: v for k, v, p in ((ka, 1, private_a), (kb, "s", private_b)) if not p}
            elif variant == "defaults":
                data, fields = {ka: 1}, {a: 1, b: "dflt"}
                dumped = {k: v for k, v, p in ((ka, 1, private_a), (kb, "dflt", private_b)) if not p}
            elif variant == "omit":
                recipe = [name_mapping(cls, omit_default=True)]
                data, fields = {ka: 1}, {a: 1, b: "dflt"}
                dumped = {k: v for k, v, p in ((ka, 1, private_a),) if not p}
            elif variant == "nested":
                recipe = [name_mapping(cls, map={a: ("n", "p", ...), b: ("n", ...)})]
                data, fields = {"n": {"p": {ka: 1}, kb: "s"}}, {a: 1, b: "s"}
                dumped = {"n": {"p": {ka: 1}, kb: "s"}}
            elif variant == "forbid":
                recipe = [name_mapping(cls, extra_in=ExtraForbid())]
                data, fields = {ka: 1, kb: "s"}, {a: 1, b: "s"}
            elif variant == "collect":
                recipe = [name_mapping(cls, extra_in=b, extra_out=b)]
                data, fields = {ka: 1, "unknown": [1]}, {a: 1, b: {"unknown": [1]}}
                dumped = {"unknown": [1], **({} if private_a else {ka: 1})}
            elif variant == "aslist":
                recipe = [name_mapping(cls, as_list=True)]
                data, fields, dumped = [1, "s"], {a: 1, b: "s"}, None
            elif variant == "typeddict":
                data, fields = {ka: 1, kb: "s"}, {a: 1, b: "s"}
                dumped = {k: v for k, v, p in ((ka, 1, private_a), (kb, "s", private_b)) if not p}
            elif variant == "nonliteral":
                if "zq" in (a, b, ka, kb):
                    continue
                # every presence pattern of the two defaulted fields
                for pa, pb in ((False, False), (True, False), (False, True)):
                    data = {"zq": 1, **({ka: "A!"} if pa else {}), **({kb: "B!"} if pb else {})}
                    fields = {"zq": 1, a: "A!" if pa else _NONLIT_A, b: "B!" if pb else _nonlit_factory()}
                    run_program(report, sig, what + f" present=({pa}, {pb})", case, cls, recipe, data, fields, None)
                continue
            run_program(report, sig, what, case, cls, recipe, data, fields, dumped)


# ------------------------------------------------------------------------------------------------------------
# leg 2: hostile keys at every interpolation site

def leg_keys(keys, report):
    for key in keys:
        for site in ("top", "nested_head", "nested_tail", "forbid_known", "unknown_forbid", "unknown_collect", "unknown_kwargs_like",
                     "dict_field_key", "list_neighbour", "omit_default", "extra_out_key"):
            if type(key) is not str and site in ("unknown_forbid", "unknown_collect", "unknown_kwargs_like", "dict_field_key", "extra_out_key"):
                continue     # an instance of a str subclass is tried as a MAPPED key only (as data it is simply not a str)
            case = {"leg": "key", "key": key, "site": site}
            what = f"key {str.__repr__(key) if type(key) is not str else repr(key)} at site {site}"
            sig = {"check": "C19.key", "site": site}
            cls = dataclasses.make_dataclass("M", [("a", int), ("b", str, dataclasses.field(default="dflt"))])
            other = "zz" if key != "zz" else "yy"
            if site == "top":
                run_program(report, sig, what, case, cls, [name_mapping(cls, map={"a": key})], {key: 1, "b": "s"}, {"a": 1, "b": "s"},
                            {key: 1, "b": "s"})
            elif site == "nested_head":
                run_program(report, sig, what, case, cls, [name_mapping(cls, map={"a": (key, "x"), "b": (key, "y")})],
                            {key: {"x": 1, "y": "s"}}, {"a": 1, "b": "s"}, {key: {"x": 1, "y": "s"}})
            elif site == "nested_tail":
                run_program(report, sig, what, case, cls, [name_mapping(cls, map={"a": ("n", key), "b": ("n", other)})],
                            {"n": {key: 1, other: "s"}}, {"a": 1, "b": "s"}, {"n": {key: 1, other: "s"}})
            elif site == "forbid_known":
                run_program(report, sig, what, case, cls, [name_mapping(cls, map={"a": key}, extra_in=ExtraForbid())],
                            {key: 1}, {"a": 1, "b": "dflt"}, {key: 1, "b": "dflt"})
            elif site == "unknown_forbid":
                def check(rs, key=key):
                    from adaptix.load_error import ExtraFieldsLoadError, LoadError
                    for mode, r in rs.items():
                        try:
                            r.load({"a": 1, key: 2}, cls)
                        except LoadError as e:
                            leaves = [e] if not isinstance(e, BaseExceptionGroup) else list(e.exceptions)
                            if not any(isinstance(x, ExtraFieldsLoadError) and set(x.fields) == {key} for x in leaves):
                                report.violation({**sig, "problem": "wrong_unknown_key_set"}, f"{what} [{mode_name(mode)}]: {e!r}"[:300], case)
                        except Exception as e:  # noqa: BLE001
                            report.violation({**sig, "problem": "non_LoadError", "exc": type(e).__name__}, f"{what}: {e!r}"[:300], case)
                        else:
                            if key != "a" and key != "b":
                                report.violation({**sig, "problem": "unknown_key_accepted"}, f"{what} [{mode_name(mode)}]: unknown key accepted", case)
                if key in ("a", "b"):
                    continue
                run_program(report, sig, what, case, cls, [name_mapping(cls, extra_in=ExtraForbid())], {"a": 1}, {"a": 1, "b": "dflt"}, None, check)
            elif site == "unknown_collect":
                if key in ("a", "b"):
                    continue
                cls2 = dataclasses.make_dataclass("M", [("a", int), ("rest", Dict[str, Any], dataclasses.field(default_factory=dict))])
                run_program(report, sig, what, case, cls2, [name_mapping(cls2, extra_in="rest", extra_out="rest")], {"a": 1, key: [2]},
                            {"a": 1, "rest": {key: [2]}}, {"a": 1, key: [2]})
            elif site == "unknown_kwargs_like":
                if key in ("a", "b"):
                    continue
                log = []

                def saturator(obj, extra, log=log):
                    log.append(dict(extra))
                del log[:]
                run_program(report, sig, what, case, cls, [name_mapping(cls, extra_in=saturator)], {"a": 1, key: 2}, {"a": 1, "b": "dflt"}, None)
                if log and any(x != {key: 2} for x in log):
                    report.violation({**sig, "problem": "wrong_extras"}, f"{what}: saturator received {log[:2]}", case)
            elif site == "dict_field_key":
                cls3 = dataclasses.make_dataclass("M", [("a", Dict[str, int])])
                run_program(report, sig, what, case, cls3, [], {"a": {key: 1}}, {"a": {key: 1}}, {"a": {key: 1}})
            elif site == "list_neighbour":
                cls4 = dataclasses.make_dataclass("M", [("a", int), ("b", str)])
                run_program(report, sig, what, case, cls4, [name_mapping(cls4, map={"a": (key, 0), "b": (key, 1)})],
                            {key: [1, "s"]}, {"a": 1, "b": "s"}, {key: [1, "s"]})
            elif site == "omit_default":
                run_program(report, sig, what, case, cls, [name_mapping(cls, map={"b": key}, omit_default=True)], {"a": 1, key: "dflt"},
                            {"a": 1, "b": "dflt"}, {"a": 1})
            elif site == "extra_out_key":
                def extractor(obj, key=key):
                    return {key: 5}
                if key in ("a", "b"):
                    continue
                run_program(report, sig, what, case, cls, [name_mapping(cls, extra_out=extractor)], {"a": 1}, {"a": 1, "b": "dflt"},
                            {"a": 1, "b": "dflt", key: 5})


# ------------------------------------------------------------------------------------------------------------
# leg 3: class and function names

def leg_keyword_fields(names, report):
    """keys of a TypedDict and fields of a pydantic model may be real keywords (no trailing underscore needed): class, from, None"""
    import pydantic
    from typing import TypedDict
    for name in names:
        case = {"leg": "keyword_field", "name": name}
        sig = {"check": "C19.keyword_field"}
        td = TypedDict("TD", {name: int, "benign": str})
        run_program(report, {**sig, "kind": "typeddict"}, f"TypedDict key {name!r}", case, td, [], {name: 1, "benign": "s"},
                    {name: 1, "benign": "s"}, {name: 1, "benign": "s"})
        run_program(report, {**sig, "kind": "typeddict"}, f"TypedDict key {name!r} renamed", case, td,
                    [name_mapping(td, map={name: "renamed"})], {"renamed": 1, "benign": "s"},
                    {name: 1, "benign": "s"}, {"renamed": 1, "benign": "s"})
        norm = unicodedata.normalize("NFKC", name)
        if norm != name:
            # two DIFFERENT keys of one model that the parser would fold into one identifier
            both = TypedDict("TDB", {name: int, norm: int, "benign": str})
            data = {name: 1, norm: 2, "benign": "s"}
            run_program(report, {**sig, "kind": "typeddict", "site": "nfkc_equal_keys"}, f"TypedDict with the keys {name!r} and {norm!r}",
                        {**case, "site": "nfkc_equal_keys"}, both, [], dict(data), dict(data), dict(data))
            report.case(("C19.keyword_field.conv_both", name), nontrivial=True)
            try:
                both2 = TypedDict("TDB2", {name: int, norm: int, "benign": str})
                out = get_converter(both, both2)(dict(data))
                if out != data:
                    report.violation({"check": "C19.converter", "problem": "wrong_result", "site": "nfkc_equal_keys"},
                                     f"converter TypedDict -> TypedDict with the keys {name!r} and {norm!r} gives {out!r}", case)
            except Exception as e:  # noqa: BLE001
                report.violation({"check": "C19.converter", "problem": "creation_failed", "site": "nfkc_equal_keys",
                                  "exc": type(e.__cause__ or e).__name__},
                                 f"converter with the keys {name!r} and {norm!r} failed: {type(e).__name__}: {str(e.__cause__ or e)[:200]}", case)
        try:
            pm = pydantic.create_model("PM", **{name: (int, ...), "benign": (str, ...)})
        except Exception:  # noqa: BLE001
            report.skip("pydantic refuses the field name")
            pm = None
        if pm is not None:
            run_program(report, {**sig, "kind": "pydantic"}, f"pydantic field {name!r}", case, pm, [], {name: 1, "benign": "s"},
                        {name: 1, "benign": "s"}, {name: 1, "benign": "s"})
        # converters in both directions between the TypedDict and a dataclass that spells the name with a trailing underscore
        del CANARY_CALLS[:]
        report.case(("C19.keyword_field.conv", name), nontrivial=True)
        try:
            td2 = TypedDict("TD2", {name: int, "benign": str})
            out = get_converter(td, td2)({name: 1, "benign": "s"})
            if out != {name: 1, "benign": "s"}:
                report.violation({"check": "C19.converter", "problem": "wrong_result", "site": "keyword_field"},
                                 f"converter TypedDict -> TypedDict with key {name!r} gives {out!r}", case)
            if pm is not None:
                out = get_converter(td, pm)({name: 1, "benign": "s"})
                back = get_converter(pm, td)(out)
                if (getattr(out, name), out.benign) != (1, "s") or back != {name: 1, "benign": "s"}:
                    report.violation({"check": "C19.converter", "problem": "wrong_result", "site": "keyword_field"},
                                     f"converter TypedDict <-> pydantic with field {name!r} gives {out!r} / {back!r}", case)
            report.outcome("converted")
        except Exception as e:  # noqa: BLE001
            report.violation({"check": "C19.converter", "problem": "creation_failed", "site": "keyword_field",
                              "exc": type(e.__cause__ or e).__name__},
                             f"converter with keyword field {name!r} failed: {type(e).__name__}: {str(e.__cause__ or e)[:200]}", case)


def leg_class_names(names, report):
    for name in names:
        case = {"leg": "class_name", "name": name}
        sig = {"check": "C19.class_name"}
        what = f"class named {name!r}"
        try:
            cls = dataclasses.make_dataclass("Tmp", [("a", int), ("b", str, dataclasses.field(default="dflt"))])
            cls.__name__ = name
            cls.__qualname__ = name
            inner = dataclasses.make_dataclass("Tmp2", [("n", int)])
            inner.__name__ = inner.__qualname__ = name
            outer = dataclasses.make_dataclass("Outer", [("x", inner), ("items", List[inner])])
        except Exception:  # noqa: BLE001
            report.skip("Python refuses the class name")
            continue
        run_program(report, sig, what, case, cls, [], {"a": 1}, {"a": 1, "b": "dflt"}, {"a": 1, "b": "dflt"})
        run_program(report, sig, what + " (nested)", case, outer, [], {"x": {"n": 1}, "items": [{"n": 2}]},
                    {"x": inner(1), "items": [inner(2)]}, {"x": {"n": 1}, "items": [{"n": 2}]})
        # error rendering uses the model identity
        for mode in (QUICK_MODES if _TIER[0] == "quick" else MODES):
            try:
                Retort(debug_trail=DebugTrail[mode[0]], strict_coercion=mode[1]).load({"a": "bad"}, cls)
            except Exception as e:  # noqa: BLE001
                from adaptix.load_error import LoadError
                if not isinstance(e, LoadError):
                    report.violation({**sig, "problem": "non_LoadError", "exc": type(e).__name__}, f"{what}: {e!r}"[:300], case)
        # converter between two such classes
        del CANARY_CALLS[:]
        report.case(("C19.class_name.conv", name), nontrivial=True)
        try:
            dst = dataclasses.make_dataclass("Tmp3", [("a", int), ("b", str)])
            dst.__name__ = dst.__qualname__ = name
            conv = get_converter(cls, dst)
            out = conv(cls(1, "s"))
            if (out.a, out.b) != (1, "s"):
                report.violation({"check": "C19.converter", "problem": "wrong_result", "site": "class_name"}, f"{what}: converter gives {out!r}", case)
            report.outcome("converted")
        except Exception as e:  # noqa: BLE001
            report.violation({"check": "C19.converter", "problem": "creation_failed", "site": "class_name", "exc": type(e.__cause__ or e).__name__},
                             f"converter between classes named {name!r} failed: {type(e).__name__}: {str(e.__cause__ or e)[:200]}", case)
        if CANARY_CALLS:
            report.violation({"check": "C19.converter", "problem": "injected_text_executed", "site": "class_name"}, f"{what}: canary called", case)


# ------------------------------------------------------------------------------------------------------------
# leg 3b: every class of characters a model or function name may contain
#
# The generators derive identifiers from __name__ (closure names, names of captured globals).  What happens to a character depends
# only on: its general category, whether ``\w`` matches it, whether it may continue an identifier, whether NFKC changes it (and into
# what), whether it is ASCII.  The code points are partitioned by that tuple (83 classes); the quick tier names a class after the
# first, the middle and the last code point of every class, the thorough tier after EVERY code point of the classes in which the
# three notions of "word character" disagree (about 8 000), each at the head and in the tail of the name.

def char_classes():
    import re
    import sys
    import unicodedata
    word = re.compile(r"\w")
    classes = {}
    for cp in range(sys.maxunicode + 1):
        if 0xD800 <= cp <= 0xDFFF:  # noqa: PLR2004
            continue
        c = chr(cp)
        n = unicodedata.normalize("NFKC", c)
        key = (unicodedata.category(c), bool(word.match(c)), ("_" + c).isidentifier(), n == c,
               all(("_" + x).isidentifier() for x in n), len(n) > 1, cp < 128)  # noqa: PLR2004
        classes.setdefault(key, []).append(cp)
    return classes


def name_char_items(tier):
    cps = []
    for key, members in sorted(char_classes().items()):
        disagree = key[1] != key[2] or not key[3]
        if tier == "thorough" and disagree:
            cps.extend(members)
        else:
            cps.extend({members[0], members[len(members) // 2], members[-1]})
    return sorted(set(cps))


def leg_name_chars(cps, report):
    from adaptix.conversion import link_function as lf
    for cp in cps:
        c = chr(cp)
        for name in (f"M{c}x", f"{c}M", f"M{c}"):
            case = {"leg": "name_chars", "codepoint": cp, "name": name}
            what = f"class and function named {name!r} (U+{cp:04X})"
            try:
                cls = dataclasses.make_dataclass("Tmp", [("a", int)])
                dst = dataclasses.make_dataclass("Tmp2", [("a", int), ("z", Any)])
                cls.__name__ = cls.__qualname__ = dst.__name__ = dst.__qualname__ = name

                def fn(s):
                    return ("fn", s.a)
                fn.__name__ = fn.__qualname__ = name
            except Exception:  # noqa: BLE001
                report.skip("Python refuses the name")
                continue
            report.case(("C19.name_chars", name), nontrivial=True, sample=case)
            try:
                r = Retort()
                ok = r.load({"a": 1}, cls).a == 1 and r.dump(cls(2)) == {"a": 2}
                out = get_converter(cls, dst, recipe=[lf(fn, P[dst].z)])(cls(3))
                ok = ok and (out.a, out.z) == (3, ("fn", 3))
            except Exception as e:  # noqa: BLE001
                report.violation({"check": "C19.name_chars", "problem": "creation_failed", "exc": type(e.__cause__ or e).__name__},
                                 f"{what}: {type(e).__name__}: {str(e.__cause__ or e)[:200]}", case)
                continue
            report.outcome("name_chars: built and run")
            if not ok:
                report.violation({"check": "C19.name_chars", "problem": "wrong_result"}, f"{what}: wrong result", case)


# ------------------------------------------------------------------------------------------------------------
# leg 4: converter — field names, function names, extra parameters, stub defaults

class Color(enum.Enum):
    RED = 1


class CodeRepr:
    def __repr__(self):
        return "__canary__()"


class BadRepr:
    def __repr__(self):
        return "<not an expression>"


class SubStr(str):
    __slots__ = ()


class SubInt(int):
    pass


class CodeStr(str):
    __slots__ = ()

    def __repr__(self):
        return "__canary__()"


class CodeInt(int):
    def __repr__(self):
        return "__canary__()"


class BadBytes(bytes):
    def __repr__(self):
        return "<not an expression>"


class KeyEnum(str, enum.Enum):
    X = "x-key"


# mapped keys that are instances of str SUBCLASSES (str-mixin enum members, classes with a repr of their own): a key is its text
KEYS += [SubStr("sub-key"), CodeStr("code-key"), KeyEnum.X]
SUBCLASSED = [SubStr("a"), SubInt(1), CodeStr("x"), CodeInt(3), BadBytes(b"x")]
CONSTANTS = [*SUBCLASSED, *KEYS, b"a\nb", b"'\"", bytearray(b"\n"), "a\\nb", "tail\\", 0, True, None, 1.5, float("inf"), 1j, Color.RED, BadRepr(),
             CodeRepr(), [1], (1,), ("a\nb",), {"k": "a\nb"}, frozenset({1}), object, len, ..., NotImplemented, range(3), b""]
# names the generators build themselves: closure names, numbered constants, the g_ prefix of captured globals
DERIVED_NAMES = ["D", "S", "DI", "SI", "g_D", "g_S", "g_DI", "coerce_S_to_D", "coerce_SI_to_DI", "constant_0", "constant_1", "func_0",
                 "func_1", "accessor_0", "g_constant_0", "g_func_0", "g_f", "g_g_D", "convert_S_to_D", "<lambda>", "a b", "1x",
                 "__debug__", "f"]


def leg_converter(items, report):
    for kind, value in items:
        case = {"leg": "converter", "kind": kind, "value": value if isinstance(value, str) else repr(value)}
        del CANARY_CALLS[:]
        report.case(("C19.converter", kind, case["value"]), nontrivial=True, sample=case)
        sig = {"check": "C19.converter", "site": kind}
        what = f"converter {kind} {case['value']!r}"
        try:
            if kind == "field_name":
                src = dataclasses.make_dataclass("S", [(value, int), ("other", str), ("dropped", int)])
                dst = dataclasses.make_dataclass("D", [(value, int), ("other", str)])
                out = get_converter(src, dst)(src(1, "s", 3))
                ok = (getattr(out, value), out.other) == (1, "s")
            elif kind == "field_pair":
                a, b = value
                src = dataclasses.make_dataclass("S", [(a, int), (b, str)])
                dst = dataclasses.make_dataclass("D", [(b, str), (a, int)])
                out = get_converter(src, dst)(src(1, "s"))
                ok = (getattr(out, a), getattr(out, b)) == (1, "s")
            elif kind == "nested_field_name":
                si = dataclasses.make_dataclass("SI", [(value, int)])
                di = dataclasses.make_dataclass("DI", [(value, int)])
                src = dataclasses.make_dataclass("S", [(value, si), ("lst", List[si])])
                dst = dataclasses.make_dataclass("D", [(value, di), ("lst", List[di])])
                out = get_converter(src, dst)(src(si(1), [si(2)]))
                ok = getattr(getattr(out, value), value) == 1 and getattr(out.lst[0], value) == 2
            elif kind == "function_name":
                src = dataclasses.make_dataclass("S", [("a", int)])
                dst = dataclasses.make_dataclass("D", [("a", int)])
                conv = get_converter(src, dst, name=value)
                ok = conv(src(1)).a == 1 and conv.__name__ == value and list(inspect.signature(conv).parameters) == ["src"]
            elif kind == "param_name":
                src = dataclasses.make_dataclass("S", [("a", int)])
                dst = dataclasses.make_dataclass("D", [("a", int), (value, int)])
                ns = {"src_cls": src, "dst_cls": dst, "impl_converter": impl_converter}
                exec(f"@impl_converter\ndef conv(s: src_cls, {value}: int) -> dst_cls: ...\n", ns)  # noqa: S102
                out = ns["conv"](src(1), 5)
                ok = (out.a, getattr(out, value)) == (1, 5)
            elif kind == "stub_default":
                src = dataclasses.make_dataclass("S", [("a", int)])
                dst = dataclasses.make_dataclass("D", [("a", int), ("extra", Any)])

                def stub(s: src, extra: Any = value) -> dst:
                    ...
                conv = impl_converter(stub)
                out = conv(src(1))
                both_nan = type(value) is float and type(out.extra) is float and value != value and out.extra != out.extra
                ok = (out.a == 1 and (out.extra is value or both_nan or (type(out.extra) is type(value) and out.extra == value
                                                                         and repr(out.extra) == repr(value)))
                      and (inspect.signature(conv) == inspect.signature(stub) or (both_nan and str(inspect.signature(conv)) == str(inspect.signature(stub)))))
            elif kind == "model_default":
                try:
                    cls = dataclasses.make_dataclass("M", [("a", int), ("b", Any, dataclasses.field(default=value))])
                except ValueError:
                    report.skip("dataclasses refuses the mutable default")
                    continue
                same = lambda got: got is value or (type(got) is type(value) and got == value)  # noqa: E731
                ok = True
                for r in [*retorts([]).values(), *retorts([name_mapping(cls, omit_default=True)]).values()]:
                    ok = ok and same(r.load({"a": 1}, cls).b) and r.dump(cls(1))["a"] == 1
            elif kind == "link_constant":
                inner_s = dataclasses.make_dataclass("SI", [("n", int)])
                inner_d = dataclasses.make_dataclass("DI", [("n", int), ("k", Any)])
                src = dataclasses.make_dataclass("S", [("a", int), ("i", inner_s)])
                dst = dataclasses.make_dataclass("D", [("a", int), ("i", inner_d), ("z", Any)])
                conv = get_converter(src, dst, recipe=[link_constant(P[dst].z, value=value), link_constant(P[inner_d].k, value=value)])
                out = conv(src(1, inner_s(2)))
                same = lambda got: got is value or (type(got) is type(value) and got == value)  # noqa: E731
                ok = (out.a, out.i.n) == (1, 2) and same(out.z) and same(out.i.k)
            elif kind == "link_function_name":
                inner_s = dataclasses.make_dataclass("SI", [("n", int)])
                inner_d = dataclasses.make_dataclass("DI", [("n", int), ("k", Any)])
                src = dataclasses.make_dataclass("S", [("a", int), ("i", inner_s)])
                dst = dataclasses.make_dataclass("D", [("a", int), ("i", inner_d), ("y", Any), ("z", Any)])
                marker = object()

                def fn(s):
                    return ("fn", s.a)

                def fn2(s):
                    return ("fn2", s.n)
                fn.__name__ = fn.__qualname__ = fn2.__name__ = fn2.__qualname__ = value
                conv = get_converter(src, dst, recipe=[
                    link_function(fn, P[dst].y), link_constant(P[dst].z, value=marker),
                    link_function(fn2, P[inner_d].k),
                ])
                out = conv(src(1, inner_s(2)))
                ok = (out.a, out.i.n, out.y, out.i.k) == (1, 2, ("fn", 1), ("fn2", 2)) and out.z is marker
            elif kind in ("link_factory", "link_factory_named"):
                # the factory IS a builtin (or a user function carrying the name of one): the generators capture it under its name
                if kind == "link_factory_named":
                    def named_factory():
                        return ["made"]
                    named_factory.__name__ = named_factory.__qualname__ = value
                    value = named_factory  # noqa: PLW2901
                inner_s = dataclasses.make_dataclass("SI", [("n", int)])
                inner_d = dataclasses.make_dataclass("DI", [("n", int), ("k", Any)])
                src = dataclasses.make_dataclass("S", [("a", int), ("i", inner_s)])
                dst = dataclasses.make_dataclass("D", [("a", int), ("i", inner_d), ("z", Any), ("y", Any)])
                conv = get_converter(src, dst, recipe=[link_constant(P[dst].z, factory=value), link_constant(P[dst].y, factory=value),
                                                       link_constant(P[inner_d].k, factory=value)])
                out = conv(src(1, inner_s(2)))
                want = value()
                same = lambda got: type(got) is type(want) and (got == want or type(want) is object)  # noqa: E731
                ok = (out.a, out.i.n) == (1, 2) and same(out.z) and same(out.y) and same(out.i.k)
            elif kind == "link_function_builtin":
                src = dataclasses.make_dataclass("S", [("a", int)], namespace={
                    "__len__": lambda self: 3, "__hash__": lambda self: 11, "__iter__": lambda self: iter((1, 0)),
                    "__abs__": lambda self: 7, "__index__": lambda self: 12})
                dst = dataclasses.make_dataclass("D", [("a", int), ("z", Any)])
                obj = src(1)
                want = value(obj)
                conv = get_converter(src, dst, recipe=[link_function(value, P[dst].z)])
                out = conv(obj)
                ok = out.a == 1 and type(out.z) is type(want) and out.z == want
            elif kind == "coercer_builtin":
                src = dataclasses.make_dataclass("S", [("a", int), ("b", List[int])])
                dst = dataclasses.make_dataclass("D", [("a", str), ("b", List[str])])
                conv = get_converter(src, dst, recipe=[coercer(int, str, func=value)])
                out = conv(src(65, [66]))
                ok = (out.a, out.b) == (value(65), [value(66)])
            elif kind == "model_name":
                inner_s = dataclasses.make_dataclass("SI", [("n", int)])
                inner_d = dataclasses.make_dataclass("DI", [("n", int), ("k", Any)])
                src = dataclasses.make_dataclass("S", [("a", int), ("i", inner_s)])
                dst = dataclasses.make_dataclass("D", [("a", int), ("i", inner_d), ("y", Any), ("z", Any)])
                which, name = value
                for c in {"dst": (dst, inner_d), "src": (src, inner_s), "both": (src, dst, inner_s, inner_d)}[which]:
                    c.__name__ = c.__qualname__ = name
                marker, marker2 = object(), object()

                def f(s):
                    return ("f", s.a)
                conv = get_converter(src, dst, recipe=[
                    link_function(f, P[dst].y), link_constant(P[dst].z, value=marker), link_constant(P[inner_d].k, value=marker2),
                ])
                out = conv(src(1, inner_s(2)))
                ok = ((out.a, out.i.n, out.y) == (1, 2, ("f", 1)) and out.z is marker and out.i.k is marker2
                      and type(out) is dst and type(out.i) is inner_d)
            else:
                raise ValueError(kind)
        except Exception as e:  # noqa: BLE001
            report.violation({**sig, "problem": "creation_failed", "exc": type(e.__cause__ or e).__name__},
                             f"{what}: {type(e).__name__}: {str(e.__cause__ or e)[:200]}", case)
            ok = True
        else:
            report.outcome("converted")
        if not ok:
            report.violation({**sig, "problem": "wrong_result"}, f"{what}: wrong result", case)
        if CANARY_CALLS:
            report.violation({**sig, "problem": "injected_text_executed"}, f"{what}: the canary was called: injected text was executed", case)
            del CANARY_CALLS[:]


# ------------------------------------------------------------------------------------------------------------

def shard_fn(args):
    leg, items, tier = args
    _TIER[0] = tier
    report = Report()
    {"ident": leg_identifiers, "keys": leg_keys, "classes": leg_class_names, "conv": leg_converter,
     "kwfields": leg_keyword_fields, "namechars": leg_name_chars}[leg](items, report)
    return report


def run(tier):
    report = Report()
    ids = identifiers()
    pairs = [(x, "benign") for x in ids] + [("benign", x) for x in ids]
    for x in ids if tier == "thorough" else ids[:len(GEN_NAMES)][::2]:
        for p in PREFIXES:
            if (p + x).isidentifier():
                pairs.append((x, p + x))
                pairs.append((p + x, x))
    # names the generators could derive by APPENDING to a field name
    for x in ids if tier == "thorough" else ids[:len(GEN_NAMES)][::2] + ["limit", "x"]:
        for suf in SUFFIXES:
            if (x + suf).isidentifier():
                pairs.append((x, x + suf))
                pairs.append((x + suf, x))
    if tier == "thorough":
        pairs += [(a, b) for a, b in itertools.permutations(ids, 2)]
    shards = [("ident", pairs[i::96], tier) for i in range(96) if pairs[i::96]]
    shards += [("keys", KEYS[i::16], tier) for i in range(16) if KEYS[i::16]]
    shards += [("classes", CLASS_NAMES[i::8], tier) for i in range(8) if CLASS_NAMES[i::8]]
    # ... and identifiers that Python would NFKC-normalise if they were written in source (MICRO SIGN, a ligature, FEMININE ORDINAL)
    kw_names = [n for n in [*keyword.kwlist, *getattr(keyword, "softkwlist", []), "print", "self", "cls", "data",
                            "\u00b5s", "\ufb01eld", "x\u00aa"] if not n.startswith("_")]
    shards += [("kwfields", kw_names[i::8], tier) for i in range(8) if kw_names[i::8]]
    conv_items = [("field_name", x) for x in ids] + [("nested_field_name", x) for x in ids]
    conv_items += [("field_pair", (x, p + x)) for x in ids[:40] for p in ("f_", "r_", "v_", "coercer_", "src_") if (p + x).isidentifier()]
    # keywords are not legal function names and are left out; names the generators derive themselves are put in
    conv_items += [("function_name", x) for x in ids + ["g_coercer", "g__closure_signature", "g_S", "g_D", "g_convert", "coerce_S_to_D",
                                                        "g__stub_function", "g__update_wrapper", "_closure_maker", "g_g_coercer"]]
    conv_items += [("param_name", x) for x in ids if x not in ("s", "self")]
    conv_items += [("stub_default", v) for v in (0, "x", None, 1.5, Color.RED, BadRepr(), CodeRepr(), [1], (1,), object, len, *SUBCLASSED,
                                                      float("inf"), float("-inf"), float("nan"), -0.0, 10**30, b"\x00", 1e308, True)]
    conv_items += [("model_default", v) for v in CONSTANTS]
    conv_items += [("link_constant", v) for v in CONSTANTS]
    conv_items += [("link_function_name", x) for x in ids + DERIVED_NAMES + CLASS_NAMES]
    conv_items += [("model_name", (w, x)) for w in ("dst", "src", "both") for x in ids + DERIVED_NAMES + CLASS_NAMES]
    builtin_factories = [set, list, dict, tuple, bytearray, str, int, float, object, frozenset, bytes, bool, complex]
    conv_items += [("link_factory", f) for f in builtin_factories]
    conv_items += [("link_factory_named", x) for x in [*BUILTINS, "constant_0", "g_set", "factory_0"]]
    conv_items += [("link_function_builtin", f) for f in (len, repr, id, hash, callable, ascii, any, all, abs, list, tuple, bin, oct, hex)]
    conv_items += [("coercer_builtin", f) for f in (str, repr, hex, bin, oct, ascii, chr, format, float, bool)]
    shards += [("conv", conv_items[i::16], tier) for i in range(16) if conv_items[i::16]]
    cps = name_char_items(tier)
    report.count("name_char_codepoints", len(cps))
    shards += [("namechars", cps[i::32], tier) for i in range(32) if cps[i::32]]
    report.count("identifier_pairs", len(pairs))
    report.count("keys", len(KEYS))
    parallel.run_shards(shard_fn, shards, report=report)
    return report


def SANITY(report, tier):  # noqa: N802
    problems = []
    for k, n in (("loaded", 3000), ("dumped", 1000), ("converted", 100)):
        if report.outcomes[k] < n:
            problems.append(f"outcome {k} only {report.outcomes[k]} times")
    return problems


def replay(case):
    report = Report()
    leg = case["leg"]
    if leg == "ident":
        leg_identifiers([tuple(case["names"])], report)
    elif leg == "key":
        leg_keys([case["key"]], report)
    elif leg == "class_name":
        leg_class_names([case["name"]], report)
    else:
        return "converter cases are replayed by re-running the check (values are not JSON-serialisable)"
    for v in report.violations.values():
        if all(v["case"].get(k) == case.get(k) for k in ("variant", "site") if k in case):
            return v["what"]
    return None
