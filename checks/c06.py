"""C06 — debug_trail changes only error reporting, never what is accepted or returned.

For every (type, datum, strict) of the MATRIX space the three debug modes are three independently generated
programs: they must agree on success and value; on failure every leaf of the DISABLE / FIRST error must correspond
(class, offending input value) to a leaf of the ALL tree.  Same for dumping (well-typed and ill-typed values) and for a
recipe variant with a user loader that raises a non-LoadError.
"""
from adaptix import loader

from mc import codec, parallel
from mc.matrix import DEBUGS, MODES, kind_of, leaves_of, mode_name, type_shards
from mc.matrix import run as mrun
from mc.ref_types import same
from mc.report import Report
from mc.space import A0, from_json, show, to_json, unwrap, values_of
from mc.sweep import dump_sweep, dumpers_for, load_sweep

META = {
    "level": "exploration",
    "rule": (
        "cases = (TypeSpec, datum, strict) triples (and (TypeSpec, value) dump pairs), all enumerated, each executed in the "
        "3 debug modes; non-trivial when at least one mode rejected (error correspondence is then compared) or the value "
        "was converted; plus the same sweep under a recipe with a user loader raising ValueError on 13"
    ),
    "assumptions": [
        "an escaping non-LoadError counts as a rejection here and is compared by class only (its class is C04's business)",
        "order of collected errors is not compared (documented as not guaranteed)",
    ],
    "bound": {"quick": "type depth <= 2", "thorough": "type depth <= 3"},
}


def _input_of(e):
    return getattr(e, "input_value", _MISSING)


_MISSING = object()


def _corresponds(leaf, all_leaves):
    for a in all_leaves:
        if type(a) is not type(leaf):
            continue
        x, y = _input_of(leaf), _input_of(a)
        if x is _MISSING and y is _MISSING:
            return True
        if x is _MISSING or y is _MISSING:
            continue
        if same(x, y) or (type(x) is type(y) and (hasattr(x, "__next__") or codec.srepr(x) == codec.srepr(y))):
            return True
    return False


def compare_modes(outs, what_fn, case, report, check):
    """outs: {debug: Ok|Err}"""
    oks = {d: o.ok for d, o in outs.items()}
    if len(set(oks.values())) > 1:
        report.violation(
            {"check": check, "problem": "acceptance_differs",
             "accepting": sorted(d for d, ok in oks.items() if ok), "node": case["node"]},
            f"{what_fn()}: modes disagree on success: " + ", ".join(f"{d}={outs[d]!r}" for d in DEBUGS), case)
        return
    if all(oks.values()):
        ref = outs["ALL"].value
        for d in ("DISABLE", "FIRST"):
            v = outs[d].value
            if not (same(v, ref) or (hasattr(v, "__next__") and type(v) is type(ref)) or _lax_repr_same(v, ref)):
                report.violation({"check": check, "problem": "value_differs", "node": case["node"]},
                                 f"{what_fn()}: {d} gives {codec.show(v, 60)} but ALL gives {codec.show(ref, 60)}", case)
        return
    # whether a failure IS a LoadError decides what `except LoadError` (a union around, the caller) does with it: when DISABLE or
    # FIRST raise something that is no LoadError (a user loader's own exception), ALL may not wrap it into a LoadError
    from adaptix.load_error import LoadError as _LoadError
    for d in ("DISABLE", "FIRST"):
        if not isinstance(outs[d].exc, _LoadError) and isinstance(outs["ALL"].exc, _LoadError) \
                and any(not isinstance(x, _LoadError) for x in leaves_of(outs["ALL"].exc)):
            report.violation({"check": check, "problem": "unexpected_error_becomes_LoadError_under_ALL", "node": case["node"]},
                             f"{what_fn()}: {d} raised {type(outs[d].exc).__name__} (no LoadError) but ALL raised "
                             f"{type(outs['ALL'].exc).__name__}, a LoadError carrying it", case)
            return
    all_leaves = leaves_of(outs["ALL"].exc)
    for d in ("DISABLE", "FIRST"):
        for leaf in leaves_of(outs[d].exc):
            if not _corresponds(leaf, all_leaves):
                sig = {"check": check, "problem": "error_not_among_ALL_errors", "mode": d, "exc": type(leaf).__name__,
                       "node": case["node"]}
                if type(leaf).__name__ == "LoadError" and not leaf.args and d == "DISABLE":
                    sig = {"check": check, "problem": "error_not_among_ALL_errors", "cause": "bare_LoadError_from_union_under_DISABLE"}
                report.violation(
                    sig,
                    f"{what_fn()}: {d} raised {type(leaf).__name__}({codec.show(_input_of(leaf), 40) if _input_of(leaf) is not _MISSING else ''})"
                    f" which matches none of the ALL errors {[type(a).__name__ for a in all_leaves][:6]}", case)
                break


def _lax_repr_same(a, b):
    return type(a) is str and type(b) is str and " object at 0x" in a and " object at 0x" in b


def _node(ts):
    u = unwrap(ts)
    return u[0]


def load_oracle(ctx):
    ts, datum, report = ctx.ts, ctx.datum, ctx.report
    for strict in (True, False):
        outs = {d: ctx.vec[(d, strict)] for d in DEBUGS}
        nontrivial = not all(o.ok for o in outs.values())
        key = (ctx.recipe_key, ts, datum.name, strict)
        report.case(key, nontrivial=nontrivial,
                    sample=lambda: {"type": to_json(ts), "datum": datum.name, "strict": strict, "recipe": ctx.recipe_key,
                                    "outcomes": {d: repr(o) for d, o in outs.items()}})
        report.outcome("load:" + "".join("A" if outs[d].ok else "R" for d in DEBUGS))
        case = {"kind": "load", "type": to_json(ts), "datum": datum.name, "strict": strict, "recipe": ctx.recipe_key,
                "node": _node(ts)}
        compare_modes(outs, lambda: f"load {show(ts)} <- {datum.name} [{'strict' if strict else 'lax'}; recipe={ctx.recipe_key}]",
                      case, report, "C06.load")


ILL_TYPED = [d for d in A0 if d.name in ("None", "1", "'a'", "[1]", "{'a': 1}", "1.5", "object()", "(1, 2)")]


def dump_oracle(ctx, idx):
    ts, x, report = ctx.ts, ctx.datum, ctx.report
    outs = ctx.vec
    report.case(("dump", ts, idx), nontrivial=True)
    report.outcome("dump:" + "".join("A" if outs[d].ok else "R" for d in DEBUGS))
    case = {"kind": "dump", "type": to_json(ts), "value_index": idx, "node": _node(ts)}
    compare_modes(outs, lambda: f"dump {show(ts)} of {codec.show(x, 50)}", case, report, "C06.dump")


def ill_typed_dumps(types, report):
    for ts in types:
        try:
            if not values_of(ts):
                continue
        except ValueError:
            continue
        dumpers = dumpers_for(ts)
        if any(isinstance(d, Exception) for d in dumpers.values()):
            continue
        for datum in ILL_TYPED:
            outs = {d: mrun(dumpers[d], datum.fresh()) for d in DEBUGS}
            report.case(("dump-ill", ts, datum.name), nontrivial=not all(o.ok for o in outs.values()))
            report.outcome("dump-ill:" + "".join("A" if outs[d].ok else "R" for d in DEBUGS))
            case = {"kind": "dump_ill", "type": to_json(ts), "datum": datum.name, "node": _node(ts)}
            compare_modes(outs, lambda: f"dump {show(ts)} of ill-typed {datum.name}", case, report, "C06.dump")


def _user_loader(d):
    if type(d) is int and d == 13:
        raise ValueError("unlucky")
    if type(d) is not int:
        from adaptix.load_error import TypeLoadError
        raise TypeLoadError(int, d)
    return d


USER_RECIPE = [loader(int, _user_loader)]


def _has_int(ts):
    u = unwrap(ts)
    return u[0] == "int" or any(_has_int(t) for t in u[1:] if isinstance(t, tuple))


def shard(types):
    report = Report()
    load_sweep(types, load_oracle, report)
    dump_sweep(types, dump_oracle, report)
    ill_typed_dumps(types, report)
    load_sweep([t for t in types if _has_int(t)], load_oracle, report, recipe_key="userloader", recipe=USER_RECIPE)
    return report


def model_user_loader_leg(report):
    """models (every kind the generated model loader serves) below the recipe whose int loader raises ValueError on 13: every
    combination of {good, unlucky 13, ill-typed} per field, flat, nested and inside a list; what is no LoadError under DISABLE /
    FIRST may not be reported as a LoadError under ALL, and the modes agree on success and value"""
    import dataclasses
    import itertools
    from typing import List, NamedTuple, TypedDict
    from adaptix import DebugTrail, Retort

    @dataclasses.dataclass
    class DM:
        a: int
        b: str
        c: int = 0

    class NM(NamedTuple):
        a: int
        b: str
        c: int = 0

    class TM(TypedDict):
        a: int
        b: str

    @dataclasses.dataclass
    class Outer:
        m: DM
        ms: List[DM]
        t: TM

    retorts = {d: Retort(recipe=USER_RECIPE, debug_trail=DebugTrail[d]) for d in DEBUGS}
    a_vals, b_vals = (1, 13, "x"), ("s", 5)
    flat = [{"a": a, "b": b, **({"c": c} if c is not None else {})} for a in a_vals for b in b_vals for c in (None, 13, "y")]
    programs = [(name, tp, flat) for name, tp in (("dataclass", DM), ("NamedTuple", NM), ("TypedDict", TM))]
    nested = [{"m": m, "ms": [m2], "t": {"a": ta, "b": "s"}} for m, m2 in itertools.product(flat[::4], repeat=2) for ta in a_vals]
    programs.append(("nested", Outer, nested))
    for name, tp, data in programs:
        loaders = {d: retorts[d].get_loader(tp) for d in DEBUGS}
        for i, datum in enumerate(data):
            import copy
            outs = {d: mrun(loaders[d], copy.deepcopy(datum)) for d in DEBUGS}
            report.case(("model-userloader", name, i), nontrivial=not all(o.ok for o in outs.values()),
                        sample=lambda: {"kind": "model_userloader", "model": name, "datum": codec.enc(datum)})
            report.outcome("load:" + "".join("A" if outs[d].ok else "R" for d in DEBUGS))
            case = {"kind": "model_userloader", "model": name, "index": i, "node": "Model"}
            compare_modes(outs, lambda: f"load {name} model <- {codec.show(datum, 80)} [recipe=userloader]", case, report, "C06.load")


def run(tier):
    report = Report()
    model_user_loader_leg(report)
    parallel.run_shards(shard, type_shards(tier, 64 if tier == "quick" else 256), report=report)
    try:
        from checks import c06_models
    except ImportError:
        report.notes.append("model leg not built yet")
    else:
        c06_models.run(tier, report)
    return report


def SANITY(report, tier):  # noqa: N802
    problems = []
    if report.outcomes["load:RRR"] < 1000 or report.outcomes["load:AAA"] < 1000:
        problems.append("too few agreeing accept/reject vectors")
    if report.outcomes["dump-ill:RRR"] < 50:
        problems.append("dump error paths not entered")
    return problems


def replay(case):
    from mc.matrix import find_datum
    from mc.sweep import Ctx, loaders_for
    report = Report()
    if case["kind"] == "model_userloader":
        model_user_loader_leg(report)
        for v in report.violations.values():
            return v["what"]
        return None
    if case["kind"] not in ("load", "dump", "dump_ill"):
        from checks import c06_models
        return c06_models.replay(case)
    ts = from_json(case["type"])
    if case["kind"] == "load":
        datum = find_datum(ts, case["datum"])
        recipe = USER_RECIPE if case.get("recipe") == "userloader" else ()
        loaders = loaders_for(ts, case.get("recipe", "default"), recipe)
        ctx = Ctx()
        ctx.ts, ctx.datum, ctx.report, ctx.recipe_key = ts, datum, report, case.get("recipe", "default")
        ctx.inputs = {mode: datum.fresh() for mode in MODES}
        ctx.vec = {mode: mrun(loaders[mode], ctx.inputs[mode]) for mode in MODES}
        load_oracle(ctx)
    elif case["kind"] == "dump":
        from mc.sweep import Ctx
        x = values_of(ts)[case["value_index"]]
        dumpers = dumpers_for(ts)
        ctx = Ctx()
        ctx.ts, ctx.datum, ctx.report = ts, x, report
        ctx.vec = {d: mrun(dumpers[d], x) for d in DEBUGS}
        dump_oracle(ctx, case["value_index"])
    else:
        ill_typed_dumps([ts], report)
    for v in report.violations.values():
        return v["what"]
    return None
