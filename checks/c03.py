"""C03 — generated model loaders/dumpers honour the configured outer layout exactly.

Every (model shape, kind, name_mapping recipe) program of a deviation-bounded enumeration of the option cube is generated
in all 6 modes and compared with an independent interpreter of the documented layout rules (mc/ref_layout.py):
  * creation succeeds iff the reference says the configuration is valid;
  * for every input of the product {each mapped key: two good values / ill-typed / absent} x {extra keys: none / one / two /
    colliding with a renamed field id} and every branch node replaced by every wrong kind: accept/reject agreement in all
    modes, field values, defaults, delivered extras; in ALL mode the exact set of layout errors (missing keys, unknown keys,
    wrong node kinds, list lengths) with their trails;
  * for every dumped object: the leaf map (path -> value) and list placeholders.
"""
import copy

from mc import codec, parallel
from mc.matrix import DEBUGS, MODES, mode_name
from mc.models import TYPES, field_values, spec_valid
from mc.modsweep import (
    EXTRACTED,
    QUICK_SHAPES,
    SAT_LOG,
    SHAPES,
    Program,
    clear_caches,
    configs_upto,
    describe_errors,
    inputs_for,
    stacked_configs,
)
from mc.ref_layout import (
    _MISSING,
    Invalid,
    Unspec,
    assemble,
    default_of,
    effective,
    extra_targets,
    field_paths,
    flatten,
    ref_dump,
    ref_load,
    validate,
)
from mc.ref_types import same
from mc.report import Report

META = {
    "level": "exploration",
    "rule": (
        "programs = (shape, kind, list of name_mapping configs): all configs with <= 2 option deviations from the default "
        "(thorough: <= 2 for all 13 shapes and 4 kinds, <= 3 over the structural options, stacked provider pairs); inputs = full "
        "product of per-field variants x extra-key variants + every branch node x every wrong kind; all enumerated; a program "
        "is non-trivial when at least one option is set; a case = (program, input, mode) or (program, object, debug mode)"
    ),
    "assumptions": [
        "mc/ref_layout.py transcribes extended-usage.rst; UNSPEC (not compared): name styles of names with leading/trailing/"
        "double underscores, objects with item access that are not Mapping/Sequence, ExtraKwargs colliding with a parameter "
        "name (documented TypeError), empty intermediate dicts in dumps, nested empty extras, provider bound to a base class",
        "field types are int/str/bool/Optional[int]/List[int]/Dict[str,Any]/Any/one nested dataclass; <= 3 fields",
    ],
    "bound": {"quick": "7 shapes x dataclass with <=2 deviations; typeddict/namedtuple/kwinit with <=1",
              "thorough": "13 shapes x {dataclass, attrs} with <=2 deviations, typeddict/namedtuple/kwinit <=2, stacked pairs, 3 structural deviations"},
}


def config_meaningful(spec, cfgs):
    """rule-based pruning of corners that say nothing (counted as skipped)"""
    n = len(spec["fields"])
    schema = effective(cfgs)
    for side in ("in", "out"):
        for t in extra_targets(schema, side):
            if spec["fields"][t][1] != "dictany":
                return "extra target must be a Dict[str, Any] field"
    if schema["extra_in"] == "kwargs" and spec["kind"] != "kwinit":
        return "ExtraKwargs needs a constructor with **kwargs"
    if spec["kind"] == "kwinit" and schema["extra_in"] != "kwargs":
        return "kwinit kind is only used for ExtraKwargs"
    if schema["extra_in"] == "kwargs":
        try:
            heads = {p[0] for p in field_paths(spec, schema, "in").values() if p not in (None, "target") and len(p) > 1}
        except Unspec:
            heads = set()
        if heads & {f[0] for f in spec["fields"]}:
            return "ExtraKwargs: a nested-path head equals a constructor parameter name (documented flaw of ExtraKwargs)"
    if spec["kind"] == "typeddict" and (schema["extra_in"] not in ("skip", "forbid") or schema["extra_out"] != "skip"):
        return "TypedDict has no place for extras"
    if spec["kind"] == "namedtuple" and schema["extra_in"] == "saturator":
        return "saturator cannot mutate a NamedTuple"
    for c in cfgs:
        if c.get("map") in ("prefix", "dup") and n < 2:
            return "map variant needs two fields"
    if spec["kind"] == "typeddict":
        if schema["as_list"] or any(m.startswith("idx") for m in schema["map"] + schema["map_tail"]):
            return "TypedDict fields are ordered alphabetically by the introspection, not by definition (list positions UNSPEC)"
        notreq = any(f[2] != "req" for f in spec["fields"])
        uses_type = any(isinstance(schema[k], (list, tuple)) and schema[k][0] == "type" for k in ("skip", "only", "omit_default")) \
            or "pairs_int" in schema["map"] + schema["map_tail"]
        if notreq and uses_type:
            return "type predicates on NotRequired[...] TypedDict items (UNSPEC: the item type is the NotRequired form)"
    return None


def _norm_extras(extras, branch_keys):
    if extras is None:
        return None
    out = {}
    for k, v in extras.items():
        if k in branch_keys and isinstance(v, dict):
            sub = _norm_extras(v, branch_keys)
            if sub:
                out[k] = sub
        else:
            out[k] = v
    return out


def expected_creation(spec, schema, side):
    try:
        paths = field_paths(spec, schema, side)
        node_kinds = validate(spec, schema, side, paths)
    except Invalid as e:
        return ("invalid", str(e))
    except Unspec as e:
        return ("unspec", str(e))
    return ("valid", paths, node_kinds)


def check_program(spec, cfgs, report):  # noqa: C901, PLR0912, PLR0915
    why = config_meaningful(spec, cfgs)
    if why:
        report.skip(why)
        return
    schema = effective(cfgs)
    prog_json = {"spec": spec, "configs": cfgs}
    nontrivial = any(c for c in cfgs)
    prog = Program(spec, cfgs)
    if prog.recipe_error is not None:
        report.violation({"check": "C03.creation", "problem": "name_mapping_call_failed", "exc": type(prog.recipe_error).__name__},
                         f"name_mapping(...) itself raised {type(prog.recipe_error).__name__}: {prog.recipe_error} for {cfgs}", prog_json)
        return
    kind = spec["kind"]
    # ---------------- loader side
    exp = expected_creation(spec, schema, "in")
    feature = sorted(k for c in cfgs for k in c if k != "chain")
    if exp[0] == "unspec":
        report.skip("reference UNSPEC: " + exp[1].split(" of ")[0])
    elif exp[0] == "invalid":
        report.case(("create-in", spec["kind"], str(spec["fields"]), str(cfgs)), nontrivial=nontrivial)
        report.outcome("loader creation refused (expected)" if prog.load_creation_error else "loader created for invalid config")
        if prog.load_creation_error is None:
            report.violation({"check": "C03.creation", "problem": "invalid_config_accepted", "side": "loader", "why": exp[1]},
                             f"loader created although the configuration is invalid ({exp[1]}): {kind} {spec['fields']} {cfgs}", prog_json)
    else:
        _, in_paths, node_kinds = exp
        if prog.load_creation_error is not None:
            report.case(("create-in", spec["kind"], str(spec["fields"]), str(cfgs)), nontrivial=nontrivial)
            report.outcome("loader creation failed for valid config")
            cause = prog.load_creation_error.__cause__
            report.violation({"check": "C03.creation", "problem": "valid_config_refused", "side": "loader", "features": feature},
                             f"loader creation failed: {type(prog.load_creation_error).__name__}: {str(cause)[:200]} for {kind} {spec['fields']} {cfgs}",
                             prog_json)
        else:
            _check_loads(prog, spec, cfgs, schema, in_paths, node_kinds, report, nontrivial, prog_json, feature)
    # ---------------- dumper side
    if kind == "kwinit":
        return
    exp = expected_creation(spec, schema, "out")
    if exp[0] == "unspec":
        report.skip("reference UNSPEC: " + exp[1].split(" of ")[0])
    elif exp[0] == "invalid":
        report.case(("create-out", spec["kind"], str(spec["fields"]), str(cfgs)), nontrivial=nontrivial)
        if prog.dump_creation_error is None:
            report.violation({"check": "C03.creation", "problem": "invalid_config_accepted", "side": "dumper", "why": exp[1]},
                             f"dumper created although the configuration is invalid ({exp[1]}): {kind} {spec['fields']} {cfgs}", prog_json)
    else:
        _, out_paths, node_kinds = exp
        if prog.dump_creation_error is not None:
            cause = prog.dump_creation_error.__cause__
            report.case(("create-out", spec["kind"], str(spec["fields"]), str(cfgs)), nontrivial=nontrivial)
            report.violation({"check": "C03.creation", "problem": "valid_config_refused", "side": "dumper", "features": feature},
                             f"dumper creation failed: {type(prog.dump_creation_error).__name__}: {str(cause)[:200]} for {kind} {spec['fields']} {cfgs}",
                             prog_json)
        else:
            _check_dumps(prog, spec, cfgs, schema, out_paths, node_kinds, report, nontrivial, prog_json, feature)


def _check_loads(prog, spec, cfgs, schema, in_paths, node_kinds, report, nontrivial, prog_json, feature):  # noqa: C901, PLR0912
    kind = spec["kind"]
    renamed = [spec["fields"][i][0] for i, p in in_paths.items()
               if p not in (None, "target") and p != (spec["fields"][i][0],) and not isinstance(p[0], int)]
    param_names = {f[0] for f in spec["fields"]}
    branch_keys = {p[-1] for p in node_kinds if p}
    targets = extra_targets(schema, "in")
    for iname, make in inputs_for(spec, in_paths, node_kinds, renamed):
        for strict in (True, False):
            try:
                ref = ref_load(spec, schema, make(), strict)
            except Unspec as e:
                report.skip("reference UNSPEC: " + str(e))
                continue
            if schema["extra_in"] == "kwargs" and isinstance(make(), dict) and set(make()) & param_names - \
                    {p[0] for p in in_paths.values() if p not in (None, "target")}:
                report.skip("ExtraKwargs: unknown key equal to a constructor parameter name (documented TypeError)")
                continue
            if schema["extra_in"] not in ("skip", "forbid") and _has_nonstr_key(make()):
                report.skip("collecting policies with non-string unknown keys (extras are documented as Mapping[str, Any])")
                continue
            for dbg in DEBUGS:
                mode = (dbg, strict)
                datum = make()
                snapshot = copy.deepcopy(datum)
                del SAT_LOG[:]
                out = prog.load(mode, datum)
                case = {**prog_json, "input": iname, "mode": list(mode)}
                report.case(("load", kind, str(spec["fields"]), str(cfgs), iname, mode), nontrivial=nontrivial,
                            sample=lambda: {**case, "datum": codec.enc(snapshot), "reference": ref[0], "impl": repr(out)})
                report.outcome(f"load ref={ref[0]} impl={'ok' if out.ok else 'err'}")

                def viol(problem, text):
                    report.violation({"check": "C03.load", "problem": problem, "features": feature},
                                     f"{kind} {spec['fields']} {cfgs} <- {codec.show(snapshot, 80)} [{mode_name(mode)}]: {text}", case)

                if ref[0] == "err":
                    if out.ok:
                        viol("accepts_invalid_input", f"accepted ({codec.show(field_values(out.value, spec), 80)}) but the layout rules give errors {sorted(map(str, ref[1]))[:3]}")
                    elif dbg == "ALL":
                        got = describe_errors(out.exc, in_paths, node_kinds)
                        if got != ref[1]:
                            viol("wrong_error_set", f"ALL-mode errors {sorted(map(str, got))[:4]} but expected {sorted(map(str, ref[1]))[:4]}")
                    continue
                if not out.ok:
                    viol("rejects_valid_input", f"raised {type(out.exc).__name__}: {str(out.exc)[:100]}")
                    continue
                obj = out.value
                got_values = field_values(obj, spec)
                _, want_values, want_extras = ref
                want_extras = _norm_extras(want_extras, branch_keys)
                for idx, (fname, tkey, req) in enumerate(spec["fields"]):
                    if idx in targets:
                        want = {} if want_extras is None else want_extras
                        if not same(got_values.get(fname, _MISSING), want):
                            if same(_norm_extras(got_values.get(fname), branch_keys), want):
                                continue
                            viol("extras_delivery", f"target field {fname} = {codec.show(got_values.get(fname), 60)}, expected the unknown keys {want}")
                        continue
                    want = want_values.get(idx, _MISSING)
                    if want is _MISSING:
                        if kind == "typeddict":
                            if fname in got_values:
                                viol("default", f"absent NotRequired key {fname} appeared with {got_values[fname]!r}")
                            continue
                        want = default_of(spec, idx)
                    if fname not in got_values or not same(got_values[fname], want):
                        viol("field_value", f"field {fname} = {codec.show(got_values.get(fname, '<absent>'), 50)}, expected {codec.show(want, 50)}")
                if schema["extra_in"] == "kwargs":
                    if _norm_extras(obj.kwargs, branch_keys) != want_extras:
                        viol("extras_delivery", f"**kwargs = {obj.kwargs}, expected {want_extras}")
                elif schema["extra_in"] == "saturator":
                    if len(SAT_LOG) != 1 or SAT_LOG[0][0] is not obj or _norm_extras(SAT_LOG[0][1], branch_keys) != want_extras:
                        viol("extras_delivery", f"saturator calls {[(type(o).__name__, e) for o, e in SAT_LOG]}, expected one call with {want_extras}")
                if not same(datum, snapshot):
                    viol("input_mutated", f"input mutated to {codec.show(datum, 80)}")


def _has_nonstr_key(d):
    if isinstance(d, dict):
        return any(type(k) is not str or _has_nonstr_key(v) for k, v in d.items())
    if isinstance(d, list):
        return any(_has_nonstr_key(v) for v in d)
    return False


def _dump_objects(prog, spec):
    kind = spec["kind"]
    from mc.models import construct
    objs = []
    for variant in ("g0", "g1", "defaults"):
        values = {}
        for fname, tkey, req in spec["fields"]:
            t = TYPES[tkey]
            if variant == "defaults" and req != "req":
                continue
            values[fname] = copy.deepcopy(t["good"][0 if variant != "g1" else 1][1])
        try:
            objs.append((variant, construct(prog.cls, kind, values)))
        except Exception:  # noqa: BLE001, S112
            continue
    return objs


def _check_dumps(prog, spec, cfgs, schema, out_paths, node_kinds, report, nontrivial, prog_json, feature):
    kind = spec["kind"]
    targets = extra_targets(schema, "out")
    all_paths = [p for p in out_paths.values() if p not in (None, "target")]
    branch_paths = set(node_kinds)
    for vname, obj in _dump_objects(prog, spec):
        values = {i: v for i, (fname, _, _) in enumerate(spec["fields"])
                  for v in [field_values(obj, spec).get(fname, _MISSING)] if v is not _MISSING}
        try:
            leaves, nk = ref_dump(spec, schema, values)
        except Unspec as e:
            report.skip("reference UNSPEC: " + str(e))
            continue
        omitted_at_list = [p for i, p in out_paths.items() if p not in (None, "target") and isinstance(p[-1], int)
                           and i in values and p not in leaves]
        if omitted_at_list:
            report.skip("omit_default on a field at a list position (documented for dicts only)")
            continue
        want_struct = assemble(leaves, nk, all_paths)
        extra = {}
        for t in targets:
            if t in values:
                extra.update(values[t])
        if schema["extra_out"] == "extractor":
            extra.update(EXTRACTED)
        if isinstance(want_struct, dict):
            collide = set(extra) & set(want_struct)
            if collide:
                report.skip("extra_out keys collide with model keys (documented as not guaranteed)")
                continue
            want_struct = {**want_struct, **copy.deepcopy(extra)}
        elif schema["extra_out"] != "skip":
            for dbg in DEBUGS:
                out = prog.dump(dbg, obj)
                case = {**prog_json, "object": vname, "debug": dbg}
                report.case(("dump", kind, str(spec["fields"]), str(cfgs), vname, dbg), nontrivial=nontrivial)
                if not out.ok:
                    report.violation({"check": "C03.dump", "problem": "dump_failed", "cause": "extra_out_with_list_layout"},
                                     f"{kind} {spec['fields']} {cfgs} dump of {vname}: the dumper was created for a list layout with "
                                     f"extra_out but fails with {type(out.exc).__name__}: {str(out.exc)[:80]}", case)
            continue
        want_flat = {p: v for p, v in flatten(want_struct).items() if not (p in branch_paths and v in ({}, []))}
        for dbg in DEBUGS:
            out = prog.dump(dbg, obj)
            case = {**prog_json, "object": vname, "debug": dbg}
            report.case(("dump", kind, str(spec["fields"]), str(cfgs), vname, dbg), nontrivial=nontrivial,
                        sample=lambda: {**case, "expected": codec.enc(want_struct), "impl": repr(out)})
            report.outcome("dump " + ("ok" if out.ok else "err"))
            if not out.ok:
                sig = {"check": "C03.dump", "problem": "dump_failed", "features": feature}
                if schema["extra_out"] != "skip" and not isinstance(want_struct, dict):
                    sig = {"check": "C03.dump", "problem": "dump_failed", "cause": "extra_out_with_list_layout"}
                report.violation(sig,
                                 f"{kind} {spec['fields']} {cfgs} dump of {vname}: {type(out.exc).__name__}: {str(out.exc)[:100]}", case)
                continue
            got_flat = {p: v for p, v in flatten(out.value).items() if not (p in branch_paths and v in ({}, []))}
            root_ok = type(out.value) is type(want_struct) or (isinstance(out.value, (list, tuple)) and isinstance(want_struct, list))
            if not root_ok or not _flat_same(got_flat, want_flat):
                report.violation({"check": "C03.dump", "problem": "wrong_layout", "features": feature},
                                 f"{kind} {spec['fields']} {cfgs} dump of {vname} [{dbg}]: got {codec.show(out.value, 100)}, "
                                 f"expected {codec.show(want_struct, 100)}", case)


def _flat_same(a, b):
    if set(a) != set(b):
        return False
    for k in a:
        x, y = a[k], b[k]
        if isinstance(x, tuple):
            x = list(x)
        if not same(x, y):
            return False
    return True


# ------------------------------------------------------------------------------------------------------------

def programs(tier):
    out = []
    shapes = QUICK_SHAPES if tier == "quick" else list(SHAPES)
    for sname in shapes:
        fields = SHAPES[sname]
        n = len(fields)
        for kind, dev in (("dataclass", 2), ("typeddict", 1 if tier == "quick" else 2), ("namedtuple", 1 if tier == "quick" else 2),
                          ("kwinit", 1 if tier == "quick" else 2), *((("attrs", 2),) if tier == "thorough" else ())):
            spec = {"kind": kind, "name": "Model", "fields": fields}
            if not spec_valid(spec):
                continue
            cfgs = configs_upto(n, dev)
            if kind == "kwinit":
                cfgs = [{**c, "extra_in": "kwargs"} for c in configs_upto(n, dev - 1 if dev > 1 else 1) if "extra_in" not in c]
            for c in cfgs:
                out.append((spec, [c]))
        if tier == "thorough" or sname in ("S2", "S6"):
            spec = {"kind": "dataclass", "name": "Model", "fields": fields}
            if not spec_valid(spec):
                continue
            for pair in stacked_configs(n):
                out.append((spec, pair))
    # an extra target that is NOT the last field, in list layouts and layouts moved under a key (three options at once, outside the
    # deviation bound of the cube above): positions of the fields behind the target must not shift
    mid = [["a", "int", "req"], ["rest", "dictany", "req"], ["b", "int", "req"]]
    for kind in ("dataclass", "attrs") if tier == "thorough" else ("dataclass",):
        spec = {"kind": kind, "name": "Model", "fields": mid}
        for as_list in (None, True):
            for mp in (None, "pairs_int", "path_shared", "idx_rev"):
                for xo in (None, ["target", [1]]):
                    for xi in (None, ["target", [1]], "forbid"):
                        cfg = {k: v for k, v in (("as_list", as_list), ("map", mp), ("extra_out", xo), ("extra_in", xi)) if v}
                        out.append((spec, [cfg]))
    if tier == "thorough":
        import itertools
        from mc.modsweep import dimensions
        for sname in ("S2", "S9"):
            fields = SHAPES[sname]
            dims = dimensions(len(fields))
            structural = ["map", "name_style", "trim", "as_list", "skip", "only"]
            spec = {"kind": "dataclass", "name": "Model", "fields": fields}
            for combo in itertools.combinations(structural, 3):
                for vals in itertools.product(*(dims[d] for d in combo)):
                    out.append((spec, [dict(zip(combo, vals))]))
    return out


def shard(progs):
    report = Report()
    for n, (spec, cfgs) in enumerate(progs):
        check_program(spec, cfgs, report)
        clear_caches(n)
    report.count("programs", len(progs))
    return report


def run(tier):
    report = Report()
    progs = programs(tier)
    nshards = 128 if tier == "quick" else 512
    parallel.run_shards(shard, [progs[i::nshards] for i in range(nshards) if progs[i::nshards]], report=report)
    from checks import c03_locations
    c03_locations.run(tier, report)
    return report


def SANITY(report, tier):  # noqa: N802
    problems = []
    for k in ("load ref=ok impl=ok", "load ref=err impl=err", "dump ok", "loader creation refused (expected)"):
        if report.outcomes[k] < 50:
            problems.append(f"outcome {k!r} seen only {report.outcomes[k]} times")
    return problems


def extra_evidence(report, tier):
    return {"programs": report.counters["programs"]}


def replay(case):
    report = Report()
    if case.get("kind") == "two_locations":
        from checks import c03_locations
        return c03_locations.replay(case)
    check_program(case["spec"], case["configs"], report)
    for v in report.violations.values():
        return v["what"]
    return None
