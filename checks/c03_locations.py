"""C03 leg: the same model class at two locations of one retort, configured differently per location.

name_mapping(P[Outer].a, <cfg>) configures the Inner model met at field ``a`` only; the Inner met at ``b`` keeps the default
layout (or gets another config).  Differential oracle with no hand-written expectation: the dumper/loader of Inner alone under
<cfg> and under the default layout (both decided by the main C03 sweep against the reference) give what each location of Outer
must produce / accept.  Generated programs: inner shape x single-option config x which location(s) it is bound to.
"""
import copy
import dataclasses

from adaptix import DebugTrail, P, Retort

from mc import codec, models
from mc.modsweep import QUICK_SHAPES, SHAPES, configs_upto, to_provider
from mc.ref_types import same

MODES = (("DISABLE", True), ("ALL", True), ("FIRST", False))


def _objects(spec, cls):
    out = []
    for variant in ("g0", "g1", "defaults"):
        values = {}
        for fname, tkey, req in spec["fields"]:
            if variant == "defaults" and req != "req":
                continue
            values[fname] = copy.deepcopy(models.TYPES[tkey]["good"][0 if variant != "g1" else 1][1])
        try:
            out.append((variant, models.construct(cls, spec["kind"], values)))
        except Exception:  # noqa: BLE001, S112
            continue
    return out


def _attempt(fn, *a):
    try:
        return ("ok", fn(*a))
    except Exception as e:  # noqa: BLE001
        return ("err", type(e).__name__)


def _eq(a, b):
    if a[0] != b[0]:
        return False
    return a[1] == b[1] if a[0] == "err" else same(a[1], b[1])


def run(tier, report):
    from mc import parallel
    shapes = QUICK_SHAPES if tier == "quick" else list(SHAPES)
    items = []
    for sname in shapes:
        n = len(SHAPES[sname])
        ncfg = len(configs_upto(n, 1))
        items += [(tier, sname, k, 4) for k in range(4)] if ncfg else []
    parallel.run_shards(_shard, items, report=report)
    return report


def _shard(item):
    from mc.report import Report
    tier, sname, k, step = item
    report = Report()
    _run_shape(sname, report, k, step)
    return report


def _run_shape(sname, report, k=0, step=1):
    if True:
        fields = SHAPES[sname]
        spec = {"kind": "dataclass", "name": "Inner", "fields": fields}
        if not models.spec_valid(spec):
            return report
        inner = models.build(spec)
        outer = dataclasses.make_dataclass("Outer", [("a", inner), ("b", inner)])
        cfgs = [c for c in configs_upto(len(fields), 1) if c and c.get("extra_in") not in ("kwargs", "saturator")
                and c.get("extra_out") != "extractor"]
        for cfg in cfgs[k::step]:
            for where in ("a", "b", "a+default_b_first"):
                for mode in MODES:
                    opts = {"debug_trail": DebugTrail[mode[0]], "strict_coercion": mode[1]}
                    try:
                        alone_cfg = Retort(recipe=[to_provider(spec, inner, cfg)], **opts)
                        alone_dumper, alone_loader = alone_cfg.get_dumper(inner), alone_cfg.get_loader(inner)
                    except Exception:  # noqa: BLE001
                        report.outcome("two locations: config refused for the model alone")
                        break
                    plain = Retort(**opts)
                    plain_dumper, plain_loader = plain.get_dumper(inner), plain.get_loader(inner)
                    loc = "b" if where == "b" else "a"
                    other = "a" if loc == "b" else "b"
                    both = Retort(recipe=[to_provider(spec, getattr(P[outer], loc), cfg)], **opts)
                    case = {"kind": "two_locations", "shape": sname, "config": cfg, "where": where, "mode": list(mode)}
                    key = ("2loc", sname, str(cfg), where, mode)
                    report.case(key, nontrivial=True, sample=case)
                    try:
                        if where == "a+default_b_first":
                            # the default-layout location is compiled first (first use decides what a confused cache would serve)
                            both.get_dumper(inner)
                            both.get_loader(inner)
                        o_dumper, o_loader = both.get_dumper(outer), both.get_loader(outer)
                    except Exception as e:  # noqa: BLE001
                        report.violation({"check": "C03.two_locations", "problem": "creation_failed", "features": sorted(cfg)},
                                         f"{sname} {cfg} bound to Outer.{loc} [{mode[0]}]: creation failed although the config is valid for "
                                         f"the model alone: {type(e).__name__}: {str(e)[:120]}", case)
                        continue
                    for vname, obj in _objects(spec, inner):
                        report.evaluations += 1
                        d_cfg, d_plain = _attempt(alone_dumper, obj), _attempt(plain_dumper, obj)
                        want = ("ok", {loc: d_cfg[1], other: d_plain[1]}) if d_cfg[0] == d_plain[0] == "ok" else None
                        got = _attempt(o_dumper, outer(**{loc: copy.deepcopy(obj), other: copy.deepcopy(obj)}))
                        if want is None:
                            report.outcome("two locations: inner dump fails alone")
                            continue
                        report.outcome("two locations: dump compared")
                        if not _eq(got, want):
                            report.violation({"check": "C03.two_locations", "problem": "dump", "features": sorted(cfg)},
                                             f"{sname} {cfg} bound to Outer.{loc} only ({where}) [{mode[0]}]: dump of {vname} gives "
                                             f"{codec.show(got[1], 120)}, the two layouts alone give {codec.show(want[1], 120)}", case)
                            continue
                        # and back: each location must accept exactly what its own layout accepts
                        for src_name, datum in (("own", {loc: d_cfg[1], other: d_plain[1]}), ("swapped", {loc: d_plain[1], other: d_cfg[1]})):
                            report.evaluations += 1
                            lg = _attempt(o_loader, copy.deepcopy(datum))
                            la = _attempt(alone_loader, copy.deepcopy(datum[loc]))
                            lb = _attempt(plain_loader, copy.deepcopy(datum[other]))
                            if la[0] == "ok" and lb[0] == "ok":
                                lw = ("ok", outer(**{loc: la[1], other: lb[1]}))
                            else:
                                lw = ("err", None)
                            ok = lg[0] == lw[0] and (lg[0] == "err" or same(lg[1], lw[1]))
                            report.outcome(f"two locations: load {src_name} compared")
                            if not ok:
                                report.violation({"check": "C03.two_locations", "problem": "load", "features": sorted(cfg)},
                                                 f"{sname} {cfg} bound to Outer.{loc} only ({where}) [{mode[0]}/{'strict' if mode[1] else 'lax'}]: "
                                                 f"load of {codec.show(datum, 100)} ({src_name}) gives {lg[0]}:{codec.show(lg[1], 80)}, the "
                                                 f"two layouts alone give {lw[0]}:{codec.show(lw[1], 80)}", case)
    return report


def replay(case):
    from mc.report import Report
    report = Report()
    _run_shape(case["shape"], report)
    for v in report.violations.values():
        c = v["case"]
        if c.get("shape") == case.get("shape") and c.get("config") == case.get("config"):
            return v["what"]
    return None
