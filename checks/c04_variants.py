"""C04 leg: the non-default builtin providers (representation variants a user switches on in the recipe).

Every variant x every datum of the hostile alphabet (plus a few data aimed at the variant) x 6 modes, bare and one level below a
list, a dict and a model field: whatever escapes must be a LoadError tree.  No reference is needed: the oracle is the
exception class only.
"""
import dataclasses
import datetime as dt
import enum
import sqlite3
from typing import Any, DefaultDict, Dict, List, Optional

from adaptix import (
    DebugTrail,
    NameStyle,
    P,
    Retort,
    date_by_timestamp,
    datetime_by_format,
    datetime_by_timestamp,
    default_dict,
    enum_by_exact_value,
    enum_by_name,
    enum_by_value,
    flag_by_exact_value,
    flag_by_member_names,
    name_mapping,
)

from checks.c04 import bad_exception
from mc import codec
from mc.matrix import MODES, mode_name
from mc.matrix import run as mrun
from mc.space import A0, Datum


class Color(enum.Enum):
    RED = "r"
    DARK_BLUE = "db"


class Num(enum.IntEnum):
    ONE = 1
    TWO = 2


class Perm(enum.Flag):
    R = 1
    W = 2
    X = 4


class Mask(enum.Flag):
    """a bit (2) exists only inside the multi-bit member RW: 5 and 6 are inside the mask but no combination of members"""
    RW = 3
    X = 4


@dataclasses.dataclass
class Two:
    a: int
    b: int


@dataclasses.dataclass
class Opt:
    a: int
    b: int = 0


class RowLike:
    """behaves like sqlite3.Row: subscription by column name, IndexError for a missing column, not a Mapping"""

    def __init__(self, d):
        self._d = d

    def __getitem__(self, k):
        try:
            return self._d[k]
        except KeyError:
            raise IndexError("No item with that key") from None

    def keys(self):
        return list(self._d)

    def __iter__(self):
        return iter(self._d.values())

    def __len__(self):
        return len(self._d)

    def __repr__(self):
        return f"RowLike({self._d!r})"


@dataclasses.dataclass
class OptS:
    a: str
    b: str = "x"


def _row(cols):
    con = sqlite3.connect(":memory:")
    con.row_factory = sqlite3.Row
    return con.execute("select " + ", ".join(f"{v} as {k}" for k, v in cols.items())).fetchone()


EXTRA = [
    Datum("1e17", lambda: 1e17), Datum("-1e17", lambda: -1e17), Datum("1e12", lambda: 1e12), Datum("2**63", lambda: 2**63),
    Datum("-2**63", lambda: -2**63), Datum("253402300800", lambda: 253402300800), Datum("-62135596801", lambda: -62135596801),
    Datum("5", lambda: 5), Datum("6", lambda: 6), Datum("7", lambda: 7), Datum("8", lambda: 8),
    Datum("'2020-13-45'", lambda: "2020-13-45"), Datum("'2020-01-02T03:04:05.678901'", lambda: "2020-01-02T03:04:05.678901"),
    Datum("['R', ['W']]", lambda: ["R", ["W"]]), Datum("['R', None]", lambda: ["R", None]), Datum("'R'", lambda: "R"),
    Datum("{'a': 1}", lambda: {"a": 1}), Datum("{'a': 1, 'b': 2}", lambda: {"a": 1, "b": 2}),
    Datum("RowLike(a)", lambda: RowLike({"a": 1})), Datum("RowLike(b)", lambda: RowLike({"b": 1})),
    Datum("RowLike(a,b)", lambda: RowLike({"a": 1, "b": 2})), Datum("RowLike()", lambda: RowLike({})),
    Datum("sqlite3.Row(a)", lambda: _row({"a": 1})), Datum("sqlite3.Row(b)", lambda: _row({"b": 1})),
    Datum("sqlite3.Row(a,b)", lambda: _row({"a": 1, "b": 2})),
    # subscriptable objects that are no mappings: the value of column a is the NAME of the optional field b; a match object
    Datum("sqlite3.Row(a='b')", lambda: _row({"a": "'b'"})), Datum("re.Match(a)", lambda: __import__("re").match("(?P<a>x)", "x")),
]

VARIANTS = [
    ("datetime_by_timestamp()", dt.datetime, lambda: [datetime_by_timestamp()]),
    ("datetime_by_timestamp(utc)", dt.datetime, lambda: [datetime_by_timestamp(tz=dt.timezone.utc)]),
    ("date_by_timestamp()", dt.date, lambda: [date_by_timestamp()]),
    ("datetime_by_format", dt.datetime, lambda: [datetime_by_format(fmt="%Y-%m-%dT%H:%M:%S.%f")]),
    ("default_dict(int)", DefaultDict[str, int], lambda: [default_dict(P.ANY, int)]),
    ("enum_by_name", Color, lambda: [enum_by_name(Color)]),
    ("enum_by_name(camel)", Color, lambda: [enum_by_name(Color, name_style=NameStyle.CAMEL)]),
    ("enum_by_value(str)", Color, lambda: [enum_by_value(Color, tp=str)]),
    ("enum_by_value(int)", Num, lambda: [enum_by_value(Num, tp=int)]),
    ("enum_by_exact_value", Num, lambda: [enum_by_exact_value(Num)]),
    ("flag_by_exact_value", Perm, lambda: [flag_by_exact_value(Perm)]),
    ("flag_by_exact_value(Mask)", Mask, lambda: [flag_by_exact_value(Mask)]),
    ("default flag (Mask)", Mask, lambda: []),
    ("flag_by_member_names", Perm, lambda: [flag_by_member_names(Perm)]),
    ("flag_by_member_names(strictest)", Perm, lambda: [flag_by_member_names(Perm, allow_single_value=False, allow_duplicates=False,
                                                                             allow_compound=False)]),
    ("model Two", Two, lambda: []),
    ("model Opt", Opt, lambda: []),
    ("model OptS", OptS, lambda: []),
    ("model Two as_list", Two, lambda: [name_mapping(Two, as_list=True)]),
    ("model Two extra forbid", Two, lambda: [name_mapping(Two, extra_in=__import__("adaptix").ExtraForbid())]),
    ("model Opt extra kwargs-less collect", Opt, lambda: [name_mapping(Opt, extra_in=__import__("adaptix").ExtraSkip())]),
]


def _wrappers(tp):
    @dataclasses.dataclass
    class Holder:
        f: tp       # type: ignore[valid-type]
        g: Optional[tp] = None      # type: ignore[valid-type]
    return [
        ("bare", tp, lambda d: d),
        ("List", List[tp], lambda d: [d]),
        ("Dict", Dict[str, tp], lambda d: {"k": d}),
        ("model field", Holder, lambda d: {"f": d}),
        ("optional model field", Holder, lambda d: {"f": d, "g": d}),
    ]


def run(tier, report):
    data = [*A0, *EXTRA]
    for vname, tp, mk in VARIANTS:
        for wname, hint, wrap in _wrappers(tp):
            loaders = {}
            for mode in MODES:
                r = Retort(recipe=mk(), debug_trail=DebugTrail[mode[0]], strict_coercion=mode[1])
                try:
                    loaders[mode] = r.get_loader(hint)
                except Exception as e:  # noqa: BLE001
                    report.violation({"check": "C04.variants", "problem": "creation_failed", "variant": vname},
                                     f"{vname} [{wname}]: loader creation failed: {type(e).__name__}", {"kind": "variant", "variant": vname})
            for datum in data:
                if datum.one_shot and wname != "bare":
                    continue
                for mode, loader in loaders.items():
                    out = mrun(loader, wrap(datum.fresh()))
                    report.evaluations += 1
                    key = ("variant", vname, wname, datum.name, mode)
                    if out.ok:
                        report.case(key)
                        report.outcome("variant: accepted")
                        continue
                    report.case(key, nontrivial=True, sample=lambda: {"variant": vname, "position": wname, "datum": datum.name,
                                                                       "mode": mode_name(mode), "raised": type(out.exc).__name__})
                    leaf = bad_exception(out.exc)
                    report.outcome("variant: raised=" + ("LoadError" if leaf is None else "other"))
                    if leaf is None:
                        continue
                    report.violation(
                        {"check": "C04.variants", "variant": vname, "exc": type(leaf).__name__,
                         **({"datum_kind": "type"} if isinstance(datum.fresh(), type) else {})},
                        f"{vname} [{wname}] <- {datum.name} [{mode_name(mode)}]: escaping {type(out.exc).__name__}"
                        + (f" wrapping {type(leaf).__name__}" if leaf is not out.exc else "") + f": {str(leaf)[:100]}",
                        {"kind": "variant", "variant": vname, "position": wname, "datum": datum.name, "mode": list(mode)})
    return report


def replay(case):
    from mc.report import Report
    report = Report()
    run("quick", report)
    for v in report.violations.values():
        if v["case"].get("variant") == case.get("variant"):
            return v["what"]
    return None
