"""Model legs of C01 C04 C06 C07 C20: the same generated programs as C03 (checks.c03.programs), other oracles.

One pass per program computes, for every input, the 6-vector of outcomes; each property projects it.
"""
import copy
import json

from adaptix.load_error import LoadError

from checks import c03
from mc import codec, parallel
from mc.matrix import DEBUGS, MODES, leaves_of, mode_name
from mc.models import TYPES, construct, field_values
from mc.modsweep import SAT_LOG, Program, clear_caches, inputs_for
from mc.ref_layout import Invalid, Unspec, effective, extra_targets, field_paths, validate
from mc.ref_types import same
from mc.report import Report
from mc.space import A0


def _valid(spec, cfgs, side):
    if c03.config_meaningful(spec, cfgs):
        return None
    schema = effective(cfgs)
    try:
        paths = field_paths(spec, schema, side)
        node_kinds = validate(spec, schema, side, paths)
    except (Invalid, Unspec):
        return None
    return schema, paths, node_kinds


def hostile_inputs(spec, in_paths, node_kinds):
    """every datum of the hostile alphabet A0 at the root and at every field position (other fields valid)"""
    from mc.modsweep import _put
    real = {i: p for i, p in in_paths.items() if p not in (None, "target")}
    root_kind = node_kinds.get((), "dict")

    def base():
        root = [] if root_kind == "list" else {}
        for idx, path in real.items():
            _put(root, path, copy.deepcopy(TYPES[spec["fields"][idx][1]]["good"][0][0]), node_kinds)
        return root

    for d in A0:
        yield f"root={d.name}", d.fresh
    for idx, path in real.items():
        for d in A0:
            if d.one_shot:
                continue

            def make(path=path, d=d):
                root = base()
                _put(root, path, d.fresh(), node_kinds)
                return root
            yield f"{spec['fields'][idx][0]}={d.name}", make


def vector(prog, make):
    inputs = {m: make() for m in MODES}
    return inputs, {m: prog.load(m, inputs[m]) for m in MODES}


def obj_same(a, b, spec):
    if type(a) is not type(b):
        return False
    return same(field_values(a, spec), field_values(b, spec)) and (not hasattr(a, "kwargs") or a.kwargs == b.kwargs)


# ------------------------------------------------------------------------------------------------------------
# C04

def _bad_leaf(exc):
    if not isinstance(exc, LoadError):
        for leaf in leaves_of(exc):
            if not isinstance(leaf, LoadError):
                return leaf
        return exc
    for leaf in leaves_of(exc):
        if not isinstance(leaf, LoadError):
            return leaf
    return None


def c04_program(spec, cfgs, report):
    v = _valid(spec, cfgs, "in")
    if v is None:
        return
    schema, in_paths, node_kinds = v
    if schema["extra_in"] == "kwargs":
        report.skip("ExtraKwargs: TypeError on colliding / non-string keys is documented")
        return
    prog = Program(spec, cfgs)
    if prog.load_creation_error is not None:
        return
    gens = list(hostile_inputs(spec, in_paths, node_kinds)) + list(inputs_for(spec, in_paths, node_kinds, []))
    for iname, make in gens:
        for mode in MODES:
            out = prog.load(mode, make())
            key = ("c04m", spec["kind"], str(spec["fields"]), str(cfgs), iname, mode)
            if out.ok:
                report.case(key)
                report.outcome("accepted")
                continue
            report.case(key, nontrivial=True, sample=lambda: {"spec": spec, "configs": cfgs, "input": iname,
                                                              "mode": mode_name(mode), "raised": type(out.exc).__name__})
            leaf = _bad_leaf(out.exc)
            report.outcome("raised=" + ("LoadError" if leaf is None else "other"))
            if leaf is None:
                continue
            feature = sorted(k for c in cfgs for k in c if k != "chain")
            sig = {"check": "C04.models", "exc": type(leaf).__name__, "features": feature[:2]}
            if schema["extra_in"] not in ("skip", "forbid") and type(leaf).__name__ == "TypeError" and "keywords must be strings" in str(leaf):
                continue
            report.violation(sig, f"{spec['kind']} {spec['fields']} {cfgs} <- {iname} [{mode_name(mode)}]: escaping "
                                  f"{type(out.exc).__name__}" + (f" wrapping {type(leaf).__name__}" if leaf is not out.exc else "")
                                  + f": {str(leaf)[:100]}",
                             {"kind": "models", "spec": spec, "configs": cfgs, "input": iname, "mode": list(mode)})


# ------------------------------------------------------------------------------------------------------------
# C06 / C07

def c06_program(spec, cfgs, report):
    from checks.c06 import compare_modes
    v = _valid(spec, cfgs, "in")
    if v is not None:
        schema, in_paths, node_kinds = v
        prog = Program(spec, cfgs)
        if prog.load_creation_error is None:
            for iname, make in inputs_for(spec, in_paths, node_kinds, []):
                inputs, vec = vector(prog, make)
                for strict in (True, False):
                    outs = {d: vec[(d, strict)] for d in DEBUGS}
                    outs = {d: (o if not o.ok else type(o)(_freeze(o.value, spec))) for d, o in outs.items()}
                    report.case(("c06m", spec["kind"], str(spec["fields"]), str(cfgs), iname, strict),
                                nontrivial=not all(o.ok for o in outs.values()),
                                sample=lambda: {"spec": spec, "configs": cfgs, "input": iname, "strict": strict,
                                                "outcomes": {d: repr(o) for d, o in outs.items()}})
                    report.outcome("mload:" + "".join("A" if outs[d].ok else "R" for d in DEBUGS))
                    case = {"kind": "mload", "spec": spec, "configs": cfgs, "input": iname, "strict": strict, "node": "model"}
                    compare_modes(outs, lambda: f"load {spec['kind']} {spec['fields']} {cfgs} <- {iname} [{'strict' if strict else 'lax'}]",
                                  case, report, "C06.load")
    v = _valid(spec, cfgs, "out")
    if v is not None and spec["kind"] != "kwinit":
        prog = Program(spec, cfgs)
        if prog.dump_creation_error is None:
            for vname, obj in c03._dump_objects(prog, spec) + [("illtyped", None), ("illtyped2", 5)] + _bad_field_objects(prog, spec):
                outs = {d: prog.dump(d, obj) for d in DEBUGS}
                report.case(("c06md", spec["kind"], str(spec["fields"]), str(cfgs), vname), nontrivial=True)
                report.outcome("mdump:" + "".join("A" if outs[d].ok else "R" for d in DEBUGS))
                case = {"kind": "mdump", "spec": spec, "configs": cfgs, "object": vname, "node": "model"}
                compare_modes(outs, lambda: f"dump {spec['kind']} {spec['fields']} {cfgs} of {vname}", case, report, "C06.dump")


def _bad_field_objects(prog, spec):
    """objects whose field i holds a value of the wrong runtime type (the field dumper raises KeyError / AttributeError /
    TypeError — among them exactly the access-error classes of optional accessors)"""
    from mc.models import BAD_VALUES
    out = []
    if spec["kind"] in ("pydantic", "sqlalchemy", "kwinit"):
        return out
    for i, (fname, tkey, req) in enumerate(spec["fields"]):
        if tkey not in BAD_VALUES:
            continue
        values = {f: copy.deepcopy(TYPES[t]["good"][0][1]) for f, t, _ in spec["fields"]}
        values[fname] = BAD_VALUES[tkey]
        try:
            out.append((f"badfield:{fname}", construct(prog.cls, spec["kind"], values)))
        except Exception:  # noqa: BLE001, S112
            continue
    return out


def _freeze(obj, spec):
    """comparable rendering of a loaded model (instances of generated classes compare by identity for some kinds)"""
    try:
        vals = field_values(obj, spec)
    except Exception:  # noqa: BLE001
        return obj
    return (type(obj).__name__, codec.show(vals, 300), getattr(obj, "kwargs", None) and codec.show(obj.kwargs))


def c07_program(spec, cfgs, report):
    v = _valid(spec, cfgs, "in")
    if v is None:
        return
    schema, in_paths, node_kinds = v
    prog = Program(spec, cfgs)
    if prog.load_creation_error is not None:
        return
    for iname, make in inputs_for(spec, in_paths, node_kinds, []):
        inputs, vec = vector(prog, make)
        for dbg in DEBUGS:
            s, l = vec[(dbg, True)], vec[(dbg, False)]
            key = ("c07m", spec["kind"], str(spec["fields"]), str(cfgs), iname, dbg)
            if not s.ok:
                report.case(key)
                report.outcome("strict-rejects," + ("lax-accepts" if l.ok else "lax-rejects"))
                continue
            report.case(key, nontrivial=True, sample=lambda: {"spec": spec, "configs": cfgs, "input": iname, "debug": dbg})
            report.outcome("strict-accepts," + ("lax-accepts" if l.ok else "lax-rejects"))
            case = {"spec": spec, "configs": cfgs, "input": iname, "debug": dbg}
            if not l.ok:
                report.violation({"check": "C07.subset", "problem": "lax_rejects_strict_accepted", "node": "model"},
                                 f"{spec['kind']} {spec['fields']} {cfgs} <- {iname} [{dbg}]: strict accepts, lax raises {type(l.exc).__name__}", case)
            elif _freeze(s.value, spec) != _freeze(l.value, spec):
                report.violation({"check": "C07.subset", "problem": "lax_value_differs", "node": "model"},
                                 f"{spec['kind']} {spec['fields']} {cfgs} <- {iname} [{dbg}]: strict {_freeze(s.value, spec)} lax {_freeze(l.value, spec)}", case)
            # clause 2: node kinds — a str or Mapping is never a list node, nothing but a Mapping is a dict node
            datum = inputs[(dbg, True)]
            root_kind = node_kinds.get((), "dict")
            import collections.abc
            if root_kind == "list" and (isinstance(datum, (str, collections.abc.Mapping))):
                report.violation({"check": "C07.origins", "problem": "strict_accepts_undocumented_origin", "node": "list-layout"},
                                 f"{spec['kind']} {spec['fields']} {cfgs}: strict mode accepted {codec.show(datum, 60)} for a list layout", case)
            if root_kind == "dict" and not isinstance(datum, collections.abc.Mapping):
                report.violation({"check": "C07.origins", "problem": "strict_accepts_undocumented_origin", "node": "dict-layout"},
                                 f"{spec['kind']} {spec['fields']} {cfgs}: strict mode accepted {codec.show(datum, 60)} for a dict layout", case)


# ------------------------------------------------------------------------------------------------------------
# C01 (round trip) and C20 (purity / freshness) on models

def _roundtrip_expected(spec, schema, obj, prog):
    """field name -> value the reloaded object must hold; None if the config is outside the property's side condition"""
    try:
        inp = field_paths(spec, schema, "in")
        outp = field_paths(spec, schema, "out")
    except Unspec:
        return None
    if schema["extra_in"] not in ("skip", "forbid") or schema["extra_out"] != "skip":
        if extra_targets(schema, "in") != extra_targets(schema, "out") or not extra_targets(schema, "in"):
            return None
    vals = field_values(obj, spec)
    return inp, outp, vals


def _drop_empty_branches(d):
    if not isinstance(d, dict):
        return d
    out = {}
    for k, v in d.items():
        if isinstance(v, dict):
            v2 = _drop_empty_branches(v)
            if v2 == {} and v != {} or v == {}:
                continue
            out[k] = v2
        else:
            out[k] = v
    return out


def c01_program(spec, cfgs, report):  # noqa: C901
    if spec["kind"] == "kwinit":
        return
    vi, vo = _valid(spec, cfgs, "in"), _valid(spec, cfgs, "out")
    if vi is None or vo is None:
        return
    schema = vi[0]
    prog = Program(spec, cfgs)
    if prog.load_creation_error is not None or prog.dump_creation_error is not None:
        return
    from mc.ref_layout import _matches, default_of
    for vname, obj in c03._dump_objects(prog, spec):
        exp = _roundtrip_expected(spec, schema, obj, prog)
        if exp is None:
            report.skip("configuration outside the round-trip side condition (asymmetric extra policies)")
            continue
        inp, outp, vals = exp
        # expected value of each field after the trip: what was dumped comes back, what was not dumped takes the default
        want = {}
        lossy = False
        for idx, (fname, tkey, req) in enumerate(spec["fields"]):
            if outp[idx] == "target" or inp[idx] == "target":
                want[fname] = vals.get(fname)
                continue
            dumped = outp[idx] is not None and fname in vals
            loaded = inp[idx] is not None
            if not dumped and loaded and len(inp[idx]) > 1:
                lossy = True     # the loader requires the nested node of this field although nothing is dumped there (UNSPEC)
                continue
            if dumped and loaded and outp[idx] == inp[idx]:
                want[fname] = vals[fname]
            elif req != "req" and fname in vals:
                if spec["kind"] == "typeddict":
                    lossy = True
                    continue
                if not same(vals[fname], default_of(spec, idx)):
                    lossy = True     # an optional field that is not transported and does not hold its default: not x
                want[fname] = vals[fname]
            elif fname not in vals:
                continue
            else:
                lossy = True
        if lossy:
            report.skip("value not representable under this mapping (optional field not transported and not default)")
            continue
        for mode in MODES:
            d = prog.dump(mode[0], obj)
            key = ("c01m", spec["kind"], str(spec["fields"]), str(cfgs), vname, mode)
            case = {"kind": "models", "spec": spec, "configs": cfgs, "object": vname, "mode": list(mode)}
            if not d.ok:
                report.case(key, nontrivial=True)
                report.violation({"check": "C01.models", "problem": "dump_failed"},
                                 f"{spec['kind']} {spec['fields']} {cfgs}: dump of {vname} raised {type(d.exc).__name__}", case)
                continue
            transports = [("direct", d.value)]
            try:
                transports.append(("json", json.loads(json.dumps(d.value))))
            except (TypeError, ValueError):
                pass
            for tname, datum in transports:
                back = prog.load(mode, datum)
                report.case((*key, tname), nontrivial=bool(cfgs and cfgs[0]),
                            sample=lambda: {**case, "transport": tname, "dumped": codec.enc(d.value)})
                report.outcome(f"m-{tname}:" + ("ok" if back.ok else "load_failed"))
                ok = back.ok and type(back.value) is type(obj) and all(
                    same(field_values(back.value, spec).get(f, "<absent>"), v) for f, v in want.items())
                if ok and spec["kind"] == "typeddict":
                    ok = set(back.value) == set(want)
                if not ok:
                    feature = sorted(k for c in cfgs for k in c if k != "chain")
                    cause = {}
                    if back.ok and type(back.value) is type(obj):
                        # root-cause discriminator: the only difference is that a field collecting extras also received the (empty)
                        # remainder of a nested branch the layout itself consumed
                        got_vals = field_values(back.value, spec)
                        if all(same(got_vals.get(f, "<absent>"), v) or
                               (isinstance(got_vals.get(f), dict) and same(_drop_empty_branches(got_vals[f]), v)) for f, v in want.items()):
                            cause = {"cause": "nested_branch_collected_as_extra"}
                    report.violation({"check": "C01.models", "problem": "load_failed" if not back.ok else "value_changed", "features": feature,
                                      **cause},
                                     f"{spec['kind']} {spec['fields']} {cfgs} [{mode_name(mode)}, {tname}]: {vname} dumped to "
                                     f"{codec.show(d.value, 80)} "
                                     + (f"load raised {type(back.exc).__name__}: {str(back.exc)[:80]}" if not back.ok
                                        else f"loaded back as {codec.show(field_values(back.value, spec), 80)}, expected {codec.show(want, 80)}"),
                                     {**case, "transport": tname})


LEGS = {"C01": c01_program, "C04": c04_program, "C06": c06_program, "C07": c07_program}


def shard(args):
    pid, progs = args
    report = Report()
    fn = LEGS[pid]
    for n, (spec, cfgs) in enumerate(progs):
        fn(spec, cfgs, report)
        clear_caches(n)
    report.count(f"model_programs", len(progs))
    return report


def leg_programs(pid, tier):
    progs = c03.programs(tier)
    if pid == "C04":
        # the hostile alphabet multiplies the inputs: one deviation is enough to reach every generator branch once
        progs = [p for p in progs if sum(len([k for k in c if k != "chain"]) for c in p[1]) <= (1 if tier == "quick" else 2)]
    return progs


def run_leg(pid, tier, report):
    progs = leg_programs(pid, tier)
    n = 128 if tier == "quick" else 512
    parallel.run_shards(shard, [(pid, progs[i::n]) for i in range(n) if progs[i::n]], report=report)
    return report


def replay_leg(pid, case):
    report = Report()
    LEGS[pid](case["spec"], case["configs"], report)
    for v in report.violations.values():
        return v["what"]
    return None
