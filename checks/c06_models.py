"""model leg of C06 (see checks/model_legs.py)"""
from checks import model_legs


def run(tier, report):
    return model_legs.run_leg("C06", tier, report)


def replay(case):
    return model_legs.replay_leg("C06", case)
