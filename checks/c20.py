"""C20 — load, dump and convert are pure with respect to their arguments; every container adaptix builds is fresh.

Over the MATRIX types (depth <= 2), the generated model programs of C03 and a set of converter programs, for every accepted
input and every pair of successive calls: deep snapshot of the argument unchanged; equal results; the ids of all mutable
containers (list dict set bytearray deque defaultdict, model instances) reachable from result 1, result 2, the argument and
the loader's own closure are pairwise disjoint — except positions typed Any/object (documented pass-through).
"""
import collections
import copy
import dataclasses
import gc
import io
import types
import typing
from dataclasses import dataclass, field
from typing import Any, Dict, List, Optional, Tuple

from adaptix import Retort
from adaptix.conversion import get_converter

from checks import c03
from mc import codec, parallel
from mc.matrix import MODES, data_for, mode_name, retort_for, type_shards
from mc.matrix import run as mrun
from mc.models import TYPES, field_values
from mc.modsweep import Program, clear_caches, inputs_for
from mc.ref_layout import Invalid, Unspec, effective, extra_targets, field_paths, validate
from mc.ref_types import same
from mc.report import Report
from mc.space import DICTS, ITER_IMPL, dumper_exists, show, to_hint, to_json, unwrap, values_of

META = {
    "level": "exploration",
    "rule": (
        "cases = (program, accepted argument, mode) each executed twice: MATRIX types depth <= 2 x accepted data (load) and "
        "value alphabets (dump), C03 model programs x accepted inputs / objects, converter programs x source objects; all "
        "enumerated; non-trivial when the argument or a result contains at least one mutable container"
    ),
    "assumptions": [
        "positions typed Any/object, and conversions between equal types, are documented pass-through and exempt from the "
        "sharing rule; default VALUE objects that the model itself shares between instances are exempt",
        "containers are discovered by walking list/tuple/dict/set/frozenset/deque/dataclass-like attributes; the loader closure "
        "is walked with gc.get_referents to depth 4",
    ],
    "bound": {"quick": "types depth <= 2, C03 quick programs with <= 1 deviation", "thorough": "types depth <= 3, C03 thorough programs with <= 2 deviations"},
}

MUTABLE = (list, dict, set, bytearray, collections.deque)


def _is_model(o):
    return dataclasses.is_dataclass(o) and not isinstance(o, type) or hasattr(o, "__attrs_attrs__") and not isinstance(o, type)


def containers(obj, out=None, depth=0):
    """id -> object for every mutable container reachable from obj"""
    if out is None:
        out = {}
    if depth > 12 or id(obj) in out:
        return out
    if isinstance(obj, MUTABLE) or _is_model(obj):
        out[id(obj)] = obj
    if isinstance(obj, (list, tuple, set, frozenset, collections.deque)):
        for x in obj:
            containers(x, out, depth + 1)
    elif isinstance(obj, dict):
        for k, v in obj.items():
            containers(k, out, depth + 1)
            containers(v, out, depth + 1)
    elif _is_model(obj):
        for v in vars(obj).values() if hasattr(obj, "__dict__") else ():
            containers(v, out, depth + 1)
    return out


def closure_containers(func, limit=4):
    """mutable containers reachable from a function object (its closure cells, defaults, constants, referenced globals are
    NOT followed — only what the generated closure itself keeps alive)"""
    out = {}
    seen = set()
    frontier = [func]
    for _ in range(limit):
        nxt = []
        for o in frontier:
            if id(o) in seen:
                continue
            seen.add(id(o))
            if isinstance(o, (types.ModuleType, type)):
                continue
            if isinstance(o, MUTABLE):
                out[id(o)] = o
            if isinstance(o, types.FunctionType):
                refs = list(o.__closure__ or ()) + list(o.__defaults__ or ()) + [o.__kwdefaults__ or {}]
                refs.append({k: o.__globals__[k] for k in o.__code__.co_names if k in o.__globals__
                             and not isinstance(o.__globals__[k], (types.ModuleType, type))} if "<adaptix" in o.__code__.co_filename else {})
            elif isinstance(o, types.CellType):
                try:
                    refs = [o.cell_contents]
                except ValueError:
                    refs = []
            elif isinstance(o, (list, tuple, set, frozenset)):
                refs = list(o)
            elif isinstance(o, dict):
                refs = list(o.values())
            elif isinstance(o, types.MethodType):
                refs = [o.__func__]
            else:
                refs = []
            nxt.extend(refs)
        frontier = nxt
    return out


def passthrough_ids(ts, d, out=None):
    """ids of containers of the argument that sit at positions typed Any/object (documented as passed as is)"""
    if out is None:
        out = set()
    u = unwrap(ts)
    h = u[0]
    if h in ("Any", "object", "Literal"):     # a Literal loader returns the accepted datum itself
        out.update(containers(d))
        return out
    try:
        if h in ITER_IMPL and not isinstance(d, (str, bytes, dict)):
            for x in d:
                passthrough_ids(u[1], x, out)
        elif h == "Tuple" and not isinstance(d, (str, bytes, dict)):
            for t, x in zip(u[1:], d):
                passthrough_ids(t, x, out)
        elif h in DICTS and isinstance(d, dict):
            for k, v in d.items():
                passthrough_ids(u[1], k, out)
                passthrough_ids(u[2], v, out)
        elif h == "Optional" and d is not None:
            passthrough_ids(u[1], d, out)
        elif h == "Union":
            for t in u[1:]:
                passthrough_ids(t, d, out)
    except TypeError:
        pass
    return out


STREAM_POS = [True]     # compare the position of BytesIO arguments (switched off for positions typed IO[bytes], see META)


def struct_eq(a, b):
    """same() but objects whose class does not define equality are equal when their types are"""
    if isinstance(a, io.BytesIO) and isinstance(b, io.BytesIO):
        return a.getvalue() == b.getvalue() and (not STREAM_POS[0] or a.tell() == b.tell())
    if same(a, b):
        if STREAM_POS[0] and _has_stream(a):
            return _streams_eq(a, b)
        return True
    if type(a) is not type(b):
        return False
    if isinstance(a, (list, tuple, collections.deque)):
        return len(a) == len(b) and all(struct_eq(x, y) for x, y in zip(a, b))
    if isinstance(a, dict):
        return len(a) == len(b) and all(struct_eq(k1, k2) and struct_eq(v1, v2) for (k1, v1), (k2, v2) in zip(a.items(), b.items()))
    if isinstance(a, (set, frozenset)):
        return len(a) == len(b)
    if _is_model(a):
        return struct_eq(vars(a), vars(b)) if hasattr(a, "__dict__") else True
    return type(a).__eq__ is object.__eq__ or hasattr(a, "__next__")


def _has_stream(a, depth=0):
    if isinstance(a, io.BytesIO):
        return True
    if depth > 6:
        return False
    if isinstance(a, (list, tuple, set, frozenset, collections.deque)):
        return any(_has_stream(x, depth + 1) for x in a)
    if isinstance(a, dict):
        return any(_has_stream(x, depth + 1) for x in a.values())
    return False


def _streams_eq(a, b):
    """a and b are already known to be equal by content: compare the positions of the streams inside (same iteration order,
    unordered containers are skipped)"""
    if isinstance(a, io.BytesIO):
        return isinstance(b, io.BytesIO) and a.tell() == b.tell()
    if isinstance(a, (list, tuple, collections.deque)):
        return all(_streams_eq(x, y) for x, y in zip(a, b))
    if isinstance(a, dict):
        return all(_streams_eq(a[k], b[k]) for k in a if k in b)
    return True


def _added_keys(now, before, out=None):
    """keys present in a mapping of `now` but not in the corresponding mapping of `before` (any depth)"""
    out = [] if out is None else out
    if isinstance(now, dict) and isinstance(before, dict):
        out.extend(k for k in now if k not in before)
        for k, v in before.items():
            if k in now:
                _added_keys(now[k], v, out)
    elif isinstance(now, list) and isinstance(before, list):
        for x, y in zip(now, before):
            _added_keys(x, y, out)
    return out


def purity(report, sig_base, what, func, make_arg, allowed_shared, case, nontrivial_hint=False, check_closure=True,
           classify=None):
    a1, a2 = make_arg(), make_arg()
    snap = copy.deepcopy(a1)
    ids_before = set(containers(a1))
    try:
        r1 = func(a1)
    except Exception:  # noqa: BLE001
        # a rejected argument must be left alone as well
        if not struct_eq(a1, snap):
            report.case(case.get("key"), nontrivial=True, sample=lambda: {k: v for k, v in case.items() if k != "key"})
            extra = classify("argument_mutated", a1, snap) if classify else {}
            report.violation({**sig_base, "problem": "argument_mutated", **extra},
                             f"{what}: the call failed and the argument changed from {codec.show(snap, 80)} to {codec.show(a1, 80)}",
                             {k: v for k, v in case.items() if k != "key"})
        return False
    try:
        r2 = func(a2)
        r3 = func(a1)      # same argument object again
    except Exception as e:  # noqa: BLE001
        report.case(case.get("key"), nontrivial=True, sample=lambda: {k: v for k, v in case.items() if k != "key"})
        report.violation({**sig_base, "problem": "repeated_call_fails"},
                         f"{what}: the first call returned {codec.show(r1, 60)}, a repeated call with an equal argument raised "
                         f"{type(e).__name__}: {str(e)[:80]}", {k: v for k, v in case.items() if k != "key"})
        return True
    c_arg = containers(a1)
    c1, c2, c3 = containers(r1), containers(r2), containers(r3)
    nontrivial = bool(c_arg or c1)
    report.case(case.get("key"), nontrivial=nontrivial, sample=lambda: {k: v for k, v in case.items() if k != "key"})
    report.outcome("pure call checked" + (" (with containers)" if nontrivial else ""))

    def viol(problem, text):
        extra = classify(problem, a1, snap) if classify else {}
        report.violation({**sig_base, "problem": problem, **extra}, f"{what}: {text}", {k: v for k, v in case.items() if k != "key"})

    if not struct_eq(a1, snap) or set(containers(a1)) != ids_before:
        viol("argument_mutated", f"argument changed from {codec.show(snap, 80)} to {codec.show(a1, 80)}")
    if not (struct_eq(r1, r2) and struct_eq(r1, r3)):
        viol("results_differ", f"repeated call gives {codec.show(r1, 60)} then {codec.show(r2, 60)} / {codec.show(r3, 60)}")
    allowed = allowed_shared(a1) | allowed_shared(a2)
    shared = (set(c1) & set(c3)) - allowed
    if shared:
        viol("results_share_container", f"two results share {[codec.show(c1[i], 40) for i in list(shared)[:2]]}")
    shared = ((set(c1) | set(c3)) & set(c_arg)) - allowed
    if shared:
        viol("result_shares_container_with_argument", f"result shares {[codec.show(c_arg[i], 40) for i in list(shared)[:2]]} with the argument")
    if check_closure:
        cc = closure_containers(func)
        shared = (set(c1) | set(c2)) & set(cc)
        if shared:
            viol("result_shares_container_with_retort", f"result contains {[codec.show(cc[i], 40) for i in list(shared)[:2]]} kept alive by the loader itself")
    return True


# ------------------------------------------------------------------------------------------------------------
# types leg

def _outcome(func, arg):
    try:
        return ("ok", func(arg))
    except Exception as e:  # noqa: BLE001
        return ("err", type(e).__name__)


def types_shard(types):
    report = Report()
    for ts in types:
        hint = to_hint(ts)
        for mode in (("DISABLE", True), ("ALL", True), ("FIRST", False)):
            r = retort_for(mode)
            try:
                loader = r.get_loader(hint)
            except Exception:  # noqa: BLE001
                continue
            first_pass = []
            for datum in data_for(ts):
                if datum.one_shot:
                    continue
                purity(report, {"check": "C20.load", "node": unwrap(ts)[0]}, f"load {show(ts)} <- {datum.name} [{mode_name(mode)}]",
                       loader, datum.fresh, lambda a, ts=ts: passthrough_ids(ts, a),
                       {"key": ("t", ts, datum.name, mode), "kind": "load", "type": to_json(ts), "datum": datum.name, "mode": list(mode)})
                first_pass.append((datum, _outcome(loader, datum.fresh())))
            # "repeating a call with equal arguments gives equal results" - also after calls with OTHER arguments in between:
            # every datum once more, after the loader has seen the whole alphabet
            for datum, before in first_pass:
                report.evaluations += 1
                after = _outcome(loader, datum.fresh())
                if before[0] != after[0] or (before[0] == "ok" and not struct_eq(before[1], after[1])) or \
                        (before[0] == "err" and before[1] != after[1]):
                    report.violation({"check": "C20.load", "node": unwrap(ts)[0], "problem": "result_depends_on_earlier_calls"},
                                     f"load {show(ts)} <- {datum.name} [{mode_name(mode)}]: {codec.show(before[1], 60)} at first, "
                                     f"{codec.show(after[1], 60)} after the loader had been called with the other data of the alphabet",
                                     {"kind": "load", "type": to_json(ts), "datum": datum.name, "mode": list(mode)})
            if not dumper_exists(ts):
                continue
            try:
                dumper = r.get_dumper(hint)
                values = values_of(ts)
            except Exception:  # noqa: BLE001
                continue
            # IO[bytes]: a stream of unknown class can only be dumped by reading it, its position is not compared; a BytesIO
            # has getvalue() and must be left where it was
            STREAM_POS[0] = "IOBytes" not in show(ts)
            for i, x in enumerate(values):
                purity(report, {"check": "C20.dump", "node": unwrap(ts)[0]}, f"dump {show(ts)} of {codec.show(x, 50)} [{mode_name(mode)}]",
                       dumper, lambda x=x: copy.deepcopy(x), lambda a, ts=ts: passthrough_ids(ts, a),
                       {"key": ("d", ts, i, mode), "kind": "dump", "type": to_json(ts), "value_index": i, "mode": list(mode)})
            STREAM_POS[0] = True
    return report


# ------------------------------------------------------------------------------------------------------------
# models leg

def _any_field_ids(spec, obj_or_values):
    out = set()
    for fname, tkey, _ in spec["fields"]:
        if tkey in ("any", "dictany"):
            v = obj_or_values.get(fname) if isinstance(obj_or_values, dict) else getattr(obj_or_values, fname, None)
            out.update(containers(v))
            if tkey == "dictany" and isinstance(v, dict):
                out.discard(id(v))
    return out


def models_shard(progs):
    report = Report()
    for n, (spec, cfgs) in enumerate(progs):
        if c03.config_meaningful(spec, cfgs):
            continue
        schema = effective(cfgs)
        prog = Program(spec, cfgs)
        try:
            in_paths = field_paths(spec, schema, "in")
            node_kinds = validate(spec, schema, "in", in_paths)
        except (Invalid, Unspec):
            in_paths = None
        if in_paths is not None and prog.load_creation_error is None and schema["extra_in"] != "kwargs":
            plain_inputs = list(inputs_for(spec, in_paths, node_kinds, []))
            missing_inputs = [(iname + " as defaultdict", lambda make=make: _with_missing(make())) for iname, make in plain_inputs
                              if isinstance(make(), dict)]
            for iname, make in plain_inputs + missing_inputs:
                for mode in (("DISABLE", True), ("ALL", True), ("FIRST", False)):
                    def allowed(a, spec=spec):
                        # values at Any-typed fields pass through; find them in the raw input by walking everything: any container
                        # of the input that ends up in an Any field is exempt
                        own_defaults = {id(TYPES[t]["dv"]) for _, t, r in spec["fields"] if r == "dv"}   # the model itself shares these
                        return own_defaults | (set(containers(a)) if any(t in ("any",) for _, t, _ in spec["fields"]) else _dictany_values(a))
                    # keys the generated loader reads by subscription: required leaves and every branch node of a nested path
                    required_keys = {p[-1] for i, p in in_paths.items() if p not in (None, "target") and spec["fields"][i][2] == "req"}
                    required_keys |= {k for p in in_paths.values() if p not in (None, "target") for k in p[:-1]}

                    def classify(problem, now, before, required_keys=required_keys):
                        # root cause discriminator: only keys of REQUIRED fields were inserted into a mapping with __missing__
                        added = _added_keys(now, before)
                        if problem == "argument_mutated" and added and all(k in required_keys for k in added):
                            return {"cause": "required_key_read_by_subscription_from_a_mapping_with___missing__"}
                        return {}
                    purity(report, {"check": "C20.model_load"}, f"load {spec['kind']} {spec['fields']} {cfgs} <- {iname} [{mode_name(mode)}]",
                           prog.loaders[mode], make, allowed,
                           {"key": ("ml", spec["kind"], str(spec["fields"]), str(cfgs), iname, mode), "kind": "model_load", "spec": spec,
                            "configs": cfgs, "input": iname, "mode": list(mode)}, classify=classify)
        try:
            out_paths = field_paths(spec, schema, "out")
            validate(spec, schema, "out", out_paths)
        except (Invalid, Unspec):
            out_paths = None
        if out_paths is not None and prog.dump_creation_error is None and spec["kind"] != "kwinit":
            for vname, obj in c03._dump_objects(prog, spec):
                for dbg in ("DISABLE", "ALL"):
                    purity(report, {"check": "C20.model_dump"}, f"dump {spec['kind']} {spec['fields']} {cfgs} of {vname} [{dbg}]",
                           prog.dumpers[dbg], lambda obj=obj: copy.deepcopy(obj),
                           lambda a, spec=spec: _any_values_of_obj(spec, a),
                           {"key": ("md", spec["kind"], str(spec["fields"]), str(cfgs), vname, dbg), "kind": "model_dump", "spec": spec,
                            "configs": cfgs, "object": vname, "debug": dbg})
        clear_caches(n)
    return report


def _missing_value():
    return "<<made by __missing__>>"


def _with_missing(d):
    """the same input, every dict of it replaced by a mapping with __missing__ (what a subscription lookup would fill)"""
    if type(d) is dict:
        return collections.defaultdict(_missing_value, {k: _with_missing(v) for k, v in d.items()})
    if type(d) is list:
        return [_with_missing(x) for x in d]
    return d


def _dictany_values(a):
    """containers nested inside values of Dict[str, Any] fields / collected extras are Any-typed: exempt; found structurally:
    everything two levels below the root mapping"""
    out = set()
    if isinstance(a, dict):
        for v in a.values():
            if isinstance(v, dict):
                for vv in v.values():
                    out.update(containers(vv))
            out.update(containers(v) if not isinstance(v, (dict, list)) else ())
        # unknown keys collected as extras keep their values as is
        for k, v in a.items():
            if k in ("zz", "yy", "nn"):
                out.update(containers(v))
    return out


def _any_values_of_obj(spec, obj):
    out = set()
    vals = field_values(obj, spec) if not isinstance(obj, dict) else obj
    for fname, tkey, _ in spec["fields"]:
        if fname in vals and tkey in ("any", "dictany"):
            for c in containers(vals[fname]).items():
                out.add(c[0])
            if tkey == "dictany":
                out.discard(id(vals[fname]))
    return out


# ------------------------------------------------------------------------------------------------------------
# conversion leg

@dataclass
class SInner:
    p: int
    tags: List[str] = field(default_factory=list)


@dataclass
class DInner:
    p: int
    tags: List[str] = field(default_factory=list)


@dataclass
class Src:
    inner: SInner
    items: List[SInner]
    table: Dict[str, SInner]
    maybe: Optional[SInner]
    raw: List[int]


@dataclass
class Dst:
    inner: DInner
    items: List[DInner]
    table: Dict[str, DInner]
    maybe: Optional[DInner]
    raw: List[int]


@dataclass
class DstTuple:
    inner: DInner
    items: Tuple[DInner, ...]
    table: Dict[str, DInner]
    maybe: Optional[DInner]
    raw: Tuple[int, ...]


def conv_leg(report):
    def make_src():
        return Src(SInner(1, ["t"]), [SInner(2), SInner(3, ["u"])], {"k": SInner(4)}, SInner(7), [1, 2])

    for dst in (Dst, DstTuple):
        conv = get_converter(Src, dst)

        def allowed(a, dst=dst):
            # equal types are passed as is (documented): List[str] tags, and List[int] raw when the destination is List[int]
            ids = set()
            for inner in [a.inner, *a.items, *a.table.values(), a.maybe]:
                ids.add(id(inner.tags))
            if dst is Dst:
                ids.add(id(a.raw))
            return ids

        purity(report, {"check": "C20.convert"}, f"convert Src -> {dst.__name__}", conv, make_src, allowed,
               {"key": ("conv", dst.__name__), "kind": "convert", "dst": dst.__name__}, check_closure=True)


CONV_POOL = {
    "List[int]": (List[int], lambda: [1, 2]),
    "List[List[int]]": (List[List[int]], lambda: [[1], [2, 3]]),
    "Tuple[int, ...]": (Tuple[int, ...], lambda: (1, 2)),
    "Set[int]": (typing.Set[int], lambda: {1, 2}),
    "Sequence[int]": (typing.Sequence[int], lambda: [1, 2]),
    "Iterable[int]": (typing.Iterable[int], lambda: [1, 2]),
    "Dict[str, int]": (Dict[str, int], lambda: {"k": 1}),
    "Mapping[str, int]": (typing.Mapping[str, int], lambda: {"k": 1}),
    "MutableMapping[str, int]": (typing.MutableMapping[str, int], lambda: {"k": 1}),
    "Dict[str, List[int]]": (Dict[str, List[int]], lambda: {"k": [1, 2]}),
    "Mapping[str, List[int]]": (typing.Mapping[str, List[int]], lambda: {"k": [1, 2]}),
    "Mapping[str, Sequence[int]]": (typing.Mapping[str, typing.Sequence[int]], lambda: {"k": [1, 2]}),
    "Optional[List[int]]": (Optional[List[int]], lambda: [1, 2]),
    "Optional[Dict[str, int]]": (Optional[Dict[str, int]], lambda: {"k": 1}),
    "Optional[Mapping[str, int]]": (Optional[typing.Mapping[str, int]], lambda: {"k": 1}),
    "Any": (Any, lambda: [1, {"k": [2]}]),
}


def _equal_positions(s, d, value, out):
    """ids of containers at positions where source and destination types are the same (documented: passed as is)"""
    if s == d or d is Any:
        out.update(containers(value))
        return
    so, do = typing.get_origin(s), typing.get_origin(d)
    sa, da = typing.get_args(s), typing.get_args(d)
    if do is typing.Union and set(sa if so is typing.Union else (s,)) <= set(da):
        out.update(containers(value))     # "source union is a subset of destination union": passed as is
        return
    if so is typing.Union and do is typing.Union and value is not None:
        _equal_positions(sa[0], da[0], value, out)
    elif isinstance(value, dict) and len(sa) == 2 and len(da) == 2:
        for v in value.values():
            _equal_positions(sa[1], da[1], v, out)
    elif isinstance(value, (list, tuple, set)) and sa and da:
        for v in value:
            _equal_positions(sa[0], da[0], v, out)


def conv_pairs_leg(report):
    for sname, (shint, mk) in CONV_POOL.items():
        for dname, (dhint, _) in CONV_POOL.items():
            src = dataclasses.make_dataclass("Src", [("f", shint)])
            dst = dataclasses.make_dataclass("Dst", [("f", dhint)])
            try:
                conv = get_converter(src, dst)
            except Exception:  # noqa: BLE001
                report.outcome("conv pair refused")
                continue

            def allowed(a, shint=shint, dhint=dhint):
                out = set()
                _equal_positions(shint, dhint, a.f, out)
                return out
            purity(report, {"check": "C20.convert", "site": "field_pair"}, f"convert Src.f: {sname} -> Dst.f: {dname}", conv,
                   lambda src=src, mk=mk: src(mk()), allowed,
                   {"key": ("convpair", sname, dname), "kind": "convert_pair", "src": sname, "dst": dname}, check_closure=True)


def _enum_value_ids(a, out=None, depth=0):
    """containers that are the VALUE of an enum member found in the argument: the exact-value representation of a member is its
    own value object (the user's object, not a container adaptix builds) - passed as is in both directions"""
    import enum
    out = set() if out is None else out
    if depth > 6:
        return out
    if isinstance(a, enum.Enum):
        out.update(containers(a.value))
    elif isinstance(a, (list, tuple, set, frozenset)):
        for x in a:
            _enum_value_ids(x, out, depth + 1)
    elif isinstance(a, dict):
        for x in a.values():
            _enum_value_ids(x, out, depth + 1)
    return out


def variants_leg(report):
    """loaders and dumpers of non-default providers, generic and recursive models (the C01 extra programs)"""
    from checks import c01_extra
    for leg, gen in (("generic", c01_extra.generic_cases), ("recursive", c01_extra.recursive_cases), ("variant", c01_extra.variant_cases)):
        for name, hint, value, recipe in gen():
            for mode in (("DISABLE", True), ("ALL", True)):
                r = retort_with(recipe, mode)
                try:
                    dumper, loader = r.get_dumper(hint), r.get_loader(hint)
                    dumped = dumper(copy.deepcopy(value))
                except Exception:  # noqa: BLE001
                    report.outcome("variant not creatable")
                    continue
                base = {"kind": "variant", "leg": leg, "name": name, "mode": list(mode)}
                purity(report, {"check": "C20.variant_dump", "leg": leg}, f"dump {name} of {value!r} [{mode_name(mode)}]"[:200], dumper,
                       lambda value=value: copy.deepcopy(value), _enum_value_ids,
                       {**base, "key": ("vd", name, repr(value)[:60], mode)}, check_closure="Odd" not in name)
                purity(report, {"check": "C20.variant_load", "leg": leg}, f"load {name} <- {codec.show(dumped, 60)} [{mode_name(mode)}]", loader,
                       lambda dumped=dumped: copy.deepcopy(dumped), lambda a: set(),
                       {**base, "key": ("vl", name, repr(value)[:60], mode)}, check_closure="Odd" not in name)


def _mutable_parts(exc, depth=0, out=None):
    """every list / dict / set reachable from the attributes of an exception tree"""
    out = [] if out is None else out
    if depth > 4:
        return out
    for sub in getattr(exc, "exceptions", ()):
        _mutable_parts(sub, depth + 1, out)
    for name, val in list(vars(exc).items()) if hasattr(exc, "__dict__") else ():
        if isinstance(val, (list, dict, set)) and name not in ("__notes__",):
            out.append((name, val))
    return out


BAD_DATA = [lambda: "no such thing", lambda: ["X", "Y"], lambda: 123456789, lambda: {"zz": 1}, lambda: [[1]], lambda: None]


def error_objects_leg(report):
    """what a LoadError carries belongs to the caller: emptying or extending every mutable container found in a raised error must
    not change what the same loader does afterwards (the error must not hand out the loader's own tables)"""
    from adaptix.load_error import LoadError
    from checks import c01_extra
    for leg, gen in (("variant", c01_extra.variant_cases), ("generic", c01_extra.generic_cases)):
        for name, hint, value, recipe in gen():
            r = retort_with(recipe, ("ALL", True))
            try:
                loader, good = r.get_loader(hint), r.get_dumper(hint)(copy.deepcopy(value))
            except Exception:  # noqa: BLE001, S112
                continue

            def attempt(d, loader=loader):
                try:
                    return ("ok", loader(d))
                except LoadError as e:
                    return ("err", type(e).__name__, repr(e)[:300])
                except Exception as e:  # noqa: BLE001
                    return ("exc", type(e).__name__)
            before = [attempt(copy.deepcopy(good))] + [attempt(mk()) for mk in BAD_DATA]
            touched = 0
            for mk in BAD_DATA:
                try:
                    loader(mk())
                except LoadError as e:
                    for _, part in _mutable_parts(e):
                        touched += 1
                        if isinstance(part, list):
                            part.clear()
                            part.append("put here by the caller")
                        elif isinstance(part, dict):
                            part.clear()
                        else:
                            part.clear()
                except Exception:  # noqa: BLE001, S110
                    pass
            after = [attempt(copy.deepcopy(good))] + [attempt(mk()) for mk in BAD_DATA]
            case = {"kind": "error_objects", "leg": leg, "name": name}
            report.case(("errobj", name, repr(value)[:60]), nontrivial=touched > 0, sample=case)
            report.evaluations += 2 * len(before)
            report.outcome("error objects changed by the caller: " + ("loader unaffected" if before[0][0] == after[0][0] else "loader affected"))
            for b, a in zip(before, after):
                same_outcome = (b[0] == a[0]) and (b[0] != "ok" or struct_eq(b[1], a[1])) and (b[0] == "ok" or b[1:] == a[1:])
                if not same_outcome:
                    report.violation({"check": "C20.error_objects", "leg": leg},
                                     f"load {name}: after the containers carried by earlier LoadErrors were changed by the caller, the same "
                                     f"call gives {codec.show(a, 120)} instead of {codec.show(b, 120)}: the error handed out the loader's own "
                                     f"table", case)
                    break


def extra_out_targets_leg(report):
    """several extra_out target fields (typed Any / Dict[str, Any] / Dict[str, int], every order of 2 and 3 of them): the dumper
    merges their items into the result and must leave the dumped object alone"""
    import itertools
    from adaptix import name_mapping
    cands = {"e_any": (Any, {"x": 1}), "e_dict_any": (Dict[str, Any], {"y": [2]}), "e_dict_int": (Dict[str, int], {"z": 3})}
    for n in (2, 3):
        for targets in itertools.permutations(cands, n):
            cls = dataclasses.make_dataclass("M", [("a", int)] + [(t, cands[t][0]) for t in targets])
            for dbg in ("DISABLE", "ALL"):
                try:
                    dumper = retort_with([name_mapping(cls, extra_out=list(targets))], (dbg, True)).get_dumper(cls)
                except Exception:  # noqa: BLE001
                    report.outcome("extra_out targets: refused")
                    continue
                purity(report, {"check": "C20.model_dump", "site": "extra_out_targets"}, f"dump with extra_out={list(targets)} [{dbg}]", dumper,
                       lambda cls=cls, targets=targets: cls(1, *[copy.deepcopy(cands[t][1]) for t in targets]),
                       # values typed Any (the items of e_any and of e_dict_any) pass through; the target dicts themselves never do
                       lambda a: {i for t in targets if t != "e_dict_int" for i in containers(getattr(a, t)) if i != id(getattr(a, t))},
                       {"key": ("xo", targets, dbg), "kind": "extra_out_targets", "targets": list(targets), "debug": dbg})


def extra_out_mapping_leg(report):
    """the dump of a model that presents no own key (every field skipped / the extra target is the only field) is still a mapping
    adaptix builds: never the object's own mapping (as-is extra target typed Any, extractor handing out the object's dict), so
    changing the dump does not change the object and two dumps share nothing but the Any-typed values"""
    from adaptix import name_mapping

    @dataclass
    class OnlyData:
        data: Any

    @dataclass
    class Event:
        kind: str
        payload: Any

    @dataclass
    class Holder:
        ev: Event
        evs: List[OnlyData]

    payload = lambda: {"x": 1, "y": [2]}      # noqa: E731
    programs = [
        ("OnlyData/target", OnlyData, [name_mapping(OnlyData, extra_out="data")], lambda: OnlyData(payload())),
        ("Event/extractor, all fields skipped", Event, [name_mapping(Event, skip=["kind", "payload"], extra_out=lambda e: e.payload)],
         lambda: Event("click", payload())),
        ("Event/extractor, one own field", Event, [name_mapping(Event, skip=["payload"], extra_out=lambda e: e.payload)],
         lambda: Event("click", payload())),
        ("Event/target, other field skipped", Event, [name_mapping(Event, skip=["kind"], extra_out="payload")],
         lambda: Event("click", payload())),
        ("Holder/nested", Holder, [name_mapping(OnlyData, extra_out="data"),
                                   name_mapping(Event, skip=["kind", "payload"], extra_out=lambda e: e.payload)],
         lambda: Holder(Event("k", payload()), [OnlyData(payload()), OnlyData({})])),
    ]

    def own_mappings(a):
        if isinstance(a, OnlyData):
            return [a.data]
        if isinstance(a, Event):
            return [a.payload]
        return [a.ev.payload, *[x.data for x in a.evs]]
    for name, cls, recipe, mk in programs:
        for dbg in ("DISABLE", "FIRST", "ALL"):
            try:
                dumper = retort_with(recipe, (dbg, True)).get_dumper(cls)
            except Exception:  # noqa: BLE001
                report.outcome("extra_out mapping leg: refused")
                continue

            def allowed(a):
                # the values inside the extra mappings are Any-typed; the mappings themselves are not
                ids = set()
                for m in own_mappings(a):
                    for v in m.values():
                        ids.update(containers(v))
                return ids
            purity(report, {"check": "C20.model_dump", "site": "extra_out_mapping"}, f"dump {name} [{dbg}]", dumper, mk, allowed,
                   {"key": ("xom", name, dbg), "kind": "extra_out_mapping", "program": name, "debug": dbg})


class _Env:
    """takes its data only through a saturator"""
    def __init__(self):
        self.extra = None

    def __eq__(self, other):
        return type(other) is _Env and self.extra == other.extra


def _env_saturate(obj, extra):
    obj.extra = extra


class _ROMap(collections.abc.Mapping):
    def __init__(self, d):
        self._d = d

    def __getitem__(self, k):
        return self._d[k]

    def __iter__(self):
        return iter(self._d)

    def __len__(self):
        return len(self._d)

    def __eq__(self, other):
        return type(other) is _ROMap and self._d == other._d

    def __deepcopy__(self, memo):
        return _ROMap(copy.deepcopy(self._d, memo))


def extra_in_mapping_leg(report):
    """"the mapping of collected extra data is created anew by each call": models whose crown knows no key at all, one key, or only
    skipped keys, whose extras go to an as-is target (Any), to a saturator or to **kwargs; the values inside the mapping are
    Any-typed (pass-through), the mapping itself never is the argument nor shared between two results"""
    from adaptix import ExtraKwargs, name_mapping

    @dataclass
    class OnlyRest:
        rest: Any

    @dataclass
    class RestAndSkipped:
        rest: Any
        a: int = 0

    @dataclass
    class RestAndField:
        a: int
        rest: Any

    @dataclass
    class Outer:
        inner: OnlyRest
        items: List[OnlyRest]

    class Kw:
        def __init__(self, **kwargs):
            self.kw = kwargs

        def __eq__(self, other):
            return type(other) is Kw and self.kw == other.kw

    class Sat:
        def __init__(self, a: int = 0):
            self.a = a
            self.extra = None

        def __eq__(self, other):
            return type(other) is Sat and (self.a, self.extra) == (other.a, other.extra)

    def results_containers(r, out):
        # the classes above are plain objects: walk their attributes by hand
        if isinstance(r, (Kw, Sat, _Env)):
            for v in vars(r).values():
                out.update(containers(v))
                results_containers(v, out)
        elif isinstance(r, Outer):
            results_containers(r.inner, out)
            for x in r.items:
                results_containers(x, out)
        return out

    flat = lambda: {"x": 1, "y": [2], "a": 5}      # noqa: E731
    programs = [
        ("OnlyRest/target", OnlyRest, [name_mapping(OnlyRest, extra_in="rest")], flat),
        ("RestAndSkipped/target", RestAndSkipped, [name_mapping(RestAndSkipped, extra_in="rest", skip=["a"])], flat),
        ("RestAndField/target", RestAndField, [name_mapping(RestAndField, extra_in="rest")], flat),
        ("Outer/target", Outer, [name_mapping(OnlyRest, extra_in="rest")],
         lambda: {"inner": {"x": [1]}, "items": [{"y": [2]}, {}]}),
        ("Kw/kwargs", Kw, [name_mapping(Kw, extra_in=ExtraKwargs())], lambda: {"x": 1, "y": [2]}),
        ("Sat/saturator", Sat, [name_mapping(Sat, extra_in=_env_saturate)], flat),
        ("Sat/saturator-skipped", Sat, [name_mapping(Sat, extra_in=_env_saturate, skip=["a"])], flat),
        ("Env/saturator", _Env, [name_mapping(_Env, extra_in=_env_saturate)], flat),
    ]
    wrappers = [("dict", lambda d: d), ("defaultdict", lambda d: collections.defaultdict(_missing_value, d)),
                ("Mapping", lambda d: _ROMap(d) if all(not isinstance(v, (dict, list)) or True for v in d.values()) else d)]
    for name, cls, recipe, mk in programs:
        for mode in (("DISABLE", True), ("FIRST", True), ("ALL", True), ("ALL", False)):
            try:
                loader = retort_with(recipe, mode).get_loader(cls)
            except Exception:  # noqa: BLE001
                report.outcome("extra_in mapping leg: refused")
                continue
            for wname, wrap in wrappers:
                if name.startswith("Outer") and wname != "dict":
                    make = lambda mk=mk, wrap=wrap: {k: (wrap(v) if isinstance(v, dict) else [wrap(x) for x in v]) for k, v in mk().items()}  # noqa: E731
                else:
                    make = lambda mk=mk, wrap=wrap: wrap(mk())  # noqa: E731
                seen = {}

                def func(arg, loader=loader, seen=seen):
                    r = loader(arg)
                    # every mapping the result holds is reported as a container of the result (plain classes are not walked by
                    # containers()), by wrapping the result into a list next to them
                    return [r, *results_containers(r, {}).values()]

                def allowed(a):
                    # values inside the collected mapping are Any-typed; the mappings of the argument themselves are not
                    ids = set()
                    for m in ([a] if not name.startswith("Outer") else [a["inner"], *a["items"]]):
                        for v in (m.values() if hasattr(m, "values") else ()):
                            ids.update(containers(v))
                    return ids
                purity(report, {"check": "C20.model_load", "site": "extra_in_mapping"},
                       f"load {name} <- {wname} [{mode_name(mode)}]", func, make, allowed,
                       {"key": ("xi", name, wname, mode), "kind": "extra_in_mapping", "program": name, "input": wname, "mode": list(mode)},
                       check_closure=False)


def retort_with(recipe, mode):
    from adaptix import DebugTrail
    return Retort(recipe=recipe, debug_trail=DebugTrail[mode[0]], strict_coercion=mode[1])


def run(tier):
    report = Report()
    parallel.run_shards(types_shard, type_shards(tier, 64 if tier == "quick" else 256), report=report)
    progs = [p for p in c03.programs(tier) if sum(len([k for k in c if k != "chain"]) for c in p[1]) <= (1 if tier == "quick" else 2)]
    n = 64 if tier == "quick" else 256
    parallel.run_shards(models_shard, [progs[i::n] for i in range(n) if progs[i::n]], report=report)
    conv_leg(report)
    conv_pairs_leg(report)
    variants_leg(report)
    error_objects_leg(report)
    extra_out_targets_leg(report)
    extra_in_mapping_leg(report)
    extra_out_mapping_leg(report)
    return report


def SANITY(report, tier):  # noqa: N802
    if report.outcomes["pure call checked (with containers)"] < 2000:
        return ["fewer than 2000 calls with containers checked"]
    return []


def replay(case):
    from mc.space import from_json
    report = Report()
    if case["kind"] in ("load", "dump"):
        types_shard([from_json(case["type"])]).violations and report.merge(types_shard([from_json(case["type"])]))
    elif case["kind"] in ("model_load", "model_dump"):
        report.merge(models_shard([(case["spec"], case["configs"])]))
    elif case["kind"] == "convert_pair":
        conv_pairs_leg(report)
    elif case["kind"] == "variant":
        variants_leg(report)
    elif case["kind"] == "error_objects":
        error_objects_leg(report)
    elif case["kind"] == "extra_out_targets":
        extra_out_targets_leg(report)
    elif case["kind"] == "extra_in_mapping":
        extra_in_mapping_leg(report)
    elif case["kind"] == "extra_out_mapping":
        extra_out_mapping_leg(report)
    else:
        conv_leg(report)
    for v in report.violations.values():
        return v["what"]
    return None
