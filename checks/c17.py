"""C17 — all supported model kinds behave the same for the same logical model.

Logical model specs (field names, types, required / default value / default factory) are compiled to every kind that can
express them (dataclass, NamedTuple, TypedDict, attrs, pydantic, SQLAlchemy).  For every unordered pair of kinds, every input of
the per-field product, every mode and every single-option name_mapping: same input -> field-wise equal objects or the same error
shape (error classes, trails, offending values); field-wise equal objects -> equal dumps; converters between every ordered pair
of kinds copy every field.  Purely differential: no hand-written expectation.
"""
import copy
import itertools

from adaptix import P, name_mapping
from adaptix.conversion import allow_unlinked_optional, get_converter

from checks import c03
from mc import codec, parallel
from mc.matrix import DEBUGS, MODES, mode_name
from mc.models import KINDS, TYPES, build, construct, field_default, field_values, spec_valid
from mc.modsweep import Program, clear_caches, configs_upto, flatten_errors, inputs_for
from mc.ref_layout import Invalid, Unspec, effective, field_paths, validate
from mc.ref_types import same
from mc.report import Report

META = {
    "level": "exploration",
    "rule": (
        "cases = (logical spec, config, input, mode, pair of kinds); specs: all field lists of length <= 2 (thorough 3) over 6 "
        "field types x requiredness; configs: default + every single-option name_mapping; inputs: per-field product "
        "{good, good', ill-typed, absent} + wrong root kinds; all 15 unordered kind pairs compared through a canonical outcome; "
        "36 ordered converter pairs; a case is non-trivial when at least two kinds express the spec"
    ),
    "assumptions": [
        "documented per-kind limitations are spec restrictions, not oracle exceptions: TypedDict has no defaults (defaulted "
        "fields become NotRequired, absence compared as 'key missing'), TypedDict list positions follow alphabetical order, "
        "SQLAlchemy has only scalar columns here and an autoincrement primary key that is projected away, pydantic/SQLAlchemy "
        "private names excluded",
        "error messages and the model class identity are not part of the error shape",
    ],
    "bound": {"quick": "specs <= 2 fields (two-field specs over 4 field types)", "thorough": "specs <= 3 fields (multi-field specs over 5 field types)"},
}

FIELD_NAMES = ["a", "b_", "some_field"]
TKEYS = ["int", "str", "optint5", "listint", "nested", "bool", "enum"]


PRIVATE_NAMES = ["_a", "b", "_c"]     # kinds with private names only: dataclass, attrs (parameter a, field _a), TypedDict


def logical_specs(max_fields, tkeys=None, names=None):
    out = []
    names = names or FIELD_NAMES
    for n in range(1, max_fields + 1):
        for tks in itertools.product(tkeys if tkeys is not None and n > 1 else TKEYS, repeat=n):
            for reqs in itertools.product(("req", "dv", "df"), repeat=n):
                fields = [[names[i], tks[i], reqs[i]] for i in range(n)]
                # requiredness must be expressible: non-default may not follow default
                seen = False
                ok = True
                for _, t, r in fields:
                    if r != "req":
                        seen = True
                    elif seen:
                        ok = False
                    if r == "dv" and (TYPES[t]["dv"] is None or t in ("listint", "nested")):
                        ok = False
                    if r == "df" and TYPES[t]["df"] is None:
                        ok = False
                if ok:
                    out.append(fields)
    return out


def sa_load_only(fields):
    """SQLAlchemy twins with column defaults: the loader substitutes the default of an omitted key like for every other kind, but a
    directly constructed object holds None until flush - so these specs take part in the load comparison only"""
    return (any(req != "req" for _, _, req in fields)
            and all(t in ("int", "str", "bool") and not n.startswith("_") for n, t, _ in fields))


def kinds_for(fields, for_load=False):
    out = []
    for k in KINDS:
        spec = {"kind": k, "name": "Model", "fields": fields, "db_names": True}
        if spec_valid(spec) or (for_load and k == "sqlalchemy" and sa_load_only(fields)):
            out.append(k)
    return out


def error_shape(exc):
    out = []
    for leaf, trail in flatten_errors(exc):
        iv = getattr(leaf, "input_value", "<none>")
        extra = ""
        if hasattr(leaf, "fields"):
            extra = str(sorted(leaf.fields, key=repr))
        out.append((type(leaf).__name__, tuple(str(t) for t in trail), codec.show(iv, 60), extra))
    return sorted(out)


def canon_load(kind, spec, out, data_keys):
    """canonical outcome of a load"""
    if not out.ok:
        return ("err", error_shape(out.exc))
    vals = field_values(out.value, spec)
    canon = {}
    for fname, tkey, req in spec["fields"]:
        if fname in vals:
            canon[fname] = codec.show(vals[fname], 80)
        else:
            canon[fname] = "<absent>"
    return ("ok", canon)


def comparable(kind_a, kind_b, spec, canon_a, canon_b):
    """TypedDict has no defaults: for a defaulted logical field absent from the input, '<absent>' on the TypedDict side
    corresponds to the default value on the other side"""
    if canon_a[0] != canon_b[0]:
        return False
    if canon_a[0] == "err":
        return canon_a[1] == canon_b[1]
    for fname, tkey, req in spec["fields"]:
        x, y = canon_a[1][fname], canon_b[1][fname]
        if x == y:
            continue
        d = field_default(tkey, req)
        if d[0] == "none":
            return False
        dflt = codec.show(d[1] if d[0] == "value" else d[1](), 80)
        if (kind_a == "typeddict" and x == "<absent>" and y == dflt) or (kind_b == "typeddict" and y == "<absent>" and x == dflt):
            continue
        return False
    return True


def check_spec(fields, cfgs_list, report):  # noqa: C901, PLR0912
    kinds = kinds_for(fields, for_load=True)
    if len(kinds) < 2:
        report.skip("fewer than two kinds can express the spec")
        return
    for cfg in cfgs_list:
        progs = {}
        for k in kinds:
            spec = {"kind": k, "name": "Model", "fields": fields, "db_names": True}
            if c03.config_meaningful(spec, [cfg]):
                continue
            if k in ("pydantic", "sqlalchemy", "typeddict") and (cfg.get("as_list") or str(cfg.get("map", "")).startswith("idx")):
                continue
            if k == "sqlalchemy" and cfg.get("extra_out") is not None:
                continue
            if k == "sqlalchemy" and sa_load_only(fields) and ("skip" in cfg or "only" in cfg or str(cfg.get("map", "")).startswith("none")):
                continue     # a skipped column is not passed to the constructor: SQLAlchemy leaves None until flush
            # the surrogate primary key of the SQLAlchemy twin is not part of the logical model: it is mapped to None (skipped)
            first = (lambda cls: [name_mapping(cls, map={"pk_": None})]) if k == "sqlalchemy" else None
            progs[k] = (spec, Program(spec, [cfg], first_providers=first))
        if len(progs) < 2:
            continue
        ref_kind = next(iter(progs))
        ref_spec = progs[ref_kind][0]
        schema = effective([cfg])
        feature = sorted(k for k in cfg)
        # creation agreement
        created = {k: (p.load_creation_error is None, p.dump_creation_error is None) for k, (s, p) in progs.items()}
        report.case(("create", str(fields), str(cfg)), nontrivial=True)
        if len(set(created.values())) > 1:
            # a TypedDict NotRequired item is optional on output as well, the other kinds' defaulted fields are not:
            # validity rules that depend on optionality (list positions) legitimately differ
            td_only = {k for k, v in created.items() if v != created[ref_kind]} <= {"typeddict"} or ref_kind == "typeddict"
            if not td_only:
                report.violation({"check": "C17.creation", "features": feature},
                                 f"{fields} {cfg}: loader/dumper creation differs between kinds: {created}",
                                 {"fields": fields, "config": cfg})
            continue
        if not created[ref_kind][0]:
            continue
        try:
            in_paths = field_paths(ref_spec, schema, "in")
            node_kinds = validate(ref_spec, schema, "in", in_paths)
        except (Invalid, Unspec):
            continue
        # loads
        for iname, make in inputs_for(ref_spec, in_paths, node_kinds, []):
            for mode in MODES:
                canon = {}
                for k, (spec, prog) in progs.items():
                    datum = make()
                    canon[k] = canon_load(k, spec, prog.load(mode, datum), None)
                report.case(("load", str(fields), str(cfg), iname, mode), nontrivial=True,
                            sample=lambda: {"fields": fields, "config": cfg, "input": iname, "mode": mode_name(mode),
                                            "outcomes": {k: str(v)[:120] for k, v in canon.items()}})
                report.outcome("load:" + canon[ref_kind][0])
                ks = list(canon)
                for i, ka in enumerate(ks):
                    for kb in ks[i + 1:]:
                        report.count("pairs_compared", 1)
                        if not comparable(ka, kb, ref_spec, canon[ka], canon[kb]):
                            report.violation(
                                {"check": "C17.load", "pair": sorted([ka, kb]), "features": feature,
                                 "problem": "acceptance" if canon[ka][0] != canon[kb][0] else ("errors" if canon[ka][0] == "err" else "values")},
                                f"{fields} {cfg} <- {codec.show(make(), 80)} [{mode_name(mode)}]: {ka} gives {str(canon[ka])[:150]} "
                                f"but {kb} gives {str(canon[kb])[:150]}",
                                {"fields": fields, "config": cfg, "input": iname, "mode": list(mode)})
        # dumps
        if not created[ref_kind][1]:
            continue
        for variant in ("g0", "g1", "defaults"):
            dumped = {}
            for k, (spec, prog) in progs.items():
                if k == "sqlalchemy" and sa_load_only(fields):
                    continue
                values = {}
                for fname, tkey, req in fields:
                    if variant == "defaults" and req != "req":
                        if k == "typeddict":
                            continue     # absent key
                        continue
                    values[fname] = copy.deepcopy(TYPES[tkey]["good"][0 if variant != "g1" else 1][1])
                try:
                    obj = construct(prog.cls, k, values)
                except Exception:  # noqa: BLE001, S112
                    continue
                out = prog.dump("ALL", obj)
                if out.ok:
                    v = out.value
                    if k == "sqlalchemy" and isinstance(v, dict):
                        v = {kk: vv for kk, vv in v.items() if kk not in ("pk_", "pk")}
                    if isinstance(v, tuple):
                        v = list(v)
                    dumped[k] = ("ok", v)
                else:
                    dumped[k] = ("err", type(out.exc).__name__)
            report.case(("dump", str(fields), str(cfg), variant), nontrivial=True)
            ks = list(dumped)
            for i, ka in enumerate(ks):
                for kb in ks[i + 1:]:
                    report.count("pairs_compared", 1)
                    if variant == "defaults" and "typeddict" in (ka, kb):
                        continue     # a TypedDict without the key dumps nothing, the others dump their default
                    if variant == "defaults" and "sqlalchemy" in (ka, kb):
                        continue     # SQLAlchemy applies column defaults at flush time, the constructed object holds None
                    if "omit_default" in cfg and "typeddict" in (ka, kb):
                        continue     # TypedDict has no defaults to omit
                    if dumped[ka][0] != dumped[kb][0] or (dumped[ka][0] == "ok" and not same(dumped[ka][1], dumped[kb][1])):
                        report.violation({"check": "C17.dump", "pair": sorted([ka, kb]), "features": feature},
                                         f"{fields} {cfg} dump of {variant}: {ka} gives {codec.show(dumped[ka][1], 80)} but {kb} gives "
                                         f"{codec.show(dumped[kb][1], 80)}", {"fields": fields, "config": cfg, "object": variant})


def check_converters(fields, report):
    kinds = kinds_for(fields)
    classes = {k: build({"kind": k, "name": "Model", "fields": fields, "db_names": True}) for k in kinds}
    values = {fname: copy.deepcopy(TYPES[tkey]["good"][0][1]) for fname, tkey, _ in fields}
    for ka in kinds:
        for kb in kinds:
            recipe = [allow_unlinked_optional(P[classes[kb]].pk_)] if kb == "sqlalchemy" else []
            report.case(("conv", str(fields), ka, kb), nontrivial=True, sample={"fields": fields, "from": ka, "to": kb})
            report.outcome("converter pair")
            case = {"fields": fields, "from": ka, "to": kb, "leg": "conv"}
            try:
                conv = get_converter(classes[ka], classes[kb], recipe=recipe)
                src = construct(classes[ka], ka, copy.deepcopy(values))
                dst = conv(src)
            except Exception as e:  # noqa: BLE001
                report.violation({"check": "C17.convert", "problem": "failed", "from": ka, "to": kb, "exc": type(e).__name__},
                                 f"{fields}: converter {ka} -> {kb} failed: {type(e).__name__}: {str(getattr(e, '__cause__', None) or e)[:200]}", case)
                continue
            got = field_values(dst, {"kind": kb, "fields": fields})
            if not same(got, values):
                report.violation({"check": "C17.convert", "problem": "fields_not_copied", "from": ka, "to": kb},
                                 f"{fields}: converter {ka} -> {kb} gives {codec.show(got, 100)} from {codec.show(values, 100)}", case)


def check_kwonly_layouts(fields, report):
    """the same logical model with some fields keyword-only (declared BEFORE positional ones, so the order of the fields differs
    from the order of the constructor parameters): loading and converting must fill every field with its own value"""
    if len(fields) < 2:
        return
    from adaptix import Retort
    values = {fname: copy.deepcopy(TYPES[tkey]["good"][1][1]) for fname, tkey, _ in fields}
    data = {(fname[:-1] if fname.endswith("_") and not fname.endswith("__") else fname): copy.deepcopy(TYPES[tkey]["good"][1][0])
            for fname, tkey, _ in fields}        # the documented default: one trailing underscore is trimmed
    plain_kinds = [k for k in kinds_for(fields) if k != "sqlalchemy"]
    for kw in ([0], [0, 1] if len(fields) > 2 else None, [len(fields) - 2]):
        if kw is None:
            continue
        for kb in ("dataclass", "attrs"):
            spec_b = {"kind": kb, "name": "Model", "fields": fields, "kw_only": kw}
            if not spec_valid({"kind": kb, "name": "Model", "fields": [f for i, f in enumerate(fields) if i not in kw]}):
                continue        # the positional part must itself be a legal signature
            try:
                dst_cls = build(spec_b)
            except Exception:  # noqa: BLE001
                report.skip("the model kind refuses this keyword-only layout")
                continue
            case = {"fields": fields, "kw_only": kw, "to": kb, "leg": "kwonly"}
            report.case(("kwonly", str(fields), str(kw), kb), nontrivial=True, sample=case)
            report.outcome("kw-only layout")
            try:
                got = field_values(Retort().load(copy.deepcopy(data), dst_cls), spec_b)
                if not same(got, values):
                    report.violation({"check": "C17.load", "problem": "values", "pair": [kb, kb + "/kw_only"], "features": ["kw_only"]},
                                     f"{fields} with keyword-only fields {kw} ({kb}): loading {codec.show(data, 80)} gives "
                                     f"{codec.show(got, 100)}", case)
            except Exception as e:  # noqa: BLE001
                report.violation({"check": "C17.load", "problem": "acceptance", "pair": [kb, kb + "/kw_only"], "features": ["kw_only"]},
                                 f"{fields} with keyword-only fields {kw} ({kb}): load failed: {type(e).__name__}: {str(e)[:150]}", case)
            if all(req == "req" and not fname.startswith("_") for fname, _, req in fields):
                # list layout: positions follow the order of the FIELDS (what the dumper emits and what every other kind reads),
                # not the order of the constructor parameters
                lst = [copy.deepcopy(TYPES[tkey]["good"][1][0]) for _, tkey, _ in fields]
                report.evaluations += 1
                try:
                    lr = Retort(recipe=[name_mapping(dst_cls, as_list=True)])
                    got = field_values(lr.load(copy.deepcopy(lst), dst_cls), spec_b)
                    back = lr.dump(construct(dst_cls, kb, copy.deepcopy(values)), dst_cls)
                    if not same(got, values) or not same(list(back), lst):
                        report.violation({"check": "C17.load", "problem": "values", "pair": [kb, kb + "/kw_only"], "features": ["kw_only", "as_list"]},
                                         f"{fields} with keyword-only fields {kw} ({kb}), as_list: loading {codec.show(lst, 80)} gives "
                                         f"{codec.show(got, 100)}, dumping the model gives {codec.show(back, 80)}", case)
                except Exception as e:  # noqa: BLE001
                    report.violation({"check": "C17.load", "problem": "acceptance", "pair": [kb, kb + "/kw_only"], "features": ["kw_only", "as_list"]},
                                     f"{fields} with keyword-only fields {kw} ({kb}), as_list: {type(e).__name__}: {str(e)[:150]}", case)
            for ka in plain_kinds:
                src_cls = build({"kind": ka, "name": "Model", "fields": fields})
                report.evaluations += 1
                try:
                    dst = get_converter(src_cls, dst_cls)(construct(src_cls, ka, copy.deepcopy(values)))
                    got = field_values(dst, spec_b)
                except Exception as e:  # noqa: BLE001
                    report.violation({"check": "C17.convert", "problem": "failed", "from": ka, "to": kb + "/kw_only", "exc": type(e).__name__},
                                     f"{fields} kw_only {kw}: converter {ka} -> {kb} failed: {type(e).__name__}: "
                                     f"{str(getattr(e, '__cause__', None) or e)[:200]}", case)
                    continue
                if not same(got, values):
                    report.violation({"check": "C17.convert", "problem": "fields_not_copied", "from": ka, "to": kb + "/kw_only"},
                                     f"{fields} with keyword-only fields {kw}: converter {ka} -> {kb} gives {codec.show(got, 100)} from "
                                     f"{codec.show(values, 100)}", case)


def check_partial_converters(fields, report):
    """the source lacks one defaulted field of the logical model (allow_unlinked_optional): every destination kind must build the
    object the model itself builds from the remaining fields"""
    kinds = kinds_for(fields)
    for drop, (dname, dtkey, dreq) in enumerate(fields):
        if dreq == "req":
            continue
        src_fields = [f for i, f in enumerate(fields) if i != drop]
        if not src_fields:
            continue
        src_cls = build({"kind": "dataclass", "name": "Src", "fields": [[n, t, "req"] for n, t, _ in src_fields]})
        values = {fname: copy.deepcopy(TYPES[tkey]["good"][1][1]) for fname, tkey, _ in src_fields}
        for kb in kinds:
            if kb == "sqlalchemy":
                continue
            dst_cls = build({"kind": kb, "name": "Model", "fields": fields})
            case = {"fields": fields, "dropped": dname, "to": kb, "leg": "conv_partial"}
            report.case(("convp", str(fields), dname, kb), nontrivial=True, sample=case)
            report.outcome("partial converter")
            try:
                conv = get_converter(src_cls, dst_cls, recipe=[allow_unlinked_optional(P[dst_cls][dname])])
                dst = conv(construct(src_cls, "dataclass", copy.deepcopy(values)))
                want = construct(dst_cls, kb, copy.deepcopy(values))
            except Exception as e:  # noqa: BLE001
                report.violation({"check": "C17.convert", "problem": "failed", "from": "partial", "to": kb, "exc": type(e).__name__},
                                 f"{fields} without {dname}: converter to {kb} failed: {type(e).__name__}: "
                                 f"{str(getattr(e, '__cause__', None) or e)[:200]}", case)
                continue
            spec_b = {"kind": kb, "fields": fields}
            got, expected = field_values(dst, spec_b), field_values(want, spec_b)
            if not same(got, expected):
                report.violation({"check": "C17.convert", "problem": "fields_not_copied", "from": "partial", "to": kb},
                                 f"{fields} without {dname}: converter to {kb} gives {codec.show(got, 100)}, the model itself builds "
                                 f"{codec.show(expected, 100)}", case)


def shard(args):
    items, mode = args
    report = Report()
    for n, fields in enumerate(items):
        if mode == "load":
            cfgs = [c for c in configs_upto(len(fields), 1)
                    if c.get("extra_in") in (None, "forbid") and c.get("extra_out") is None and c.get("map") not in ("prefix", "dup")]
            check_spec(fields, cfgs, report)
        else:
            check_converters(fields, report)
            check_partial_converters(fields, report)
            check_kwonly_layouts(fields, report)
        clear_caches(n)
    report.count("logical_specs", len(items))
    return report


def run(tier):
    report = Report()
    specs = logical_specs(2, ["int", "str", "optint5", "nested"]) if tier == "quick" else logical_specs(3, ["int", "str", "optint5", "listint", "nested"])
    n = 128 if tier == "quick" else 512
    shards = [(specs[i::n], "load") for i in range(n) if specs[i::n]]
    private = logical_specs(2, ["int", "optint5", "nested"], names=PRIVATE_NAMES)
    shards += [(private[i::32], "load") for i in range(32) if private[i::32]]
    conv_specs = logical_specs(2) + logical_specs(3, ["int", "str"])[len(logical_specs(2, ["int", "str"])):] + logical_specs(2, ["int", "str"], names=PRIVATE_NAMES)
    shards += [(conv_specs[i::16], "conv") for i in range(16) if conv_specs[i::16]]
    parallel.run_shards(shard, shards, report=report)
    return report


def SANITY(report, tier):  # noqa: N802
    problems = []
    if report.counters["pairs_compared"] < 10000:
        problems.append("fewer than 10000 kind pairs compared")
    if report.outcomes["load:err"] < 500 or report.outcomes["load:ok"] < 500:
        problems.append("too few accepted / rejected loads")
    if report.outcomes["converter pair"] < 100:
        problems.append("fewer than 100 converter pairs")
    return problems


def replay(case):
    report = Report()
    if case.get("leg") == "conv":
        check_converters(case["fields"], report)
    else:
        check_spec(case["fields"], [case["config"]], report)
    for v in report.violations.values():
        return v["what"]
    return None
