"""C11 — results never depend on call history; retorts are immutable.

Explicit-state exploration over histories: all sequences (up to the tier's length) of facade operations over a pool of
mutually confusable types are replayed, each on a fresh retort in a process whose caches were cleared; the state reached
(canonical form: the sorted keys of the retort's three cache layers) is probed with the full probe set on every retort of the
state, and each probe outcome is compared with the same probe on a pristine equal retort (fresh, cold caches, nothing else
ever requested).  Loaders handed out earlier are re-probed after the later operations; original retorts are re-probed after
replace/extend.
"""
import copy
import itertools
import sys
from dataclasses import dataclass, make_dataclass
from typing import Annotated, Callable, Dict, Generic, List, Literal, NewType, Optional, Sequence, TypeVar, Union

from adaptix import DebugTrail, P, ProviderNotFoundError, Retort, dumper, loader, name_mapping
from adaptix.conversion import ConversionRetort, coercer

from mc import codec, env, parallel
from mc.report import Report, digest

META = {
    "level": "model_checking",
    "rule": (
        "states = distinct canonical cache states (sorted typed keys of _loader_cache/_dumper_cache/_call_cache/"
        "_simple_converter_cache of every retort of the history), transitions = facade operations applied, traces = histories "
        "whose final state was probed with the full probe set on every retort and compared with a pristine retort; all histories "
        "up to the bound are enumerated; a history is non-trivial when it contains at least one operation"
    ),
    "assumptions": [
        "the pristine reference is the same implementation on a fresh retort with cold process caches (differential oracle)",
        "probe outcomes are compared as type-exact renderings of values / exception class trees",
        "histories longer than the bound and types outside the confusable pool are not explored",
    ],
    "bound": {"quick": "all histories of length 1; all histories of length 2 whose first operation touches a shared key class, a clone or the conversion retort",
              "thorough": "length <= 2 over the full alphabet and length <= 3 over the 16 operations that touch a shared key class"},
}

T = TypeVar("T")


@dataclass
class G(Generic[T]):
    g: T


@dataclass
class Rec:
    v: int
    children: List["Rec"]


@dataclass
class BadField:
    f: Callable[[int], int]


@dataclass
class MA:
    x: int
    b: Optional["MB"] = None


@dataclass
class MB:
    y: int
    a: Optional[MA] = None


@dataclass
class Folder:
    owner: "Owner"


@dataclass
class Owner:
    uid: int
    home: Optional[Folder] = None


@dataclass
class Ev:
    id: int


@dataclass
class UserEv(Ev):
    user: str = "u"


@dataclass
class Audited(Ev):
    """not a case of Union[Ev, UserEv]: dumped by its nearest ancestor that is one (Ev)"""


@dataclass
class AuditedUser(Audited, UserEv):
    """diamond: MRO Audited, UserEv, Ev - the nearest ancestor among the cases is UserEv, whatever was dumped before"""


M_int = make_dataclass("M", [("a", int)])
M_str = make_dataclass("M", [("a", str)])
NT_M = NewType("NT_M", M_int)

POOL = [
    ("Literal[0,1]", Literal[0, 1]),
    ("Literal[False,True]", Literal[False, True]),
    ("Literal[1]", Literal[1]),
    ("Literal[True]", Literal[True]),
    ("List[int]", List[int]),
    ("list[int]", list[int]),
    ("Sequence[int]", Sequence[int]),
    ("List[bool]", List[bool]),
    ("Union[int,str]", Union[int, str]),
    ("Union[str,int]", Union[str, int]),
    ("Optional[Literal[0]]", Optional[Literal[0]]),
    ("Optional[Literal[False]]", Optional[Literal[False]]),
    ("Dict[str,Literal[0,1]]", Dict[str, Literal[0, 1]]),
    ("Dict[str,Literal[False,True]]", Dict[str, Literal[False, True]]),
    ("M(a:int)", M_int),
    ("M(a:str)", M_str),
    ("NewType(M)", NT_M),
    ("Annotated[int,1]", Annotated[int, 1]),
    ("Annotated[int,True]", Annotated[int, True]),
    ("Annotated[bool,1]", Annotated[bool, 1]),
    ("Rec", Rec),
    ("MA<->MB", MA),
    ("MB<->MA", MB),
    ("Folder->Owner", Folder),
    ("BadField", BadField),
    ("G[int]", G[int]),
    ("G[bool]", G[bool]),
    ("int", int),
    ("bool", bool),
    ("Union[Ev,UserEv]", Union[Ev, UserEv]),
]
POOL_IDX = {name: i for i, (name, _) in enumerate(POOL)}

LOAD_DATA = [0, False, 1, True, "a", [1], [True], ["a"], {"k": 0}, {"k": False}, {"a": 1}, {"a": "x"}, {"g": 1}, {"g": True},
             None, {"v": 1, "children": [{"v": 2, "children": []}]},
             {"x": 1, "b": {"y": 2, "a": {"x": 3, "b": {"y": 4, "a": None}}}}, {"y": 1, "a": {"x": 2, "b": {"y": 3, "a": {"x": 4}}}},
             {"owner": {"uid": 1, "home": {"owner": {"uid": 2, "home": {"owner": {"uid": 3, "home": None}}}}}}]
DUMP_VALUES = [0, False, 1, True, "a", [1], [True], {"k": 0}, {"k": True}, M_int(1), M_str("x"), G(1), G(True),
               Rec(1, [Rec(2, [])]), None, MA(1, MB(2, MA(3, MB(4)))), MB(1, MA(2, MB(3, MA(4)))),
               Folder(Owner(1, Folder(Owner(2, Folder(Owner(3)))))),
               Audited(1), AuditedUser(2, "bob"), UserEv(3, "x"), Ev(4)]

EXT_PROVIDERS = {
    "loader(int,+1)": lambda: loader(int, lambda d: d + 1 if type(d) is int else d),
    "dumper(int,*10)": lambda: dumper(int, lambda d: d * 10 if type(d) is int else d),
    "name_mapping(M,a->A)": lambda: name_mapping(M_int, map={"a": "A"}),
}

# conversion side: confusable pairs of models (equal names, equal shapes)
S1 = make_dataclass("S", [("a", int), ("b", str)])
D1 = make_dataclass("D", [("a", int), ("b", str)])
D2 = make_dataclass("D", [("a", int)])
D3 = make_dataclass("D", [("a", str), ("b", str)])      # needs a coercer int -> str for field a
CONV_PAIRS = [("S->D(a,b)", S1, D1), ("S->D(a)", S1, D2), ("S->D(a:str,b)", S1, D3)]
CONV_EXT = {"coercer(int,str)": lambda: coercer(int, str, str)}
# per-call recipes: two get_converter / convert calls for the same pair that differ only in recipe=
CALL_RECIPES = {
    "none": lambda: [],
    "str()": lambda: [coercer(int, str, str)],
    "tagged": lambda: [coercer(int, str, lambda x: f"<{x}>")],
}


def operations():
    ops = []
    for name, _ in POOL:
        ops.append(("get_loader", name))
    for name in ("Literal[0,1]", "Literal[False,True]", "List[int]", "Union[int,str]", "M(a:int)", "M(a:str)", "Rec", "MA<->MB", "Folder->Owner",
                 "BadField", "G[int]", "G[bool]", "Annotated[int,1]", "Dict[str,Literal[False,True]]"):
        ops.append(("get_dumper", name))
    ops += [("load", "Literal[False,True]", 3), ("load", "Literal[0,1]", 3), ("load", "M(a:int)", 11), ("load", "Rec", 4),
            ("dump", "M(a:str)", 9)]
    ops += [("replace", "strict_coercion", False), ("replace", "debug_trail", "DISABLE"), ("replace", "debug_trail", "FIRST")]
    ops += [("extend", k) for k in EXT_PROVIDERS]
    ops += [("filler",)]
    ops += [("conv_get", p[0]) for p in CONV_PAIRS] + [("conv_extend", k) for k in CONV_EXT]
    ops += [("conv_get_recipe", "S->D(a:str,b)", k) for k in CALL_RECIPES] + [("conv_convert_recipe", "S->D(a:str,b)", "tagged")]
    return ops


SHARED_KEY_OPS = [
    ("get_loader", "Literal[0,1]"), ("get_loader", "Literal[False,True]"), ("get_loader", "Optional[Literal[False]]"),
    ("get_loader", "Dict[str,Literal[0,1]]"), ("get_loader", "List[int]"), ("get_loader", "List[bool]"),
    ("get_loader", "M(a:int)"), ("get_loader", "M(a:str)"), ("get_loader", "G[bool]"), ("get_loader", "G[int]"),
    ("get_loader", "Annotated[int,True]"), ("get_loader", "BadField"), ("get_dumper", "M(a:str)"), ("get_loader", "MA<->MB"), ("get_loader", "Folder->Owner"), ("get_dumper", "Folder->Owner"),
    ("replace", "strict_coercion", False), ("extend", "loader(int,+1)"), ("filler",),
]


# ------------------------------------------------------------------------------------------------------------

def render(v):
    return codec.show(v, 200)


def render_exc(e, depth=0):
    s = type(e).__name__
    if isinstance(e, BaseExceptionGroup) and depth < 4:
        s += "[" + ",".join(sorted(render_exc(x, depth + 1) for x in e.exceptions)) + "]"
    return s


def outcome(fn, *args):
    try:
        return "ok:" + render(fn(*args))
    except Exception as e:  # noqa: BLE001
        return "err:" + render_exc(e)


class World:
    """the retorts of one history: index 0 is the root Retort; replace/extend results are appended"""

    def __init__(self):
        env.reset_process_caches()
        self.retorts = [Retort()]
        self.paths = [()]           # construction path of each retort (sequence of replace/extend ops)
        self.handed = []            # (retort index, pool name, loader or dumper, "load"|"dump")
        self.conv = [ConversionRetort()]
        self.conv_paths = [()]
        self.n_ops = 0

    def apply(self, op):  # noqa: C901
        self.n_ops += 1
        kind = op[0]
        if kind in ("get_loader", "get_dumper", "load", "dump"):
            hint = POOL[POOL_IDX[op[1]]][1]
            # the operation is applied to the most recently created retort (and the root stays in the state)
            idx = len(self.retorts) - 1
            r = self.retorts[idx]
            try:
                if kind == "get_loader":
                    self.handed.append((idx, op[1], r.get_loader(hint), "load"))
                elif kind == "get_dumper":
                    self.handed.append((idx, op[1], r.get_dumper(hint), "dump"))
                elif kind == "load":
                    r.load(LOAD_DATA[op[2]], hint)
                else:
                    r.dump(DUMP_VALUES[op[2]], hint)
            except Exception:  # noqa: BLE001, S110
                pass   # failing requests are part of the alphabet
        elif kind == "replace":
            # applied to every retort of the state (a replace() that also wrote into its original would show on the others)
            for i in range(len(self.retorts)):
                arg = {op[1]: DebugTrail[op[2]] if op[1] == "debug_trail" else op[2]}
                self.retorts.append(self.retorts[i].replace(**arg))
                self.paths.append((*self.paths[i], op))
        elif kind == "extend":
            for i in range(len(self.retorts)):
                self.retorts.append(self.retorts[i].extend(recipe=iter([EXT_PROVIDERS[op[1]]()])))   # a recipe is any iterable: it must be copied
                self.paths.append((*self.paths[i], op))
        elif kind == "filler":
            from adaptix._internal.type_tools import normalize_type
            for i in range(140):
                normalize_type(Dict[str, Literal[i + 100]])
        elif kind == "conv_get":
            pair = next(p for p in CONV_PAIRS if p[0] == op[1])
            try:
                self.conv[-1].get_converter(pair[1], pair[2])
            except Exception:  # noqa: BLE001, S110
                pass
        elif kind in ("conv_get_recipe", "conv_convert_recipe"):
            pair = next(p for p in CONV_PAIRS if p[0] == op[1])
            try:
                if kind == "conv_get_recipe":
                    self.conv[-1].get_converter(pair[1], pair[2], recipe=CALL_RECIPES[op[2]]())
                else:
                    self.conv[-1].convert(S1(1, "x"), pair[2], recipe=CALL_RECIPES[op[2]]())
            except Exception:  # noqa: BLE001, S110
                pass
        elif kind == "conv_extend":
            for i in range(len(self.conv)):
                self.conv.append(self.conv[i].extend(recipe=iter([CONV_EXT[op[1]]()])))
                self.conv_paths.append((*self.conv_paths[i], op))
        else:
            raise ValueError(op)

    def canonical_state(self):
        # the state of a retort = the key sets of every plain dict it holds (caches are found by type, not by name, so the
        # abstraction follows a renamed or added cache; dicts that never change only add a constant; the identity of the state
        # steers deduplication and the vacuity guard, never the verdict)
        parts = []
        for r in [*self.retorts, *self.conv]:
            keys = []
            for n, (attr, val) in enumerate(sorted(vars(r).items())):
                if type(val) is dict:
                    keys += sorted(f"{n}:{_typed_repr(k)[:300]}" for k in val)
            parts.append(keys)
        return digest(repr(parts))


def _typed_repr(k):
    if isinstance(k, tuple):
        return "(" + ",".join(_typed_repr(x) for x in k) + ")"
    if callable(k) and hasattr(k, "__qualname__"):
        return k.__qualname__
    origin = getattr(k, "__origin__", None)
    if origin is Literal:
        return "Literal[" + ",".join(f"{type(a).__name__}:{a!r}" for a in k.__args__) + "]"
    args = getattr(k, "__args__", None)
    if args:
        return f"{getattr(origin, '__name__', origin)}[{','.join(_typed_repr(a) for a in args)}]"
    if isinstance(k, type):
        return f"{k.__module__}.{k.__qualname__}@{id(k) % 9973 if k.__name__ in ('M', 'S', 'D') else ''}"
    r = repr(k)
    return f"{type(k).__name__}:{r}" if " at 0x" not in r else type(k).__name__


def probe_retort(r):
    """the full probe set on one retort: every pool type x every datum (load) and every value (dump)"""
    out = {}
    for name, hint in POOL:
        for j, d in enumerate(LOAD_DATA):
            out[("load", name, j)] = outcome(r.load, d, hint)
        for j, v in enumerate(DUMP_VALUES):
            out[("dump", name, j)] = outcome(r.dump, v, hint)
    return out


def probe_conv(c):
    out = {}
    src = S1(1, "x")
    for name, s, d in CONV_PAIRS:
        out[("conv", name)] = outcome(lambda s=s, d=d: c.get_converter(s, d)(src))
        for rname, mk in CALL_RECIPES.items():
            out[("conv_recipe", name, rname)] = outcome(lambda s=s, d=d, mk=mk: c.get_converter(s, d, recipe=mk())(src))
            out[("convert_recipe", name, rname)] = outcome(lambda d=d, mk=mk: c.convert(src, d, recipe=mk()))
    return out


_PRISTINE = {}


def build_path(path, conv=False):
    env.reset_process_caches()
    r = ConversionRetort() if conv else Retort()
    for op in path:
        if op[0] == "replace":
            r = r.replace(**{op[1]: DebugTrail[op[2]] if op[1] == "debug_trail" else op[2]})
        elif op[0] == "extend":
            r = r.extend(recipe=[EXT_PROVIDERS[op[1]]()])
        elif op[0] == "conv_extend":
            r = r.extend(recipe=[CONV_EXT[op[1]]()])
    return r


def pristine(path, conv=False):
    """every probe on its own fresh equal retort with cold process caches"""
    key = (path, conv)
    got = _PRISTINE.get(key)
    if got is not None:
        return got
    out = {}
    if conv:
        src = S1(1, "x")
        for name, s, d in CONV_PAIRS:
            c = build_path(path, conv=True)
            out[("conv", name)] = outcome(lambda: c.get_converter(s, d)(src))
            for rname, mk in CALL_RECIPES.items():
                c = build_path(path, conv=True)
                out[("conv_recipe", name, rname)] = outcome(lambda: c.get_converter(s, d, recipe=mk())(src))
                c = build_path(path, conv=True)
                out[("convert_recipe", name, rname)] = outcome(lambda: c.convert(src, d, recipe=mk()))
    else:
        for name, hint in POOL:
            for j, d in enumerate(LOAD_DATA):
                r = build_path(path)
                out[("load", name, j)] = outcome(r.load, d, hint)
            for j, v in enumerate(DUMP_VALUES):
                r = build_path(path)
                out[("dump", name, j)] = outcome(r.dump, v, hint)
    _PRISTINE[key] = out
    if not conv:
        for akey, want in anchors(path).items():
            if out[akey] != want:
                ANCHOR_FAILURES.append((path, akey, out[akey], want))
    return out


ANCHOR_FAILURES = []


def anchors(path):
    """absolute expectations for a few probes, written from the meaning of the operations (extend puts the provider in front,
    replace changes one option): they anchor the differential oracle, which by itself cannot see state shared by ALL retorts
    of the process (a cache hoisted to module or class level answers the fresh reference retort wrongly too)"""
    ext = [op[1] for op in path if op[0] == "extend"]
    lax = any(op[0] == "replace" and op[1] == "strict_coercion" and op[2] is False for op in path)
    plus = "loader(int,+1)" in ext
    out = {
        ("load", "int", LOAD_DATA.index(1)): "ok:" + render(2 if plus else 1),
        ("load", "int", LOAD_DATA.index(0)): "ok:" + render(1 if plus else 0),
        ("load", "List[int]", 5): "ok:" + render([2] if plus else [1]),
        ("dump", "int", DUMP_VALUES.index(1)): "ok:" + render(10 if "dumper(int,*10)" in ext else 1),
        ("load", "M(a:int)", LOAD_DATA.index({"a": 1})):
            ("err:" if "name_mapping(M,a->A)" in ext else "ok:") + ("" if "name_mapping(M,a->A)" in ext else render(M_int(2 if plus else 1))),
    }
    if not plus:
        out[("load", "int", LOAD_DATA.index("a"))] = "err:" + ("ValueLoadError" if lax else "TypeLoadError")
    if "name_mapping(M,a->A)" in ext:
        del out[("load", "M(a:int)", LOAD_DATA.index({"a": 1}))]      # only that it fails; the error class depends on debug_trail
    return out


def run_history(hist, report):
    # pristine references first (they reset the process caches themselves)
    w = World()
    for op in hist:
        w.apply(op)
    state = w.canonical_state()
    handed_out = []
    for idx, name, fn, direction in w.handed:
        items = LOAD_DATA if direction == "load" else DUMP_VALUES
        handed_out.append((idx, name, direction, [outcome(fn, x) for x in items]))
    observed = [(w.paths[i], probe_retort(r)) for i, r in enumerate(w.retorts)]
    observed_conv = [(w.conv_paths[i], probe_conv(c)) for i, c in enumerate(w.conv)]
    paths = list(w.paths)
    del w
    report.count("transitions", len(hist))
    report.count("traces_validated_against_impl", 1)
    report.nontrivial.add(state)   # distinct canonical states are what is counted as distinct
    hist_json = [list(op) for op in hist]
    report.case(None, sample={"history": hist_json, "retorts_in_state": len(paths)})
    n_diff = 0
    for path, probes in observed:
        want = pristine(path)
        for key, got in probes.items():
            report.evaluations += 1
            if got != want[key]:
                n_diff += 1
                _violation(report, hist, path, key, got, want[key], "probe")
    for path, probes in observed_conv:
        want = pristine(path, conv=True)
        for key, got in probes.items():
            report.evaluations += 1
            if got != want[key]:
                n_diff += 1
                _violation(report, hist, path, key, got, want[key], "probe")
    for idx, name, direction, outs in handed_out:
        want = pristine(paths[idx])
        for j, got in enumerate(outs):
            report.evaluations += 1
            if got != want[(direction, name, j)]:
                n_diff += 1
                _violation(report, hist, paths[idx], (direction, name, j), got, want[(direction, name, j)], "handed_out")
    while ANCHOR_FAILURES:
        apath, akey, got, want = ANCHOR_FAILURES.pop()
        n_diff += 1
        report.violation({"check": "C11", "kind": "fresh_retort_answers_wrongly"},
                         f"a FRESH retort built by {[list(o) for o in apath]} (cold caches, after history {hist_json} ran in the process) "
                         f"answers probe {akey} with {got}; the operations mean {want}: state shared between all retorts",
                         {"history": hist_json, "path": [list(o) for o in apath], "probe": list(map(str, akey))})
    report.outcome("history with differences" if n_diff else "history independent")
    report.outcome(f"retorts_in_state={len(paths)}")


def _violation(report, hist, path, key, got, want, what):
    sig = {"check": "C11", "kind": what, "probe": f"{key[0]}:{key[1]}"}
    report.violation(
        sig,
        f"after history {[list(o) for o in hist]} the retort built by {[list(o) for o in path]} answers probe {key} "
        f"with {got[:120]} but a pristine equal retort answers {want[:120]}",
        {"history": [list(op) for op in hist], "path": [list(o) for o in path], "probe": list(key)},
    )


def shard(args):
    first, rest_alphabet, max_len = args
    report = Report()
    for n in range(0, max_len):
        for tail in itertools.product(rest_alphabet, repeat=n):
            run_history((first, *tail), report)
    return report


# ------------------------------------------------------------------------------------------------------------
# location-dependent recipes: a type that can be served only below certain locations (requests for it elsewhere FAIL)

class Opaque:
    """no loader can be generated for it; the recipe supplies one for some locations only"""

    def __eq__(self, other):
        return type(other) is Opaque

    def __repr__(self):
        return "Opaque()"

    __hash__ = None


@dataclass
class LNode:
    left: Optional["LNode"] = None
    right: Optional["LNode"] = None
    tag: Optional[Opaque] = None


@dataclass
class LTree:
    root: LNode


def _located_retort():
    under_tree = (P[LTree].root.tag | (P[LTree].root.left + P[LNode].tag) | (P[LTree].root.right + P[LNode].tag))
    return Retort(recipe=[loader(under_tree, lambda x: Opaque())])


LOCATED_DATA = [{"root": {}}, {"root": {"left": {"right": {"left": {"right": {}}}}}}, {"root": {"tag": 1, "left": {"tag": 2}}},
                {"root": {"left": {"left": {"tag": 1}}}}]
LOCATED_OPS = [("get_loader", "LNode"), ("get_loader", "LTree"), ("load", "LTree", 1), ("load", "LNode", 0), ("get_dumper", "LNode")]
_LOCATED_TYPES = {"LNode": LNode, "LTree": LTree}


def located_leg(report, max_len):
    """all histories of the operations above (some of them fail: LNode on its own cannot be loaded) on one retort, then every
    probe compared with a fresh equal retort: a failed request must leave nothing behind"""
    def probes(r):
        return {(name, i): outcome(r.load, copy.deepcopy(d), tp) for name, tp in _LOCATED_TYPES.items() for i, d in enumerate(LOCATED_DATA)}
    env.reset_process_caches()
    want = {}
    for key in probes(_located_retort()):
        env.reset_process_caches()
        want[key] = probes(_located_retort())[key]
    for n in range(1, max_len + 1):
        for hist in itertools.product(LOCATED_OPS, repeat=n):
            env.reset_process_caches()
            r = _located_retort()
            for op in hist:
                tp = _LOCATED_TYPES[op[1]]
                try:
                    if op[0] == "get_loader":
                        r.get_loader(tp)
                    elif op[0] == "get_dumper":
                        r.get_dumper(tp)
                    else:
                        r.load(copy.deepcopy(LOCATED_DATA[op[2]]), tp)
                except Exception:  # noqa: BLE001, S110
                    pass
            got = probes(r)
            report.count("traces_validated_against_impl", 1)
            report.case(("located", hist), nontrivial=True, sample={"leg": "located", "history": [list(o) for o in hist]})
            for key, g in got.items():
                report.evaluations += 1
                if g != want[key]:
                    report.violation({"check": "C11", "kind": "located_recipe", "after_failed_request": True},
                                     f"recipe with a loader bound to locations below LTree only: after history {[list(o) for o in hist]} "
                                     f"the retort answers probe {key} with {g[:120]} but a fresh equal retort answers {want[key][:120]}",
                                     {"leg": "located", "history": [list(o) for o in hist], "probe": list(map(str, key))})
                    break


@dataclass
class RNodeC:
    value: int
    next: Optional["RNodeC"] = None


@dataclass
class ROuterC:
    node: RNodeC


def _times10(data):
    return data if data is None else {**data, "value": data["value"] * 10}


def chained_located_leg(report, max_len):
    """a CHAINED loader bound to one location of a recursive model (P[ROuterC].node.next): all histories of requests for the inner
    model alone / the outer model, then the probes compared with a fresh equal retort"""
    from adaptix import Chain

    def make():
        env.reset_process_caches()
        return Retort(recipe=[loader(P[ROuterC].node.next, _times10, Chain.FIRST)])
    doc = {"node": {"value": 1, "next": {"value": 2, "next": {"value": 3, "next": None}}}}
    tps = {"RNodeC": RNodeC, "ROuterC": ROuterC}
    data = {"RNodeC": doc["node"], "ROuterC": doc}

    def probes(r):
        return {name: outcome(r.load, copy.deepcopy(data[name]), tp) for name, tp in tps.items()}
    want = {}
    for name in tps:
        want[name] = probes(make())[name]
    ops = [("load", "RNodeC"), ("get_loader", "RNodeC"), ("load", "ROuterC"), ("get_dumper", "RNodeC")]
    for n in range(1, max_len + 1):
        for hist in itertools.product(ops, repeat=n):
            r = make()
            for op in hist:
                try:
                    if op[0] == "load":
                        r.load(copy.deepcopy(data[op[1]]), tps[op[1]])
                    elif op[0] == "get_loader":
                        r.get_loader(tps[op[1]])
                    else:
                        r.get_dumper(tps[op[1]])
                except Exception:  # noqa: BLE001, S110
                    pass
            got = probes(r)
            report.count("traces_validated_against_impl", 1)
            report.case(("chained_located", hist), nontrivial=True, sample={"leg": "chained_located", "history": [list(o) for o in hist]})
            for key, g in got.items():
                report.evaluations += 1
                if g != want[key]:
                    report.violation({"check": "C11", "kind": "chained_located_recursive"},
                                     f"recipe [loader(P[ROuterC].node.next, times10, Chain.FIRST)]: after history {[list(o) for o in hist]} "
                                     f"load(.., {key}) gives {str(g)[:130]} but a fresh equal retort gives {str(want[key])[:130]}",
                                     {"leg": "chained_located", "history": [list(o) for o in hist], "probe": key})
                    break


_CRASH_SRC = """
from dataclasses import dataclass, field
from typing import List, Optional, Dict

@dataclass
class Tail:
    x: int
    later: Optional["Later"] = None      # unresolved until the module defines Later

@dataclass
class CNode:
    v: int
    kids: List["CNode"] = field(default_factory=list)
    by_name: Dict[str, "CNode"] = field(default_factory=dict)
    tail: Optional[Tail] = None

@dataclass
class CTree:
    root: CNode
    forest: List[CNode] = field(default_factory=list)
"""
_CRASH_LATER = """
@dataclass
class Later:
    y: int = 0
"""
CRASH_DATA = {"v": 1, "kids": [{"v": 2, "kids": [{"v": 3, "tail": {"x": 1, "later": {"y": 5}}}], "by_name": {"k": {"v": 4}}}], "tail": {"x": 9}}
CRASH_OPS = [("get_loader", "CNode"), ("get_loader", "List[CNode]"), ("get_loader", "CTree"), ("get_dumper", "CNode"),
             ("get_dumper", "CTree"), ("load", "CTree")]


def crashing_leg(report, max_len):
    """requests that die with an exception that is NOT a refusal (NameError of a forward reference the module does not define yet,
    raised while a model nested below a recursive one is introspected); after the module defines the name, every probe on the same
    retort is compared with a fresh retort: 'never on ... whether a request failed earlier'"""
    import types as _types
    from typing import List as _List

    def world():
        env.reset_process_caches()
        mod = _types.ModuleType("c11_crash_mod")
        sys.modules["c11_crash_mod"] = mod
        exec(_CRASH_SRC, mod.__dict__)  # noqa: S102
        tps = {"CNode": mod.CNode, "List[CNode]": _List[mod.CNode], "CTree": mod.CTree}
        return mod, tps

    def probes(r, tps):
        out = {}
        for name, tp in tps.items():
            d = copy.deepcopy(CRASH_DATA)
            d = [d, d] if name.startswith("List") else ({"root": d, "forest": [copy.deepcopy(d)]} if name == "CTree" else d)
            loaded = outcome(r.load, d, tp)
            out[("load", name)] = loaded
            try:
                obj = r.load(copy.deepcopy(d), tp)
                out[("dump", name)] = outcome(r.dump, obj, tp)
            except Exception as e:  # noqa: BLE001
                out[("dump", name)] = "load failed: " + type(e).__name__
        return out

    mod, tps = world()
    exec(_CRASH_LATER, mod.__dict__)  # noqa: S102
    want = probes(Retort(), tps)
    if not all(str(v).startswith("ok") for k, v in want.items()):
        raise RuntimeError(f"crashing leg: the fresh retort must serve every probe once Later is defined: {want}")
    crashed = 0
    for n in range(1, max_len + 1):
        for hist in itertools.product(CRASH_OPS, repeat=n):
            mod, tps = world()
            r = Retort()
            for op in hist:
                tp = tps[op[1]]
                try:
                    if op[0] == "get_loader":
                        r.get_loader(tp)
                    elif op[0] == "get_dumper":
                        r.get_dumper(tp)
                    else:
                        r.load({"root": copy.deepcopy(CRASH_DATA)}, tp)
                except Exception as e:  # noqa: BLE001
                    crashed += not isinstance(e, ProviderNotFoundError)
            exec(_CRASH_LATER, mod.__dict__)  # noqa: S102
            env.reset_process_caches()     # typing / normalisation caches are process state, not the retort's
            got = probes(r, tps)
            report.count("traces_validated_against_impl", 1)
            report.case(("crashing", hist), nontrivial=True, sample={"leg": "crashing", "history": [list(o) for o in hist]})
            for key, g in got.items():
                report.evaluations += 1
                if g != want[key]:
                    report.violation({"check": "C11", "kind": "crashed_request", "after_failed_request": True},
                                     f"requests {[list(o) for o in hist]} died because the forward reference 'Later' was not defined yet; "
                                     f"after it was defined the same retort answers probe {key} with {str(g)[:140]} but a fresh retort "
                                     f"answers {str(want[key])[:100]}",
                                     {"leg": "crashing", "history": [list(o) for o in hist], "probe": list(map(str, key))})
                    break
    report.count("crashing_requests_that_died_with_a_non_refusal", crashed)
    sys.modules.pop("c11_crash_mod", None)


def constructor_recipe_leg(report):
    """the recipe given to the constructor may be any iterable (a generator, a list the caller reuses afterwards): the retort and
    every clone made later by replace()/extend() must keep exactly the providers it was given"""
    def plus1():
        return loader(int, lambda d: d + 1 if type(d) is int else d)

    def times10():
        return dumper(int, lambda d: d * 10 if type(d) is int else d)
    kinds = {
        "list": lambda ps: (list(ps), None),
        "tuple": lambda ps: (tuple(ps), None),
        "iterator": lambda ps: (iter(ps), None),
        "generator": lambda ps: ((p for p in ps), None),
        "list emptied afterwards": lambda ps: (lst := list(ps), lst.clear)[0:2],
        "list extended afterwards": lambda ps: (lst := list(ps), lambda: lst.insert(0, loader(int, lambda d: -1)))[0:2],
    }
    for rcls, mk_ps, probe, want0 in ((Retort, lambda: [plus1(), times10()], lambda r: (r.load(1, int), r.dump(1, int)), (2, 10)),):
        for kname, mk in kinds.items():
            recipe, afterwards = mk(mk_ps())
            root = rcls(recipe=recipe)
            if afterwards:
                afterwards()
            derived = {
                "the retort itself": lambda: root,
                "replace(strict_coercion=False)": lambda: root.replace(strict_coercion=False),
                "replace().replace()": lambda: root.replace(debug_trail=DebugTrail.FIRST).replace(strict_coercion=False),
                "extend([])": lambda: root.extend(recipe=[]),
                "extend(dumper *10 again)": lambda: root.extend(recipe=iter([times10()])),
                "extend().replace()": lambda: root.extend(recipe=[times10()]).replace(strict_coercion=False),
            }
            for dname, mkd in derived.items():
                case = {"leg": "constructor_recipe", "recipe_kind": kname, "derived": dname}
                report.case(("ctor_recipe", kname, dname), nontrivial=True, sample=case)
                report.evaluations += 1
                want = want0      # a second dumper(int, *10) in front serves alone (no chain): still 10
                try:
                    got = probe(mkd())
                except Exception as e:  # noqa: BLE001
                    got = f"{type(e).__name__}: {str(e)[:80]}"
                if got != want:
                    report.violation({"check": "C11", "kind": "constructor_recipe_not_copied"},
                                     f"Retort(recipe=<{kname}> of [loader(int,+1), dumper(int,*10)]) then {dname}: (load(1), dump(1)) = {got}, "
                                     f"the providers given to the constructor mean {want}", case)


def run(tier):
    report = Report()
    located_leg(report, 2 if tier == "quick" else 3)
    crashing_leg(report, 2 if tier == "quick" else 3)
    chained_located_leg(report, 2 if tier == "quick" else 3)
    constructor_recipe_leg(report)
    ops = operations()
    if tier == "quick":
        # every history of length 1, and every history of length 2 whose first operation touches a shared key class, a
        # clone (replace/extend) or the conversion retort
        first2 = [op for op in ops if op in SHARED_KEY_OPS or op[0] in ("replace", "extend", "filler") or op[0].startswith("conv")]
        shards = [(op, ops, 2) for op in first2] + [(op, ops, 1) for op in ops if op not in first2]
    else:
        shards = [(op, ops, 2) for op in ops]
        shards += [(op, SHARED_KEY_OPS, 3) for op in SHARED_KEY_OPS]
    run_history((), report)
    parallel.run_shards(shard, shards, report=report)
    return report


def SANITY(report, tier):  # noqa: N802
    problems = []
    if len(report.nontrivial) < 200:
        problems.append(f"only {len(report.nontrivial)} distinct cache states reached")
    if report.counters["traces_validated_against_impl"] < 1000:
        problems.append("fewer than 1000 histories")
    return problems


def extra_evidence(report, tier):
    return {
        "states": len(report.nontrivial),
        "transitions": report.counters["transitions"],
        "traces_validated_against_impl": report.counters["traces_validated_against_impl"],
        "operation_alphabet": len(operations()),
        "probe_set_size": len(POOL) * (len(LOAD_DATA) + len(DUMP_VALUES)) + len(CONV_PAIRS),
    }


def replay(case):
    report = Report()
    if case.get("leg") == "constructor_recipe":
        constructor_recipe_leg(report)
        for v in report.violations.values():
            return v["what"]
        return None
    if case.get("leg") == "chained_located":
        chained_located_leg(report, len(case["history"]))
        for v in report.violations.values():
            return v["what"]
        return None
    if case.get("leg") == "crashing":
        crashing_leg(report, len(case["history"]))
        for v in report.violations.values():
            return v["what"]
        return None
    if case.get("leg") == "located":
        located_leg(report, len(case["history"]))
        for v in report.violations.values():
            return v["what"]
        return None
    run_history(tuple(tuple(op) for op in case["history"]), report)
    for v in report.violations.values():
        return v["what"]
    return None
