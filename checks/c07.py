"""C07 — strict_coercion only narrows the accepted inputs.

From the MATRIX outcome vectors, per debug mode: strict-accept => lax-accept with an equal value of the same type, unless
the reference says the laxer rules make union cases overlap on that datum; and strict mode never accepts a datum whose
type is outside the documented allowed strict origins (reference verdict REJECT in strict mode).
"""
from mc import codec, parallel
from mc.matrix import DEBUGS, MODES, blame, kind_of, retort_for, type_shards
from mc.matrix import run as mrun
from mc.ref_types import REJECT, accepts, has_overlap, same
from mc.report import Report
from mc.space import from_json, show, to_hint, to_json, unwrap
from mc.sweep import load_sweep

META = {
    "level": "exploration",
    "rule": (
        "cases = (TypeSpec, datum, debug mode) triples, all enumerated, each executed strict and lax; non-trivial when the "
        "strict loader accepted (the lax outcome and the documented origin table are then compared)"
    ),
    "assumptions": [
        "union overlap under lax rules is computed by the reference (mc/ref_types.has_overlap); such cases only require lax acceptance",
        "an escaping non-LoadError counts as a rejection here",
    ],
    "bound": {"quick": "type depth <= 2", "thorough": "type depth <= 3"},
}


def _strict_accepts_rejected(ts, d, dbg):
    if accepts(ts, d, True) != REJECT:
        return False
    try:
        loader = retort_for((dbg, True)).get_loader(to_hint(ts))
    except Exception:  # noqa: BLE001
        return False
    return mrun(loader, d).ok


def oracle(ctx):
    ts, datum, report = ctx.ts, ctx.datum, ctx.report
    for dbg in DEBUGS:
        s, l = ctx.vec[(dbg, True)], ctx.vec[(dbg, False)]
        key = (ts, datum.name, dbg)
        if not s.ok:
            report.case(key)
            report.outcome("strict-rejects," + ("lax-accepts" if l.ok else "lax-rejects"))
            continue
        report.case(key, nontrivial=True,
                    sample=lambda: {"type": to_json(ts), "datum": datum.name, "debug": dbg, "strict": repr(s), "lax": repr(l)})
        report.outcome("strict-accepts," + ("lax-accepts" if l.ok else "lax-rejects"))
        case = {"type": to_json(ts), "datum": datum.name, "debug": dbg}
        node = unwrap(ts)[0]
        if not l.ok:
            report.violation({"check": "C07.subset", "problem": "lax_rejects_strict_accepted", "node": node,
                              "datum_kind": kind_of(ctx.inputs[(dbg, True)])},
                             f"load {show(ts)} <- {datum.name} [{dbg}]: strict gives {s!r} but lax gives {l!r}", case)
        elif not (same(s.value, l.value) or (hasattr(s.value, "__next__") and type(s.value) is type(l.value))):
            if not has_overlap(ts, datum.fresh(), False):
                report.violation({"check": "C07.subset", "problem": "lax_value_differs", "node": node,
                                  "datum_kind": kind_of(ctx.inputs[(dbg, True)])},
                                 f"load {show(ts)} <- {datum.name} [{dbg}]: strict gives {codec.show(s.value, 60)}, lax gives "
                                 f"{codec.show(l.value, 60)} and no union case overlap explains it", case)
            else:
                report.outcome("value differs, explained by lax union overlap")
        # clause 2: documented allowed strict origins
        if accepts(ts, datum.fresh(), True) == REJECT:
            if datum.one_shot:
                bts, bd = ts, datum.fresh()
            else:
                bts, bd = blame(ts, ctx.inputs[(dbg, True)], lambda t, d: _strict_accepts_rejected(t, d, dbg))
            report.violation({"check": "C07.origins", "problem": "strict_accepts_undocumented_origin",
                              "node": show(bts) if len(bts) <= 2 and not isinstance(bts[-1], tuple) else bts[0],
                              "datum_kind": kind_of(bd)},
                             f"load {show(ts)} <- {datum.name} [{dbg}/strict]: accepted ({s!r}) although the documented strict "
                             f"rules reject it (blamed {show(bts)} <- {codec.show(bd, 50)})", case)


def shard(types):
    report = Report()
    load_sweep(types, oracle, report)
    return report


def run(tier):
    report = Report()
    parallel.run_shards(shard, type_shards(tier, 64 if tier == "quick" else 256), report=report)
    try:
        from checks import c07_models
    except ImportError:
        report.notes.append("model leg not built yet")
    else:
        c07_models.run(tier, report)
    return report


def SANITY(report, tier):  # noqa: N802
    problems = []
    if report.outcomes["strict-rejects,lax-accepts"] < 500:
        problems.append("lax mode hardly ever accepts more than strict")
    if report.outcomes["strict-accepts,lax-accepts"] < 1000:
        problems.append("too few strict accepts")
    return problems


def replay(case):
    from mc.matrix import find_datum
    from mc.sweep import Ctx, loaders_for
    if "type" not in case:
        from checks import c07_models
        return c07_models.replay(case)
    report = Report()
    ts = from_json(case["type"])
    datum = find_datum(ts, case["datum"])
    loaders = loaders_for(ts)
    ctx = Ctx()
    ctx.ts, ctx.datum, ctx.report = ts, datum, report
    ctx.inputs = {mode: datum.fresh() for mode in MODES}
    ctx.vec = {mode: mrun(loaders[mode], ctx.inputs[mode]) for mode in MODES}
    oracle(ctx)
    for v in report.violations.values():
        return v["what"]
    return None
