"""model leg of C01 (see checks/model_legs.py)"""
from checks import model_legs


def run(tier, report):
    return model_legs.run_leg("C01", tier, report)


def replay(case):
    return model_legs.replay_leg("C01", case)
