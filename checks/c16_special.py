"""C16, special families — places where a type variable has to be substituted that the hierarchy generator of checks/c16.py does not
produce: arguments of generic PEP 695 aliases, InitVar[T], a bare variadic-only generic, a generic dataclass that is iterable, a
TypedDict child re-annotating an inherited generic key, a generic pydantic model as a field of a generic dataclass.

Every family is a small enumerated set of class declarations (source text executed in a fresh module); the reference is computed on the
SPECIFICATION: the parametrised hint is rewritten by substituting the declared parameters by name in the source text, which gives a
non-generic TWIN declaration; the oracle is differential: every datum of the family's alphabet must be accepted / rejected by the
generic form exactly like by its twin, and accepted data must give field-wise equal objects.
"""
import itertools
import sys
import types

from adaptix import Retort

from mc import codec, env
from mc.ref_types import same

_PRELUDE = """
from dataclasses import dataclass, field, InitVar
from typing import Any, Dict, Generic, List, Optional, Tuple, TypedDict, TypeVar, TypeVarTuple, Unpack
import pydantic
T = TypeVar("T")
U = TypeVar("U")
Ts = TypeVarTuple("Ts")
"""

_N = [0]


def _module(src):
    _N[0] += 1
    name = f"c16_special_mod_{_N[0]}"
    mod = types.ModuleType(name)
    sys.modules[name] = mod
    exec(_PRELUDE + src, mod.__dict__)  # noqa: S102
    return mod


def _fields(obj):
    if isinstance(obj, dict):
        return {k: _fields(v) for k, v in obj.items()}
    if isinstance(obj, (list, tuple)):
        return type(obj)(_fields(v) for v in obj)
    if hasattr(obj, "model_dump"):
        return {k: _fields(v) for k, v in obj.__dict__.items()}
    if hasattr(obj, "__dict__"):
        return {k: _fields(v) for k, v in vars(obj).items()}
    return obj


def _outcome(fn, *a):
    try:
        return ("ok", _fields(fn(*a)))
    except Exception as e:  # noqa: BLE001
        from adaptix.load_error import LoadError
        return ("rejected",) if isinstance(e, LoadError) else ("error", type(e).__name__)


# ------------------------------------------------------------------------------------------------------------
# families: name -> list of (case name, source, generic hint expression, twin hint expression, data alphabet)

ALIAS_VALUES = ["dict[K, V]", "dict[V, K]", "list[K]", "list[V]", "tuple[V, K]", "tuple[K, V, K]", "dict[K, list[V]]", "dict[V, list[K]]"]
ALIAS_ARGS = [("int", "str"), ("str", "int"), ("int", "int")]
ALIAS_DATA = [{1: "a"}, {"a": 1}, {1: 1}, {1: ["a"]}, {"a": [1]}, {1: [1]}, [1], ["a"], [1, "a"], ["a", 1], [1, 1], [1, "a", 1], ["a", 1, "a"],
              [1, 1, 1], {}, []]


def alias_cases():
    for value in ALIAS_VALUES:
        for a0, a1 in ALIAS_ARGS:
            twin = value.replace("K", "\0").replace("V", a1).replace("\0", a0)
            # directly ...
            yield (f"type M[K, V] = {value}; M[{a0}, {a1}]", f"type M[K, V] = {value}\n", f"M[{a0}, {a1}]", twin, ALIAS_DATA)
            # ... and as the field of a generic model, one argument coming from the model's own parameter
            src = (f"type M[K, V] = {value}\n@dataclass\nclass G(Generic[T]):\n    m: M[T, {a1}]\n"
                   f"@dataclass\nclass E:\n    m: {twin}\n")
            yield (f"type M[K, V] = {value}; G[{a0}] with m: M[T, {a1}]", src, f"G[{a0}]", "E", [{"m": d} for d in ALIAS_DATA])


def initvar_cases():
    for a in ("int", "str", "List[int]"):
        src = ("@dataclass\nclass G(Generic[T]):\n    x: T\n    iv: InitVar[T]\n    def __post_init__(self, iv):\n        self.seen = iv\n"
               f"@dataclass\nclass E:\n    x: {a}\n    iv: InitVar[{a}]\n    def __post_init__(self, iv):\n        self.seen = iv\n")
        vals = {"int": (1, "a"), "str": ("a", 1), "List[int]": ([1], ["a"])}[a]
        data = [{"x": x, "iv": iv} for x in vals for iv in vals] + [{"x": vals[0]}, {}]
        yield (f"dataclass G(Generic[T]) with iv: InitVar[T]; G[{a}]", src, f"G[{a}]", "E", data)


def variadic_only_cases():
    src = ("@dataclass\nclass V(Generic[Unpack[Ts]]):\n    t: Tuple[Unpack[Ts]]\n"
           "@dataclass\nclass E0:\n    t: Tuple[Any, ...]\n@dataclass\nclass E1:\n    t: Tuple[int]\n@dataclass\nclass E2:\n    t: Tuple[int, str]\n")
    data = [{"t": []}, {"t": [1]}, {"t": ["a"]}, {"t": [1, "a"]}, {"t": ["a", 1]}, {"t": [1, "a", 2]}, {"t": 5}, {}]
    yield ("dataclass V(Generic[*Ts]) used bare", src, "V", "E0", data)
    yield ("V[int]", src, "V[int]", "E1", data)
    yield ("V[int, str]", src, "V[int, str]", "E2", data)


def iterable_model_cases():
    for params, ann, twin_ann, args in (("T", "T", "int", "int"), ("T", "List[T]", "List[int]", "int"), ("T, U", "T", "int", "int, str")):
        src = (f"@dataclass\nclass Page(Generic[{params}]):\n    a: {ann}\n    b: {ann}\n    def __iter__(self):\n        return iter((self.a, self.b))\n"
               f"@dataclass\nclass E:\n    a: {twin_ann}\n    b: {twin_ann}\n")
        good, bad = (([1], ["x"]) if ann.startswith("List") else (1, "x"))
        data = [{"a": good, "b": good}, {"a": bad, "b": good}, {"a": good}, [good, good], [], 5]
        yield (f"dataclass Page(Generic[{params}]) defining __iter__; Page[{args}]", src, f"Page[{args}]", "E", data)


def typeddict_override_cases():
    for child_ann, twin_ann in (("List[T]", "List[str]"), ("Dict[str, T]", "Dict[str, str]"), ("Optional[T]", "Optional[str]"), ("T", "str")):
        src = ("class TP(TypedDict, Generic[T]):\n    a: T\n    b: T\n"
               f"class TC(TP[int], Generic[T]):\n    a: {child_ann}\n"
               f"class E(TypedDict):\n    a: {twin_ann}\n    b: int\n")
        cands = [1, "s", [1], ["s"], {"k": 1}, {"k": "s"}, None]
        data = [{"a": a, "b": b} for a in cands for b in (1, "s")]
        yield (f"TypedDict TC(TP[int], Generic[T]) re-annotating a: {child_ann}; TC[str]", src, "TC[str]", "E", data)


def pydantic_field_cases():
    for a in ("int", "str"):
        src = ("class Inner(pydantic.BaseModel, Generic[T]):\n    x: T\n"
               "@dataclass\nclass Outer(Generic[T]):\n    inner: Inner[T]\n    items: List[Inner[T]]\n"
               f"@dataclass\nclass E:\n    inner: Inner[{a}]\n    items: List[Inner[{a}]]\n")
        data = [{"inner": {"x": x}, "items": [{"x": y}]} for x in (1, "s") for y in (1, "s")] + [{"inner": {"x": 1}, "items": []}]
        yield (f"dataclass Outer(Generic[T]) with inner: Inner[T] (generic pydantic model); Outer[{a}]", src, f"Outer[{a}]", "E", data)


def self_type_cases():
    for a, good, bad in (("int", 1, "s"), ("str", "s", 1), ("List[int]", [1], ["s"])):
        src = ("from typing import Self\n"
               "@dataclass\nclass Node(Generic[T]):\n    value: T\n    next: Optional[Self] = None\n    others: List[Self] = field(default_factory=list)\n"
               f"@dataclass\nclass E:\n    value: {a}\n    next: Optional['E'] = None\n    others: List['E'] = field(default_factory=list)\n")
        data = []
        for v0, v1, v2 in itertools.product((good, bad), repeat=3):
            data.append({"value": v0, "next": {"value": v1, "others": [{"value": v2}]}})
            data.append({"value": v0, "others": [{"value": v1, "next": {"value": v2}}]})
        data += [{"value": good}, {"value": bad}, {}]
        yield (f"dataclass Node(Generic[T]) with next: Optional[Self], others: List[Self]; Node[{a}]", src, f"Node[{a}]", "E", data)


FAMILIES = {
    "self_type": self_type_cases,
    "alias_param_order": alias_cases,
    "initvar": initvar_cases,
    "variadic_only": variadic_only_cases,
    "iterable_model": iterable_model_cases,
    "typeddict_override": typeddict_override_cases,
    "pydantic_field": pydantic_field_cases,
}


def run_family(family, report, only_case=None):
    for cname, src, hint_expr, twin_expr, data in FAMILIES[family]():
        if only_case is not None and cname != only_case:
            continue
        env.reset_process_caches()
        case = {"leg": "special", "family": family, "case": cname}
        key = ("special", family, cname)
        try:
            mod = _module(src)
            hint, twin = eval(hint_expr, mod.__dict__), eval(twin_expr, mod.__dict__)  # noqa: S307
        except Exception as e:  # noqa: BLE001
            report.skip(f"the declaration itself is refused by Python / the model library ({type(e).__name__})")
            continue
        report.case(key, nontrivial=True, sample=case)
        loaders = {}
        for which, tp in (("generic", hint), ("twin", twin)):
            try:
                loaders[which] = Retort().get_loader(tp)
            except Exception as e:  # noqa: BLE001
                loaders[which] = e
        if isinstance(loaders["twin"], Exception):
            report.skip("no loader for the non-generic twin either: nothing to compare")
            continue
        if isinstance(loaders["generic"], Exception):
            e = loaders["generic"]
            report.outcome(f"special:{family}:creation_failed")
            report.violation({"check": "C16.special", "family": family, "problem": "creation_failed"},
                             f"{cname}: get_loader raised {type(e).__name__}: {str(getattr(e, '__cause__', None) or e)[:150]}; the "
                             f"non-generic twin {twin_expr} has a loader", case)
            continue
        report.outcome(f"special:{family}:created")
        for d in data:
            report.evaluations += 1
            import copy
            got, want = _outcome(loaders["generic"], copy.deepcopy(d)), _outcome(loaders["twin"], copy.deepcopy(d))
            report.outcome(f"special:{family}:twin_{want[0]}")
            if got[0] != want[0] or (got[0] == "ok" and not same(got[1], want[1])):
                report.violation({"check": "C16.special", "family": family, "problem": "differs_from_substituted_twin"},
                                 f"{cname} <- {codec.show(d, 80)}: {got[0]} {codec.show(got[1], 60) if len(got) > 1 else ''}, but the "
                                 f"substituted declaration {twin_expr} gives {want[0]} {codec.show(want[1], 60) if len(want) > 1 else ''}",
                                 {**case, "datum": codec.enc(d)})
                break
    for name in [n for n in sys.modules if n.startswith("c16_special_mod_")]:
        del sys.modules[name]


def run(report):
    for family in FAMILIES:
        run_family(family, report)
    _ = itertools     # (enumerations above are explicit products)


def replay(case):
    from mc.report import Report
    report = Report()
    run_family(case["family"], report, only_case=case.get("case"))
    for v in report.violations.values():
        return v["what"]
    return None
