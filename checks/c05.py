"""C05 — load errors are localised: trails are exact and, in ALL mode, complete.

Structures of depth <= 3 from a structural sub-grammar (List, Dict, Dict with int keys, Tuple[T1,T2], Optional, models in four
layouts: plain dict, renamed keys, flattened nested path, list) over leaves int/str; one valid datum each (two elements per
container); EVERY non-empty antichain of fault positions up to the tier's size is planted (wrong type, missing required key,
unknown key under ExtraForbid, tuple one too long, bad dict key) and the three debug modes are observed:
  ALL     flattened (trail, error kind) set == planted set; walking each trail from the root reaches the error's input_value;
  FIRST   one error whose full trail is one of the planted positions;
  DISABLE no trail on anything raised.
"""
import copy
import dataclasses
import enum
import itertools
from dataclasses import make_dataclass
from typing import Any, Dict, List, Optional, Tuple

from adaptix import DebugTrail, ExtraForbid, Retort, name_mapping
from adaptix.load_error import (
    AggregateLoadError,
    ExtraFieldsLoadError,
    ExtraItemsLoadError,
    LoadError,
    NoRequiredFieldsLoadError,
    NoRequiredItemsLoadError,
    UnionLoadError,
)
from adaptix.struct_trail import ItemKey, get_trail

from mc import codec, parallel
from mc.ref_types import same
from mc.report import Report

META = {
    "level": "exploration",
    "rule": (
        "cases = (structure, antichain of planted faults, debug mode); all structures of the sub-grammar up to depth 3, all "
        "non-empty antichains of fault positions with <= 3 (thorough <= 4) faults, 3 modes; every case is non-trivial (it has "
        "at least one planted fault); order of reported errors is not compared"
    ),
    "assumptions": [
        "a container-level fault (wrong length) makes the loader give up on that container, so faults below it are not planted with it (antichain rule)",
        "a fault under Optional is one UnionLoadError at the position of the Optional (its inner case errors are not positions)",
        "strict_coercion=True; leaves int/str; name_mapping layouts: identity, rename, nested path, list",
    ],
    "bound": {"quick": "depth <= 3 plus a third of depth 4, antichains of <= 4 faults", "thorough": "depth <= 3 plus depth 4 over list/optional/flat-model middles, antichains of <= 5 faults"},
}

LAYOUTS = ("plain", "renamed", "flat", "aslist", "flatlist", "flat2")
_CLS_CACHE = {}


class Tone(enum.Enum):
    LOW = "lo"
    HIGH = "hi"


def structures(tier):
    leaves = [("int",), ("str",)]
    d2 = []
    for t in leaves:
        d2 += [("List", t), ("Dict", t), ("IDict", t), ("EDict", t), ("Tuple1", t), ("Optional", t)]
    for b in leaves:
        d2.append(("Tuple", ("any",), b))       # an element typed Any in FRONT of a checked one (positions are counted by hand)
        d2.append(("Tuple3", ("any",), b, ("any",)))
    for a in leaves:
        for b in leaves:
            d2.append(("Tuple", a, b))
            for lay in LAYOUTS:
                d2.append(("Model", lay, a, b))
    d3 = []
    inner = d2
    for t in inner:
        d3 += [("List", t), ("Dict", t), ("Optional", t), ("Tuple", t, ("int",)), ("Tuple", ("str",), t)]
        d3 += [("Tuple", ("any",), t), ("Tuple3", ("any",), t, ("any",))]
        if t[0] not in ("EDict", "Tuple1"):
            d3 += [("EDict", t), ("Tuple1", t)]
        for lay in LAYOUTS:
            d3.append(("Model", lay, t, ("int",)))
            d3.append(("Model", lay, ("str",), t))
    d4 = []
    mids = [t for t in d3 if t[0] in ("List", "Optional", "Model") and (t[0] != "Model" or t[1] in ("flat", "aslist"))]
    for t in (mids[::3] if tier == "quick" else mids):
        d4 += [("List", t), ("Dict", t), ("Model", "flat", t, ("int",)), ("Tuple", t, ("str",))]
    return leaves + d2 + d3 + d4


def show(ts):
    if len(ts) == 1:
        return ts[0]
    if ts[0] == "Model":
        return f"Model:{ts[1]}[{show(ts[2])}, {show(ts[3])}]"
    return f"{ts[0]}[{', '.join(show(t) for t in ts[1:])}]"


def to_json(ts):
    return [to_json(t) if isinstance(t, tuple) else t for t in ts]


def from_json(j):
    return tuple(from_json(t) if isinstance(t, list) else t for t in j)


def model_keys(lay):
    """input paths of the two fields f1, f2 for a layout"""
    return {
        "plain": (("f1",), ("f2",)),
        "renamed": (("K one",), ("f2",)),
        "flat": (("n", "x"), ("f2",)),
        "aslist": ((0,), (1,)),
        "flatlist": (("point", 0), ("point", 1)),
        "flat2": (("n", "m", "x"), ("n", "y")),
    }[lay]


def build(ts, recipe):
    """real hint; name_mapping providers for the model classes are appended to recipe"""
    h = ts[0]
    if h == "int":
        return int
    if h == "any":
        return Any
    if h == "Tuple3":
        return Tuple[build(ts[1], recipe), build(ts[2], recipe), build(ts[3], recipe)]
    if h == "str":
        return str
    if h == "List":
        return List[build(ts[1], recipe)]
    if h == "Dict":
        return Dict[str, build(ts[1], recipe)]
    if h == "IDict":
        return Dict[int, build(ts[1], recipe)]
    if h == "EDict":
        return Dict[Tone, build(ts[1], recipe)]
    if h == "Tuple1":
        return Tuple[build(ts[1], recipe)]
    if h == "Optional":
        return Optional[build(ts[1], recipe)]
    if h == "Tuple":
        return Tuple[build(ts[1], recipe), build(ts[2], recipe)]
    if h == "Model":
        key = ts
        cls = _CLS_CACHE.get(key)
        t1, t2 = build(ts[2], recipe), build(ts[3], recipe)
        if cls is None:
            cls = make_dataclass("M", [("f1", t1), ("f2", t2)])
            _CLS_CACHE[key] = cls
        lay = ts[1]
        kw = {"extra_in": ExtraForbid()}
        if lay == "renamed":
            kw["map"] = {"f1": "K one"}
        elif lay == "flat":
            kw["map"] = {"f1": ("n", "x")}
        elif lay == "aslist":
            kw["as_list"] = True
        elif lay == "flatlist":
            kw["map"] = {"f1": ("point", 0), "f2": ("point", 1)}
        elif lay == "flat2":
            kw["map"] = {"f1": ("n", "m", "x"), "f2": ("n", "y")}
        recipe.append(name_mapping(cls, **kw))
        return cls
    raise ValueError(ts)


def valid(ts, salt=0):
    h = ts[0]
    if h == "int":
        return 1 + salt
    if h == "any":
        return {"anything": [salt]}
    if h == "Tuple3":
        return [valid(ts[1], 0), valid(ts[2], 1), valid(ts[3], 2)]
    if h == "str":
        return "s" + str(salt)
    if h == "List":
        return [valid(ts[1], 0), valid(ts[1], 1)]
    if h == "Dict":
        return {"k1": valid(ts[1], 0), "k2": valid(ts[1], 1)}
    if h == "IDict":
        return {1: valid(ts[1], 0), 2: valid(ts[1], 1)}
    if h == "EDict":
        return {"lo": valid(ts[1], 0), "hi": valid(ts[1], 1)}
    if h == "Tuple1":
        return [valid(ts[1], 0)]
    if h == "Optional":
        return valid(ts[1], salt)
    if h == "Tuple":
        return [valid(ts[1], 0), valid(ts[2], 1)]
    if h == "Model":
        p1, p2 = model_keys(ts[1])
        if ts[1] == "aslist":
            return [valid(ts[2], 0), valid(ts[3], 1)]
        if ts[1] == "flatlist":
            return {"point": [valid(ts[2], 0), valid(ts[3], 1)]}
        root = {}
        for p, v in ((p1, valid(ts[2], 0)), (p2, valid(ts[3], 1))):
            node = root
            for k in p[:-1]:
                node = node.setdefault(k, {})
            node[p[-1]] = v
        return root
    raise ValueError(ts)


class Fault:
    """one plantable fault: where (trail of the position), the error it must produce (trail, kind), how to plant it, and
    the container trails it kills (faults below those are not independent)"""
    __slots__ = ("name", "pos", "err_trail", "err_kind", "plant", "kills", "under_optional", "merge_key", "more_errs")

    def __init__(self, name, pos, err_trail, err_kind, plant, kills=None, merge_key=None, more_errs=()):
        self.name, self.pos, self.err_trail, self.err_kind, self.plant = name, pos, err_trail, err_kind, plant
        self.more_errs = tuple(more_errs)   # further (trail, kind) pairs the same plant produces (key AND value of one entry)
        self.kills = kills          # trail prefix below which nothing else may be planted (None: only the position itself)
        self.under_optional = None
        self.merge_key = merge_key  # faults with equal merge_key are reported as ONE error (missing keys of one node)


def _set(root, trail, value):
    node = root
    for k in trail[:-1]:
        node = node[k]
    node[trail[-1]] = value


def _get(root, trail):
    node = root
    for k in trail:
        node = node[k]
    return node


def faults(ts, at=()):  # noqa: C901
    """all plantable faults of the structure whose datum sits at trail `at`"""
    h = ts[0]
    out = []
    if h == "int":
        out.append(Fault("wrong_type", at, at, "type", lambda root, at=at: _set(root, at, "x") if at else "x"))
    elif h == "str":
        out.append(Fault("wrong_type", at, at, "type", lambda root, at=at: _set(root, at, 5) if at else 5))
    elif h == "List":
        for i in (0, 1):
            out += faults(ts[1], (*at, i))
    elif h == "Dict":
        for k in ("k1", "k2"):
            out += faults(ts[1], (*at, k))
    elif h == "IDict":
        for k in (1, 2):
            out += faults(ts[1], (*at, k))

        def plant_key(root, at=at):
            node = _get(root, at) if at else root
            node["bad"] = node.pop(2)
        # the key "bad" is rejected by the int key loader: error at [..., ItemKey("bad")]; the value under it is still loaded
        out.append(Fault("bad_key", (*at, 2), (*at, ItemKey("bad")), "type", plant_key, kills=(*at, 2)))
        # key and value of ONE entry both invalid: two independent leaves, both must be reported (value trail goes through the
        # original key "bad")
        sub = faults(ts[1], (*at, "bad"))
        if sub and sub[0].kills is None and sub[0].merge_key is None:
            first = sub[0]

            def plant_both(root, at=at, first=first):
                node = _get(root, at) if at else root
                node["bad"] = node.pop(2)
                first.plant(root)
            out.append(Fault("bad_key+value", (*at, 2), (*at, ItemKey("bad")), "type", plant_both, kills=(*at, 2),
                             more_errs=[(first.err_trail, first.err_kind)]))
    elif h == "EDict":
        # keys that the key loader TRANSFORMS ("lo" -> Tone.LOW): a trail step is the key of the input, not the loaded key
        for k in ("lo", "hi"):
            out += faults(ts[1], (*at, k))

        def plant_ekey(root, at=at):
            node = _get(root, at) if at else root
            node["bad"] = node.pop("hi")
        out.append(Fault("bad_enum_key", (*at, "hi"), (*at, ItemKey("bad")), "type", plant_ekey, kills=(*at, "hi")))
    elif h == "Tuple1":
        out += faults(ts[1], (*at, 0))

        def plant_long1(root, at=at):
            (_get(root, at) if at else root).append("extra-item")
        out.append(Fault("too_long", at, at, "extra_items", plant_long1, kills=at))

        def plant_short1(root, at=at):
            (_get(root, at) if at else root).pop()
        out.append(Fault("too_short", at, at, "missing_items", plant_short1, kills=at))
    elif h == "Optional":
        sub = faults(ts[1], at)
        for f in sub:
            f.under_optional = f.under_optional if f.under_optional is not None and len(f.under_optional) < len(at) else at
        out += sub
    elif h == "any":
        pass      # nothing can be wrong at a position typed Any
    elif h == "Tuple3":
        for i in (0, 1, 2):
            out += faults(ts[i + 1], (*at, i))

        def plant_long3(root, at=at):
            (_get(root, at) if at else root).append("extra-item")
        out.append(Fault("too_long", at, at, "extra_items", plant_long3, kills=at))

        def plant_short3(root, at=at):
            (_get(root, at) if at else root).pop()
        out.append(Fault("too_short", at, at, "missing_items", plant_short3, kills=at))
    elif h == "Tuple":
        out += faults(ts[1], (*at, 0))
        out += faults(ts[2], (*at, 1))

        def plant_long(root, at=at):
            (_get(root, at) if at else root).append("extra-item")
        out.append(Fault("too_long", at, at, "extra_items", plant_long, kills=at))

        def plant_short(root, at=at):
            (_get(root, at) if at else root).pop()
        out.append(Fault("too_short", at, at, "missing_items", plant_short, kills=at))
    elif h == "Model":
        lay = ts[1]
        p1, p2 = model_keys(lay)
        out += faults(ts[2], (*at, *p1))
        out += faults(ts[3], (*at, *p2))
        if lay == "flatlist":
            def plant_short(root, at=at):
                (_get(root, (*at, "point"))).pop()
            out.append(Fault("nested_list_too_short", (*at, "point", "\0len"), (*at, "point"), "missing_items", plant_short, kills=(*at, "point", 1)))

            def plant_long_n(root, at=at):
                (_get(root, (*at, "point"))).append("extra-item")
            out.append(Fault("nested_list_too_long", (*at, "point", "\0len"), (*at, "point"), "extra_items", plant_long_n))

            def plant_missing_point(root, at=at):
                del (_get(root, at) if at else root)["point"]
            out.append(Fault("missing:point", (*at, "point"), at, "missing", plant_missing_point, kills=(*at, "point"),
                             merge_key=("missing", at)))

            def plant_extra_fl(root, at=at):
                (_get(root, at) if at else root)["unknown"] = 1
            out.append(Fault("extra_key", (*at, "\0extra"), at, "extra_fields", plant_extra_fl))
        elif lay != "aslist":
            for p in (p1, p2):
                node_trail = (*at, *p[:-1])

                def plant_missing(root, node_trail=node_trail, key=p[-1]):
                    del (_get(root, node_trail) if node_trail else root)[key]
                out.append(Fault(f"missing:{p[-1]}", (*at, *p), node_trail, "missing", plant_missing, kills=(*at, *p),
                                 merge_key=("missing", node_trail)))

            def plant_extra(root, at=at):
                (_get(root, at) if at else root)["unknown"] = 1
            out.append(Fault("extra_key", (*at, "\0extra"), at, "extra_fields", plant_extra))
            if lay in ("flat", "flat2"):
                def plant_extra_n(root, at=at):
                    (_get(root, (*at, "n")))["unknown"] = 1
                out.append(Fault("extra_key_nested", (*at, "n", "\0extra"), (*at, "n"), "extra_fields", plant_extra_n))
                # the branch node itself is of the wrong kind (a list where a mapping is expected): one error at the node,
                # everything below it is gone, its siblings and the levels above are still checked
                inner = (*at, "n", "m") if lay == "flat2" else (*at, "n")

                def plant_wrong_kind(root, inner=inner):
                    _set(root, inner, [1, 2])
                out.append(Fault("node_wrong_kind", inner, inner, "type", plant_wrong_kind, kills=inner))
        else:
            def plant_long(root, at=at):
                (_get(root, at) if at else root).append("extra-item")
            out.append(Fault("model_too_long", (*at, "\0len"), at, "extra_items", plant_long))
    return out


def _is_prefix(a, b):
    return len(a) <= len(b) and tuple(b[:len(a)]) == tuple(a)


def independent(fs):
    """antichain rule"""
    for f in fs:
        for g in fs:
            if f is g:
                continue
            if f.kills is not None and _is_prefix(f.kills, g.pos):
                return False
            if f.pos == g.pos:
                return False
    return True


def expected_errors(fs):
    """set of (trail, kind) the ALL mode must report"""
    out = set()
    for f in fs:
        if f.under_optional is not None:
            out.add((tuple(f.under_optional), "union"))
        else:
            out.add((tuple(f.err_trail), f.err_kind))
            for t, k in f.more_errs:
                out.add((tuple(t), k))
    return out


def flatten(exc, prefix=()):
    trail = (*prefix, *get_trail(exc))
    if isinstance(exc, BaseExceptionGroup) and not isinstance(exc, UnionLoadError):
        out = []
        for sub in exc.exceptions:
            out.extend(flatten(sub, trail))
        return out
    return [(exc, trail)]


def kind_of(e):
    if isinstance(e, UnionLoadError):
        return "union"
    if isinstance(e, NoRequiredFieldsLoadError):
        return "missing"
    if isinstance(e, ExtraFieldsLoadError):
        return "extra_fields"
    if isinstance(e, ExtraItemsLoadError):
        return "extra_items"
    if isinstance(e, NoRequiredItemsLoadError):
        return "missing_items"
    return "type"


def walk(root, trail):
    node = root
    for i, step in enumerate(trail):
        if isinstance(step, ItemKey):
            if step.key not in node:
                raise KeyError(step.key)
            return step.key if i == len(trail) - 1 else None
        node = node[step]
    return node


_RETORTS = {}


def loaders(ts):
    recipe = []
    hint = build(ts, recipe)
    out = {}
    for dbg in ("DISABLE", "FIRST", "ALL"):
        out[dbg] = Retort(recipe=recipe, debug_trail=DebugTrail[dbg]).get_loader(hint)
    return out


def check_structure(ts, max_faults, report):  # noqa: C901
    lds = loaders(ts)
    base = valid(ts)
    for dbg, ld in lds.items():
        try:
            ld(copy.deepcopy(base))
        except Exception as e:  # noqa: BLE001
            report.violation({"check": "C05", "problem": "valid_value_rejected"}, f"{show(ts)}: the valid datum {base!r} is rejected: {e!r}"[:300],
                             {"structure": to_json(ts), "faults": []})
            return
    fs_all = faults(ts)
    for k in range(1, max_faults + 1):
        for fs in itertools.combinations(range(len(fs_all)), k):
            chosen = [fs_all[i] for i in fs]
            if not independent(chosen):
                report.skip("fault set is not an antichain")
                continue
            datum = copy.deepcopy(base)
            top = None
            for f in chosen:
                r = f.plant(datum)
                if f.pos == () and f.name == "wrong_type":
                    top = r
            if top is not None:
                datum = top
            want = expected_errors(chosen)
            names = [f"{f.name}@{list(map(str, f.pos))}" for f in chosen]
            case = {"structure": to_json(ts), "faults": list(fs)}
            for dbg, ld in lds.items():
                report.case((ts, fs, dbg), nontrivial=True,
                            sample=lambda: {**case, "planted": names, "datum": codec.enc(datum), "mode": dbg})
                inp = copy.deepcopy(datum)
                try:
                    ld(inp)
                except LoadError as e:
                    exc = e
                except Exception as e:  # noqa: BLE001
                    report.violation({"check": "C05", "problem": "non_LoadError", "exc": type(e).__name__},
                                     f"{show(ts)} planted {names} [{dbg}]: {type(e).__name__}: {e}"[:300], {**case, "mode": dbg})
                    continue
                else:
                    report.outcome("accepted")
                    report.violation({"check": "C05", "problem": "faulty_input_accepted", "fault": chosen[0].name},
                                     f"{show(ts)} planted {names} [{dbg}]: accepted {codec.show(datum, 100)}", {**case, "mode": dbg})
                    continue
                report.outcome(f"rejected:{dbg}")

                def viol(problem, text, dbg=dbg):
                    report.violation({"check": "C05", "problem": problem, "mode": dbg, "fault_kinds": sorted({f.err_kind for f in chosen})},
                                     f"{show(ts)} <- {codec.show(datum, 90)} planted {names} [{dbg}]: {text}", {**case, "mode": dbg})

                if dbg == "ALL":
                    flat = flatten(exc)
                    got = {(tuple(t), kind_of(e)) for e, t in flat}
                    if got != want or len(flat) != len(want):
                        viol("wrong_error_positions", f"reported {sorted(map(str, got))} ({len(flat)} errors) but planted {sorted(map(str, want))}")
                        continue
                    for e, t in flat:
                        if hasattr(e, "input_value"):
                            try:
                                reached = walk(datum, t)
                            except Exception as we:  # noqa: BLE001
                                viol("trail_does_not_walk", f"trail {list(t)} cannot be followed: {we!r}")
                                continue
                            if not same(reached, e.input_value) and not (isinstance(reached, list) and list(e.input_value) == reached):
                                viol("trail_reaches_other_value", f"trail {list(t)} reaches {reached!r} but input_value is {e.input_value!r}")
                        if isinstance(e, NoRequiredFieldsLoadError):
                            miss = {f.name.split(":", 1)[1] for f in chosen if f.err_kind == "missing" and tuple(f.err_trail) == tuple(t)
                                    and f.under_optional is None}
                            if set(e.fields) != miss:
                                viol("wrong_missing_keys", f"missing keys reported {set(e.fields)} planted {miss}")
                elif dbg == "FIRST":
                    t = tuple(get_trail(exc))
                    if isinstance(exc, AggregateLoadError):
                        viol("first_mode_reports_a_group", f"FIRST raised a group {exc!r}")
                    elif (t, kind_of(exc)) not in want:
                        viol("first_error_not_planted", f"FIRST reported ({list(t)}, {kind_of(exc)}) which is not among {sorted(map(str, want))}")
                    elif hasattr(exc, "input_value"):
                        try:
                            reached = walk(datum, t)
                        except Exception as we:  # noqa: BLE001
                            viol("trail_does_not_walk", f"FIRST trail {list(t)} cannot be followed: {we!r}")
                        else:
                            if not same(reached, exc.input_value) and not (isinstance(reached, list) and list(exc.input_value) == reached):
                                viol("trail_reaches_other_value", f"FIRST trail {list(t)} reaches {reached!r} but input_value is {exc.input_value!r}")
                else:
                    for e, t in flatten(exc):
                        if t:
                            viol("trail_under_DISABLE", f"trail {list(t)} attached under DISABLE")


def shard(args):
    structs, max_faults = args
    report = Report()
    for ts in structs:
        check_structure(ts, max_faults, report)
    report.count("structures", len(structs))
    return report


@dataclasses.dataclass
class RNode:
    v: int
    kids: List["RNode"]


def recursive_leg(report, max_faults):
    """a recursive type: the loaders of all levels are ONE object called re-entrantly, so per-call state (the list of collected
    errors) must not live in the closure.  Every non-empty set of <= max_faults corrupted leaves of a three-level tree."""
    def tree():
        return {"v": 1, "kids": [{"v": 2, "kids": [{"v": 3, "kids": []}, {"v": 4, "kids": []}]}, {"v": 5, "kids": []},
                                 {"v": 6, "kids": [{"v": 7, "kids": []}]}]}
    leaves = [("v",), ("kids", 0, "v"), ("kids", 0, "kids", 0, "v"), ("kids", 0, "kids", 1, "v"), ("kids", 1, "v"), ("kids", 2, "v"),
              ("kids", 2, "kids", 0, "v")]
    loaders = {dbg: Retort(debug_trail=DebugTrail[dbg]).get_loader(RNode) for dbg in ("ALL", "FIRST", "DISABLE")}
    from mc.modsweep import flatten_errors
    for n in range(1, max_faults + 1):
        for bad in itertools.combinations(leaves, n):
            data = tree()
            for path in bad:
                node = data
                for k in path[:-1]:
                    node = node[k]
                node[path[-1]] = "not an int"
            case = {"leg": "recursive", "faults": [list(p) for p in bad]}
            report.case(("recursive", bad), nontrivial=True, sample=case)
            for dbg, ld in loaders.items():
                report.evaluations += 1
                try:
                    ld(copy.deepcopy(data))
                    got = None
                except Exception as e:  # noqa: BLE001
                    got = sorted(tuple(t) for leaf, t in flatten_errors(e))
                    report.outcome(f"rejected:{dbg}")
                want = sorted(bad)
                ok = (got == want if dbg == "ALL" else got is not None and len(got) == 1 and (got[0] in want if dbg == "FIRST" else got[0] == ()))
                if not ok:
                    report.violation({"check": "C05.recursive", "debug": dbg},
                                     f"RNode tree with the leaves {want} corrupted [{dbg}]: reported trails {got}", case)


def run(tier):
    report = Report()
    recursive_leg(report, 3 if tier == "quick" else 5)
    structs = structures(tier)
    k = 4 if tier == "quick" else 5
    n = 128 if tier == "quick" else 512
    parallel.run_shards(shard, [(structs[i::n], k) for i in range(n) if structs[i::n]], report=report)
    return report


def SANITY(report, tier):  # noqa: N802
    problems = []
    for d in ("ALL", "FIRST", "DISABLE"):
        if report.outcomes[f"rejected:{d}"] < 1000:
            problems.append(f"fewer than 1000 rejections under {d}")
    return problems


def extra_evidence(report, tier):
    return {"structures": report.counters["structures"]}


def replay(case):
    report = Report()
    if case.get("leg") == "recursive":
        recursive_leg(report, max(1, len(case["faults"])))
        for v in report.violations.values():
            return v["what"]
        return None
    ts = from_json(case["structure"])
    check_structure(ts, max(1, len(case["faults"])), report)
    for v in report.violations.values():
        if v["case"].get("faults") == case["faults"] or not case["faults"]:
            return v["what"]
    return None
