"""C14 - implicit coercion is type-sound; unlinkable or uncoercible fields are refused.

Exhaustive over ordered pairs (s, d) of a 36-type pool: `s` is the type of the single field `f` of a source dataclass,
`d` the type of field `f` of a destination dataclass (bare, and again under List[.] / Optional[.] / Dict[str, .] / a
nested model / two-level wrappers) x {destination field required, with default} x link policies.  The real
`adaptix.conversion.get_converter(Src, Dst)` must succeed IFF the reference relation `mc.ref_conv.coercible` (the
tutorial's list, coded independently on TypeSpecs) holds; a produced converter is run on the value alphabet of `s`
and every value placed in the destination is checked with the independent runtime checker `conforms(value, d)`.
A second part removes the same-named source field: creation must fail with ProviderNotFoundError unless the
destination field has a default and an allow_unlinked_optional policy selects it.
"""
import collections
import copy
import dataclasses
import linecache
import typing
from collections import Counter, OrderedDict, defaultdict
from dataclasses import dataclass, field, make_dataclass
from typing import Generic, NewType, TypeVar

from adaptix import P, ProviderNotFoundError
from adaptix.conversion import allow_unlinked_optional, forbid_unlinked_optional, get_converter

from mc import parallel
from mc import ref_conv as R
from mc.codec import show as vshow
from mc.ref_conv import ANY, BOOL, FLOAT, INT, NO, NONE, OBJECT, STR, UNSPEC, YES, Env, FieldSpec, ModelSpec, opt, union
from mc.report import Report

META = {
    "level": "exploration",
    "rule": (
        "cases = (source field type, destination field type, wrapper pair, variant) all enumerated: every ORDERED pair of "
        "the 36-type pool under every wrapper pair of the tier x {required, default} x policy recipes, plus the "
        "missing-link part (36 destination types x 2 source shapes x 2 x 8 policy recipes); a case is non-trivial when the "
        "reference relation gives a definite verdict (coercible / not coercible); UNSPEC pairs (tutorial silent: wrapper "
        "transparency, deque / dict subclasses / constant-length tuples as 'builtin' containers, Literal member -> its class, "
        "Any as a source of object) are counted as skipped for the accept/refuse comparison but their converters, when "
        "produced, are still run and the placed values checked with conforms()"
    ),
    "assumptions": [
        "mc/ref_conv.py transcribes the 'Type coercion' and 'Linking algorithm' sections of docs/conversion/tutorial.rst and "
        "'Using default value for fields' of extended-usage.rst; the closing clause ('in every other case creation fails') "
        "is taken from the property statement",
        "a value alphabet of 1-3 values per source type (every union case, None and non-None) - soundness at run time is "
        "only observed on these values",
        "small scope: types outside the pool and nesting beyond the tier's wrappers are not explored",
    ],
    "bound": {
        "quick": "36x36 ordered pairs x the 9 wrapper pairs of {bare, List[.], Optional[.]}^2 x 3 variants (+4 policy variants "
                 "where the destination mentions the model with an optional field) + missing-link part",
        "thorough": "36x36 ordered pairs x the 64 wrapper pairs of {bare, List[.], Optional[.], Dict[str,.], nested model, "
                    "List[List[.]], List[Optional[.]], Optional[List[.]]}^2 x the same variants + missing-link part",
    },
}

# ------------------------------------------------------------------------------------------------------------
# the models of the pool (real classes + their specs)


@dataclass
class M:
    a: int
    b: str


@dataclass
class M2:
    a: int
    b: str


@dataclass
class Sub(M):
    c: int = 0


T = TypeVar("T")


@dataclass
class G(Generic[T]):
    a: T


UserId = NewType("UserId", int)

BASE_UNIVERSE = {
    "M": ModelSpec("M", (FieldSpec("a", INT), FieldSpec("b", STR))),
    "M2": ModelSpec("M2", (FieldSpec("a", INT), FieldSpec("b", STR))),
    "Sub": ModelSpec("Sub", (FieldSpec("a", INT), FieldSpec("b", STR), FieldSpec("c", INT, 0)), bases=("M",)),
    "G": ModelSpec("G", (FieldSpec("a", ("T",)),), generic=True),
}
BASE_CLASSES = {"M": M, "M2": M2, "Sub": Sub, "G": G, "UserId": UserId}

tM, tM2, tSub = ("Model", "M"), ("Model", "M2"), ("Model", "Sub")
L = lambda t: ("List", t)  # noqa: E731

POOL = [
    INT, BOOL, STR, FLOAT,
    L(INT), L(STR), L(BOOL), ("Set", INT), ("FrozenSet", INT), ("TupleVar", INT), ("Tuple", INT, STR),
    ("Dict", STR, INT), ("Dict", STR, STR), ("Dict", STR, BOOL),
    opt(INT), opt(STR), opt(L(INT)), opt(L(STR)),
    union(INT, STR), union(INT, STR, NONE), union(L(STR), INT), union(L(INT), INT),
    ANY, OBJECT, tM, tM2, tSub, ("GModel", "G", INT), ("GModel", "G", STR),
    ("NewType", "UserId", INT), ("Literal", 1), ("Annotated", INT, "x"),
    ("DefaultDict", STR, INT), ("OrderedDict", STR, INT), ("Counter", STR), ("Deque", INT),
    # abstract spellings: their values are deliberately NOT of the concrete class a destination needs
    ("Mapping", STR, INT), ("MutableMapping", STR, INT), ("Sequence", INT), ("Iterable", INT),
    ("Tuple",),         # the empty tuple type Tuple[()]
]
# simplest first
POOL_INDEX = {ts: i for i, ts in enumerate(POOL)}


class ROMap(collections.abc.Mapping):
    """a Mapping that is not a dict (what a field annotated Mapping[...] may legitimately hold)"""

    def __init__(self, d):
        self._d = dict(d)

    def __getitem__(self, k):
        return self._d[k]

    def __iter__(self):
        return iter(self._d)

    def __len__(self):
        return len(self._d)

    def __repr__(self):
        return f"ROMap({self._d!r})"


def values_of(ts):  # noqa: C901, PLR0911, PLR0912
    """value alphabet of a type: every union case, None and non-None, non-empty containers first"""
    head = ts[0]
    if head == "int":
        return [7, 0]
    if head == "bool":
        return [True, False]
    if head == "str":
        return ["x", ""]
    if head == "float":
        return [1.5, 0.0]
    if head == "None":
        return [None]
    if head in ("Any", "object"):
        return [7, "x"]
    if head in ("Sequence", "Iterable"):
        return [tuple(values_of(ts[1])), ()]
    if head == "Mapping":
        return [ROMap({k: v for k, v in zip(values_of(ts[1]), values_of(ts[2]))}), ROMap({})]
    if head == "MutableMapping":
        return [collections.UserDict({k: v for k, v in zip(values_of(ts[1]), values_of(ts[2]))}), collections.UserDict()]
    if head in R.ITER_IMPL:
        inner = values_of(ts[1])
        if head in ("Set", "FrozenSet"):
            try:
                return [R.ITER_IMPL[head](inner), R.ITER_IMPL[head]()]
            except TypeError:
                return [R.ITER_IMPL[head]()]
        return [R.ITER_IMPL[head](inner), R.ITER_IMPL[head]()]
    if head == "Tuple":
        return [tuple(values_of(t)[0] for t in ts[1:])]
    if head == "Dict":
        return [{k: v for k, v in zip(values_of(ts[1]), values_of(ts[2]))}, {}]
    if head == "DefaultDict":
        return [defaultdict(int, {"k": 7}), defaultdict(int)]
    if head == "OrderedDict":
        return [OrderedDict({"k": 7}), OrderedDict()]
    if head == "Counter":
        return [Counter("xxy"), Counter()]
    if head == "Union":
        # every value of every case: the falsy ones (0, '', empty containers) matter next to None
        out = []
        for c in ts[1:]:
            out.extend(values_of(c))
        return out
    if head == "Model":
        name = ts[1]
        if name in ("M", "M2"):
            return [BASE_CLASSES[name](7, "x")]
        if name == "Sub":
            return [Sub(7, "x", 3)]
        spec = _DYN_SPECS[name]
        return [_DYN_CLASSES[name](*[values_of(f.type)[0] for f in spec.fields])]
    if head == "GModel":
        return [G(values_of(ts[2])[0])]
    if head == "NewType":
        return [UserId(v) for v in values_of(ts[2])[:1]]
    if head == "Literal":
        return [ts[1]]
    if head == "Annotated":
        return values_of(ts[1])
    raise ValueError(ts)


# ------------------------------------------------------------------------------------------------------------
# wrappers

_DYN_SPECS = {}
_DYN_CLASSES = {}


def _classes():
    return {**BASE_CLASSES, **_DYN_CLASSES}


def _universe():
    return {**BASE_UNIVERSE, **_DYN_SPECS}


def _model(name, fields):
    """fields: (name, TypeSpec, default|NO_DEFAULT); cached by name"""
    if name not in _DYN_CLASSES:
        spec = ModelSpec(name, tuple(FieldSpec(n, ts, dflt) for n, ts, dflt in fields))
        dc_fields = []
        for n, ts, dflt in fields:
            hint = R.to_hint(ts, _classes())
            if dflt is R.NO_DEFAULT:
                dc_fields.append((n, hint))
            else:
                dc_fields.append((n, hint, field(default_factory=lambda dflt=dflt: copy.deepcopy(dflt))))
        _DYN_SPECS[name] = spec
        _DYN_CLASSES[name] = make_dataclass(name, dc_fields)
    return ("Model", name)


def _tname(ts):
    return "".join(ch if ch.isalnum() else "_" for ch in R.show(ts))


def wrap(w, ts, side):
    if w == "bare":
        return ts
    if w == "List":
        return ("List", ts)
    if w == "Optional":
        return opt(ts)
    if w == "Dict":
        return ("Dict", STR, ts)
    if w == "ListList":
        return ("List", ("List", ts))
    if w == "ListOptional":
        return ("List", opt(ts))
    if w == "OptionalList":
        return opt(("List", ts))
    if w == "Model":
        # a nested model with one field `v`; distinct classes on the two sides
        return _model(f"Wrap{side}_{_tname(ts)}", [("v", ts, R.NO_DEFAULT)])
    raise ValueError(w)


_W1 = ["bare", "List", "Optional"]
_W2 = [*_W1, "Dict", "Model", "ListList", "ListOptional", "OptionalList"]
WRAPS_QUICK = [(a, b) for a in _W1 for b in _W1]
WRAPS_THOROUGH = WRAPS_QUICK + [(a, b) for a in _W2 for b in _W2 if (a, b) not in WRAPS_QUICK]

# ------------------------------------------------------------------------------------------------------------
# variants: (name, destination field has default, reference recipe)

VARIANTS_ALL = [
    ("req", False, ()),
    ("def", True, ()),
    ("def+allow", True, (("allow", None),)),
]
# relevant only when the destination mentions a model with an optional field (Sub.c)
SUB_C = ("field", "Sub", "c")
VARIANTS_SUB = [
    ("req+allow", False, (("allow", None),)),
    ("req+allow(Sub.c)", False, (("allow", SUB_C),)),
    ("req+forbid(Sub.c),allow", False, (("forbid", SUB_C), ("allow", None))),
    ("req+allow,forbid(Sub.c)", False, (("allow", None), ("forbid", SUB_C))),
]
VARIANTS = {v[0]: v for v in VARIANTS_ALL + VARIANTS_SUB}

DST_F = ("field", "Dst", "f")
MISSING_RECIPES = [
    ("none", ()),
    ("allow", (("allow", None),)),
    ("allow(Dst.f)", (("allow", DST_F),)),
    ("allow(Src.f)", (("allow", ("field", "Src", "f")),)),
    ("forbid(Dst.f),allow", (("forbid", DST_F), ("allow", None))),
    ("allow,forbid(Dst.f)", (("allow", None), ("forbid", DST_F))),
    ("forbid,allow", (("forbid", None), ("allow", None))),
    ("allow,forbid", (("allow", None), ("forbid", None))),
]


def mentions_sub(ts):
    if ts == tSub:
        return True
    if ts[0] == "Model" and ts[1] in _DYN_SPECS:
        return any(mentions_sub(f.type) for f in _DYN_SPECS[ts[1]].fields)
    return any(isinstance(x, tuple) and x and isinstance(x[0], str) and mentions_sub(x) for x in ts[1:])


def real_recipe(recipe, classes):
    out = []
    for kind, scope in recipe:
        fn = allow_unlinked_optional if kind == "allow" else forbid_unlinked_optional
        if scope is None:
            out.append(fn())
        else:
            out.append(fn(getattr(P[classes[scope[1]]], scope[2])))
    return out


# ------------------------------------------------------------------------------------------------------------
# one case

_SRC_CACHE = {}
_DST_CACHE = {}


def src_class(ts, fname="f"):
    key = (ts, fname)
    if key not in _SRC_CACHE:
        fields = [] if fname is None else [(fname, R.to_hint(ts, _classes()))]
        _SRC_CACHE[key] = make_dataclass("Src", fields)
    return _SRC_CACHE[key]


def dst_class(ts, has_default):
    key = (ts, has_default)
    if key not in _DST_CACHE:
        hint = R.to_hint(ts, _classes())
        if has_default:
            dflt = values_of(ts)[0]
            _DST_CACHE[key] = make_dataclass("Dst", [("f", hint, field(default_factory=lambda: copy.deepcopy(dflt)))])
        else:
            _DST_CACHE[key] = make_dataclass("Dst", [("f", hint)])
    return _DST_CACHE[key]


def create(src_cls, dst_cls, recipe):
    """-> ('ok', converter) | ('refused', text) | ('error', ExcClassName, text)"""
    try:
        return ("ok", get_converter(src_cls, dst_cls, recipe=recipe))
    except ProviderNotFoundError as e:
        return ("refused", str(e)[:200])
    except Exception as e:  # noqa: BLE001
        return ("error", type(e).__name__, str(e)[:200])


def _origin(ts):
    """the generic a parametrized spec is built from (None for everything that is not parametrized)"""
    if ts[0] in ("Tuple", "TupleVar"):
        return "tuple"
    if ts[0] in R.ITER_IMPL or ts[0] in R.DICT_IMPL:
        return ts[0]
    if ts[0] == "GModel":
        return ("GModel", ts[1])
    return None


def pair_kind(s, d):
    """names the coercion situation of a pair (reference-side classification only): one root cause, one name"""
    if d[0] == "Union" and s[0] != "Union" and _origin(s) is not None:
        if not any(R.same(c, s) for c in d[1:]) and any(_origin(c) == _origin(s) for c in d[1:]):
            return "parametrized source -> union holding the same generic with other arguments"
    if R.is_optional(s) and R.is_optional(d) and max(len(s), len(d)) > 3:  # noqa: PLR2004
        return "Optional -> Optional where a side has several non-None cases"
    return f"{R.kind_of(s)}->{R.kind_of(d)}"


def blame_chain(s, d):
    """the pair itself followed by the pairs found by descending through plain element-wise structure present on both
    sides (List/List, Dict/Dict with equal keys, wrapper model/wrapper model, Optional/Optional); used to give one
    root cause one signature whatever it is nested in"""
    chain = [(s, d)]
    while True:
        if s[0] == "List" and d[0] == "List":
            s, d = s[1], d[1]
        elif s[0] == "Dict" and d[0] == "Dict" and s[1] == d[1]:
            s, d = s[2], d[2]
        elif s[0] == "Model" and d[0] == "Model" and s[1].startswith("WrapS_") and d[1].startswith("WrapD_"):
            s, d = _DYN_SPECS[s[1]].fields[0].type, _DYN_SPECS[d[1]].fields[0].type
        elif R.is_optional(s) and R.is_optional(d):
            s, d = R.not_none(s), R.not_none(d)
        else:
            return chain
        chain.append((s, d))


def bare_problem(s, d, has_default, recipe_ref):
    """does the (blamed) pair misbehave on its own, directly as field types?  used to attribute nested manifestations"""
    universe = dict(_universe())
    universe["Src"] = ModelSpec("Src", (FieldSpec("f", s),))
    universe["Dst"] = ModelSpec("Dst", (FieldSpec("f", d, values_of(d)[0] if has_default else R.NO_DEFAULT),))
    classes = dict(_classes())
    classes["Src"], classes["Dst"] = src_class(s), dst_class(d, has_default)
    env = Env(universe, recipe_ref, classes=classes)
    ref = R.converter(env, ("Model", "Src"), ("Model", "Dst"))
    out = create(classes["Src"], classes["Dst"], real_recipe(recipe_ref, classes))
    if ref.verdict == NO and out[0] == "ok":
        return "accepts_uncoercible"
    if ref.verdict == YES and out[0] != "ok":
        return "refuses_coercible"
    return None


def eval_pair(s, d, variant, report, ws="bare", wd="bare"):
    vname, has_default, recipe_ref = VARIANTS[variant]
    universe = dict(_universe())
    universe["Src"] = ModelSpec("Src", (FieldSpec("f", s),))
    universe["Dst"] = ModelSpec("Dst", (FieldSpec("f", d, values_of(d)[0] if has_default else R.NO_DEFAULT),))
    classes = dict(_classes())
    classes["Src"], classes["Dst"] = src_class(s), dst_class(d, has_default)
    env = Env(universe, recipe_ref, classes=classes)
    ref = R.converter(env, ("Model", "Src"), ("Model", "Dst"))
    out = create(classes["Src"], classes["Dst"], real_recipe(recipe_ref, classes))

    case = {"part": "pair", "s": R.to_json(s), "d": R.to_json(d), "variant": vname}
    key = ("pair", s, d, vname)
    text = f"Src.f: {R.show(s)} -> Dst.f: {R.show(d)} [{vname}]"
    definite = ref.verdict != UNSPEC
    report.case(key, nontrivial=definite,
                sample=lambda: {**case, "reference": ref.verdict, "rule": ref.rule, "impl": out[0]})
    if definite:
        report.outcome(f"ref={ref.verdict},impl={out[0]}")
    else:
        report.skip(f"UNSPEC: {ref.rule}")
        report.outcome(f"ref=unspec,impl={out[0]}")

    chain = blame_chain(s, d)
    bs, bd = chain[-1]

    def sig_for(problem):
        """signature of the innermost position that shows the same problem on its own"""
        for xs, xd in reversed(chain[1:]):
            if bare_problem(xs, xd, has_default, recipe_ref) == problem:
                return {"check": "C14", "problem": problem, "coercer": pair_kind(xs, xd)}, (xs, xd)
        return {"check": "C14", "problem": problem, "coercer": pair_kind(s, d)}, (s, d)

    if out[0] == "error":
        report.violation({"check": "C14", "problem": "wrong_error_class", "exc": out[1], "coercer": pair_kind(bs, bd)},
                         f"{text}: creation raised {out[1]}: {out[2]} (ProviderNotFoundError expected if refused)", case)
        return
    if ref.verdict == NO and out[0] == "ok":
        sig, (xs, xd) = sig_for("accepts_uncoercible")
        report.violation(sig, f"{text}: get_converter succeeded although {R.show(xs)} is not coercible to {R.show(xd)} "
                              f"by any rule of the tutorial", case)
    elif ref.verdict == YES and out[0] != "ok":
        sig, (xs, xd) = sig_for("refuses_coercible")
        rule = R.coercible(env, xs, xd).rule
        report.violation(sig, f"{text}: get_converter refused although {R.show(xs)} is coercible to {R.show(xd)} by rule "
                              f"'{rule}': {out[1][:100]}", case)
    if out[0] != "ok":
        return
    conv = out[1]
    for v in values_of(s):
        src_obj = classes["Src"](copy.deepcopy(v))
        report.evaluations += 1
        try:
            res = conv(src_obj)
        except Exception as e:  # noqa: BLE001
            report.outcome("run=exception")
            if ref.verdict == YES:
                report.violation({"check": "C14", "problem": "runtime_error", "exc": type(e).__name__,
                                  "coercer": pair_kind(s, d)},
                                 f"{text}: converter raised {type(e).__name__}: {e} on f={vshow(v)}", {**case, "value": vshow(v)})
            continue
        placed = getattr(res, "f", R.NO_DEFAULT)
        if type(res) is classes["Dst"] and placed is not R.NO_DEFAULT and R.conforms(env, placed, d):
            report.outcome("run=conforms")
            continue
        report.outcome("run=does_not_conform")
        kind = sig_for("accepts_uncoercible")[0]["coercer"] if ref.verdict == NO else pair_kind(s, d)
        report.violation({"check": "C14", "problem": "wrong_runtime_type", "coercer": kind},
                         f"{text}: source f={vshow(v)} placed {vshow(placed)} into a field of type {R.show(d)}",
                         {**case, "value": vshow(v)})


def eval_missing(d, shape, has_default, rname, report):
    recipe_ref = dict(MISSING_RECIPES)[rname]
    src_fields = () if shape == "empty" else (FieldSpec("g", d),)
    universe = dict(_universe())
    universe["Src"] = ModelSpec("Src", src_fields)
    universe["Dst"] = ModelSpec("Dst", (FieldSpec("f", d, values_of(d)[0] if has_default else R.NO_DEFAULT),))
    classes = dict(_classes())
    classes["Src"] = src_class(d, None if shape == "empty" else "g")
    classes["Dst"] = dst_class(d, has_default)
    env = Env(universe, recipe_ref, classes=classes)
    ref = R.converter(env, ("Model", "Src"), ("Model", "Dst"))
    out = create(classes["Src"], classes["Dst"], real_recipe(recipe_ref, classes))
    case = {"part": "missing", "d": R.to_json(d), "shape": shape, "default": has_default, "recipe": rname}
    text = (f"Src({'' if shape == 'empty' else 'g: ' + R.show(d)}) -> Dst(f: {R.show(d)}"
            f"{' = <default>' if has_default else ''}) recipe [{rname}]")
    report.case(("missing", d, shape, has_default, rname), nontrivial=True,
                sample=lambda: {**case, "reference": ref.verdict, "impl": out[0]})
    report.outcome(f"missing: ref={ref.verdict},impl={out[0]}")
    kind = "unlinked " + ("optional" if has_default else "required") + " field"
    if out[0] == "error":
        report.violation({"check": "C14", "problem": "wrong_error_class", "exc": out[1], "coercer": kind},
                         f"{text}: creation raised {out[1]}: {out[2]}", case)
        return
    if ref.verdict == NO and out[0] == "ok":
        report.violation({"check": "C14", "problem": "missing_link_accepted", "coercer": kind},
                         f"{text}: get_converter succeeded although the destination field has no linked source and the "
                         f"policy in force forbids skipping it", case)
    elif ref.verdict == YES and out[0] != "ok":
        report.violation({"check": "C14", "problem": "refuses_coercible", "coercer": kind + " allowed by policy"},
                         f"{text}: refused although allow_unlinked_optional selects the field: {out[1][:120]}", case)
    if out[0] == "ok":
        src_obj = classes["Src"]() if shape == "empty" else classes["Src"](values_of(d)[-1])
        report.evaluations += 1
        try:
            res = out[1](src_obj)
            placed = res.f
            good = (type(res) is classes["Dst"] and R.conforms(env, placed, d)
                    and R.describe(env, placed) == R.describe(env, values_of(d)[0]))
        except Exception as e:  # noqa: BLE001
            placed, good = f"{type(e).__name__}: {e}", False
        if not good and ref.verdict == YES:
            report.violation({"check": "C14", "problem": "unlinked_default_value", "coercer": kind},
                             f"{text}: skipped field holds {vshow(placed)} instead of its default {vshow(values_of(d)[0])}", case)


# ------------------------------------------------------------------------------------------------------------
# enumeration

def variants_for(d):
    names = [v[0] for v in VARIANTS_ALL]
    if mentions_sub(d):
        names += [v[0] for v in VARIANTS_SUB]
    return names


def shard_pairs(shard):
    ws, wd, si = shard
    report = Report()
    s0 = POOL[si]
    s = wrap(ws, s0, "S")
    for d0 in POOL:
        d = wrap(wd, d0, "D")
        for vname in variants_for(d):
            eval_pair(s, d, vname, report, ws, wd)
    linecache.clearcache()
    return report


def shard_missing(shard):
    report = Report()
    for d in shard:
        for shape in ("other_name", "empty"):
            for has_default in (False, True):
                for rname, _ in MISSING_RECIPES:
                    eval_missing(d, shape, has_default, rname, report)
    return report


def _run_shard(shard):
    if shard[0] == "pairs":
        return shard_pairs(shard[1])
    return shard_missing(shard[1])


def pep604_leg(report):
    """the same refusals when a side is spelled with `|` (types.UnionType has no __name__): ProviderNotFoundError, nothing else"""
    src = dataclasses.make_dataclass("S", [("x", int | None), ("y", int | str)])
    for dname, dtype in (("model", M), ("List[int]", typing.List[int]), ("str", str)):
        for fld in ("x", "y"):
            dst = dataclasses.make_dataclass("D", [(fld, dtype)])
            case = {"part": "pep604", "field": fld, "dst": dname}
            report.case(("pep604", fld, dname), nontrivial=True, sample=case)
            report.evaluations += 1
            try:
                get_converter(src, dst)
                report.violation({"check": "C14", "problem": "accepts_uncoercible", "coercer": "pep604"},
                                 f"S.{fld}: int | ... -> D.{fld}: {dname}: converter produced", case)
            except ProviderNotFoundError:
                report.outcome("pep604: refused")
            except Exception as e:  # noqa: BLE001
                report.violation({"check": "C14", "problem": "wrong_error_class", "exc": type(e).__name__, "coercer": "pep604"},
                                 f"S.{fld}: {'int | None' if fld == 'x' else 'int | str'} -> D.{fld}: {dname}: creation raised "
                                 f"{type(e).__name__}: {str(e)[:100]} (ProviderNotFoundError expected)", case)


def run(tier):
    report = Report()
    wraps = WRAPS_QUICK if tier == "quick" else WRAPS_THOROUGH
    shards = [("pairs", (ws, wd, si)) for ws, wd in wraps for si in range(len(POOL))]
    shards += [("missing", chunk) for chunk in parallel.chunks(POOL, 6)]
    report.count("pool_size", len(POOL))
    report.count("ordered_pairs", len(POOL) ** 2)
    report.count("wrapper_pairs", len(wraps))
    parallel.run_shards(_run_shard, shards, report=report)
    pep604_leg(report)
    return report


def SANITY(report, tier):  # noqa: N802
    o = report.outcomes
    problems = []
    accepted = o["ref=yes,impl=ok"]
    refused = o["ref=no,impl=refused"]
    if accepted < 100:
        problems.append(f"only {accepted} coercible pairs accepted")
    if refused < 1000:
        problems.append(f"only {refused} uncoercible pairs refused")
    if o["run=conforms"] < 100:
        problems.append("fewer than 100 converter executions with a conforming result")
    if o["missing: ref=no,impl=refused"] < 100:
        problems.append("missing-link part: fewer than 100 refusals")
    if o["missing: ref=yes,impl=ok"] < 50:
        problems.append("missing-link part: fewer than 50 allowed skips")
    unspec = sum(n for k, n in o.items() if k.startswith("ref=unspec"))
    definite = sum(n for k, n in o.items() if k.startswith(("ref=yes", "ref=no")))
    if unspec * 4 > definite:
        problems.append(f"UNSPEC share too large: {unspec} unspecified vs {definite} definite")
    return problems


def extra_evidence(report, tier):
    o = report.outcomes
    return {
        "pool_size": len(POOL),
        "ordered_pairs_per_wrapper_pair": len(POOL) ** 2,
        "wrapper_pairs": len(WRAPS_QUICK if tier == "quick" else WRAPS_THOROUGH),
        "outcomes": {k: o[k] for k in sorted(o)},
    }


def replay(case):
    report = Report()
    if case["part"] == "pair":
        eval_pair(_rebuild(R.from_json(case["s"]), "S"), _rebuild(R.from_json(case["d"]), "D"), case["variant"], report)
    else:
        eval_missing(R.from_json(case["d"]), case["shape"], case["default"], case["recipe"], report)
    for v in report.violations.values():
        return v["what"]
    return None


def _rebuild(ts, side):
    """replay files name wrapper models by their generated name; re-create them (the name encodes the wrapped pool type)"""
    if ts[0] == "Model" and ts[1].startswith(("WrapS_", "WrapD_")) and ts[1] not in _DYN_SPECS:
        for t in POOL:
            if ts[1] == f"Wrap{side}_{_tname(t)}":
                return wrap("Model", t, side)
        raise ValueError(f"cannot rebuild {ts}")
    return tuple(_rebuild(x, side) if isinstance(x, tuple) and x and isinstance(x[0], str) else x for x in ts)
