"""C08 — models are built by their own constructor; omitted fields get the true default.

Generated model programs with an instrumented constructor:
  A  default alphabet: every kind that has value defaults x every default of D (one representative of every branch of the
     literal renderer: look-alikes of 0/1/True/False/None, NaN, containers, singletons, enum members, non-renderable objects)
     x field absent/present x 6 modes; the loaded object is compared, type-exact, with the object the model itself builds;
  B  parameter layouts: every legal __init__ signature with <= 4 parameters over {positional-only, positional-or-keyword,
     keyword-only} x {required, optional} x every subset of optional fields present (and every single optional field skipped by
     name_mapping): exactly one constructor call, arguments bind to exactly the loaded values / true defaults;
  C  default factories: fresh value per load, one factory call per load;
  D  attrs specifics: Factory(takes_self=True) in every position, private names with aliases, validators, kw_only;
  E  dataclass kw_only / __post_init__, NamedTuple, TypedDict NotRequired, pydantic.
"""
import collections
import dataclasses
import enum
import functools
import inspect
import itertools
import math
from decimal import Decimal
from fractions import Fraction
from typing import Any, List, NamedTuple, Optional, TypedDict, Unpack

from adaptix import DebugTrail, Retort, name_mapping

from mc import codec, parallel
from mc.matrix import MODES, mode_name
from mc.ref_types import same
from mc.report import Report

META = {
    "level": "exploration",
    "rule": (
        "cases = (model program, subset of optional fields present, mode); programs: kinds x default alphabet D (45 values), "
        "all legal signatures with <= 4 parameters (thorough; quick <= 3), factories, attrs takes_self layouts; all enumerated; "
        "a case is non-trivial when at least one optional field is absent (a default has to be produced)"
    ),
    "assumptions": [
        "the oracle is differential: the object adaptix builds is compared attribute-wise and type-exactly with the object the "
        "model's own constructor builds from the present fields; the constructor log is checked by binding it to the signature",
        "field types are Any/int so that loaders do not transform the values",
    ],
    "bound": {"quick": "signatures <= 4 parameters", "thorough": "signatures <= 5 parameters"},
}


class IE(enum.IntEnum):
    ONE = 1
    ZERO = 0


class SE(str, enum.Enum):
    A = "a"


class FL(enum.Flag):
    Z = 0
    X = 1


class Single:
    def __repr__(self):
        return "SINGLE"


SINGLE = Single()

D = [
    ("0", 0), ("1", 1), ("-1", -1), ("True", True), ("False", False), ("None", None), ("0.0", 0.0), ("-0.0", -0.0), ("1.0", 1.0),
    ("1.5", 1.5), ("inf", math.inf), ("nan", math.nan), ("''", ""), ("'x'", "x"), ("b''", b""), ("bytearray", bytearray(b"x")),
    ("()", ()), ("(1,)", (1,)), ("('a',)", ("a",)), ("(1,2)", (1, 2)), ("((1,),)", ((1,),)), ("frozenset()", frozenset()),
    ("frozenset({1})", frozenset({1})), ("range(3)", range(3)), ("range(1,7,2)", range(1, 7, 2)), ("slice(1,5)", slice(1, 5)),
    ("slice(None,None,2)", slice(None, None, 2)), ("Decimal(0)", Decimal("0")), ("Decimal(1)", Decimal("1")),
    ("(Decimal(1),)", (Decimal("1"),)), ("Fraction(1)", Fraction(1)), ("1+0j", 1 + 0j), ("IE.ONE", IE.ONE), ("IE.ZERO", IE.ZERO),
    ("SE.A", SE.A), ("FL(0)", FL(0)), ("SINGLE", SINGLE), ("Ellipsis", ...), ("NotImplemented", NotImplemented),
    ("10**30", 10**30), ("(True, 1, 1.0)", (True, 1, 1.0)), ("int-class", int), ("len-builtin", len),
]
class Pt(NamedTuple):
    x: int
    y: int


class TupSub(tuple):
    pass


class FrozenSub(frozenset):
    pass


class IntSub(int):
    pass


class FloatSub(float):
    pass


class StrSub(str):
    pass


class BytesSub(bytes):
    pass


class ListSub(list):
    pass


class DictSub(dict):
    pass


class SetSub(set):
    pass


# instances of SUBCLASSES of the renderable builtin types: equal to a literal of the base type, of another class
D += [
    ("Pt(0,0)", Pt(0, 0)), ("TupSub((1,))", TupSub((1,))), ("TupSub(())", TupSub(())), ("FrozenSub({1})", FrozenSub({1})),
    ("IntSub(1)", IntSub(1)), ("FloatSub(1.5)", FloatSub(1.5)), ("StrSub('x')", StrSub("x")), ("BytesSub(b'x')", BytesSub(b"x")),
    ("(Pt(0,0),)", (Pt(0, 0),)), ("(IntSub(1), 'a')", (IntSub(1), "a")), ("frozenset({Pt(0,0)})", frozenset({Pt(0, 0)})),
]

D_MUTABLE = [("[]", []), ("{}", {}), ("[1]", [1]), ("{1}", {1}), ("{'k': [1, (2,)]}", {"k": [1, (2,)]}), ("[Decimal(1)]", [Decimal(1)]),
             ("{1: True}", {1: True})]
D_MUTABLE += [
    ("OrderedDict()", collections.OrderedDict()), ("OrderedDict(a=1)", collections.OrderedDict(a=1)), ("Counter()", collections.Counter()),
    ("Counter(a=1)", collections.Counter(a=1)), ("defaultdict(list)", collections.defaultdict(list)), ("ListSub([1])", ListSub([1])),
    ("DictSub()", DictSub()), ("SetSub({1})", SetSub({1})), ("deque([1])", collections.deque([1])), ("[Pt(0,0)]", [Pt(0, 0)]),
    ("{'k': OrderedDict()}", {"k": collections.OrderedDict()}),
]
D_BY_NAME = dict(D + D_MUTABLE)

LOG = []


def instrument(cls, attr="__init__"):
    orig = getattr(cls, attr)

    @functools.wraps(orig)
    def wrapper(*args, **kwargs):
        LOG.append((args[1:], dict(kwargs)))
        return orig(*args, **kwargs)

    setattr(cls, attr, wrapper)
    return cls


def tsame(a, b):
    """type-exact equality for defaults (NaN equal NaN; -0.0 distinguished from 0.0; containers recursively)"""
    if type(a) is not type(b):
        return False
    if isinstance(a, float):
        return (math.isnan(a) and math.isnan(b)) or (a == b and math.copysign(1, a) == math.copysign(1, b))
    if isinstance(a, Decimal):
        return a.as_tuple() == b.as_tuple()      # Decimal('2.50') is not Decimal('2.5')
    if isinstance(a, (tuple, list)):
        return len(a) == len(b) and all(tsame(x, y) for x, y in zip(a, b))
    if isinstance(a, dict):
        return len(a) == len(b) and all(any(tsame(k, k2) and tsame(v, b[k2]) for k2 in b) for k, v in a.items())
    if isinstance(a, (set, frozenset)):
        return len(a) == len(b) and all(any(tsame(x, y) for y in b) for x in a)
    return a == b or a is b


def attrs_of(obj, names):
    if isinstance(obj, dict):
        return {n: obj[n] for n in names if n in obj}
    return {n: getattr(obj, n) for n in names if hasattr(obj, n)}


def loaders_for(cls, recipe=()):
    out = {}
    for mode in MODES:
        try:
            out[mode] = Retort(recipe=list(recipe), debug_trail=DebugTrail[mode[0]], strict_coercion=mode[1]).get_loader(cls)
        except Exception as e:  # noqa: BLE001
            out[mode] = e
    return out


# ------------------------------------------------------------------------------------------------------------
# leg A: default alphabet

def make_default_model(kind, default):
    if kind == "dataclass":
        return instrument(dataclasses.make_dataclass("DM", [("a", int), ("b", Any, dataclasses.field(default=default))]))
    if kind == "namedtuple":
        cls = NamedTuple("NM", [("a", int), ("b", Any)])
        cls.__new__.__defaults__ = (default,)
        cls._field_defaults = {"b": default}
        return cls
    if kind == "attrs":
        import attr
        return instrument(attr.make_class("AM", {"a": attr.ib(type=int), "b": attr.ib(type=Any, default=default)}))
    if kind == "pydantic":
        import pydantic
        return pydantic.create_model("PM", __config__=pydantic.ConfigDict(arbitrary_types_allowed=True), a=(int, ...), b=(Any, default))
    if kind == "plaininit":
        ns = {"_d": default, "Any": Any}
        exec("class CM:\n    def __init__(self, a: int, b: Any = _d):\n        self.a = a\n        self.b = b\n", ns)  # noqa: S102
        return instrument(ns["CM"])
    if kind == "kwonlyinit":
        ns = {"_d": default, "Any": Any}
        exec("class KM:\n    def __init__(self, a: int, *, b: Any = _d):\n        self.a = a\n        self.b = b\n", ns)  # noqa: S102
        return instrument(ns["KM"])
    raise ValueError(kind)


DEFAULT_KINDS = ("dataclass", "namedtuple", "attrs", "pydantic", "plaininit", "kwonlyinit")


def _invented():
    return "<invented by __missing__>"


def leg_a(shard, report):
    for kind, dname in shard:
        default = D_BY_NAME[dname]
        try:
            cls = make_default_model(kind, default)
        except Exception:  # noqa: BLE001
            report.skip("the model kind itself refuses this default (e.g. mutable default in a dataclass)")
            continue
        try:
            del LOG[:]
            own = cls(a=1) if kind != "namedtuple" else cls(1)
        except Exception:  # noqa: BLE001
            report.skip("the model kind itself cannot be built with this default")
            continue
        lds = loaders_for(cls)
        case = {"leg": "A", "kind": kind, "default": dname}
        for mode, ld in lds.items():
            if isinstance(ld, Exception):
                report.violation({"check": "C08.default", "problem": "creation_failed", "exc": type(ld).__name__},
                                 f"{kind} with default {dname}: loader creation failed {type(ld).__name__}: {str(ld.__cause__ or ld)[:150]}", case)
                break
            for present in (False, True):
                del LOG[:]
                data = {"a": 1, "b": "given"} if present else {"a": 1}
                report.case(("A", kind, dname, mode, present), nontrivial=not present,
                            sample={**case, "mode": mode_name(mode), "b_present": present})
                try:
                    obj = ld(data)
                except Exception as e:  # noqa: BLE001
                    report.violation({"check": "C08.default", "problem": "load_failed", "exc": type(e).__name__},
                                     f"{kind} default {dname} [{mode_name(mode)}] <- {data}: {type(e).__name__}: {str(e)[:120]}", case)
                    continue
                got = attrs_of(obj, ["a", "b"])
                want = {"a": 1, "b": "given" if present else attrs_of(own, ["a", "b"])["b"]}
                report.outcome("default_ok" if tsame(got, want) else "default_wrong")
                if not tsame(got, want):
                    report.violation({"check": "C08.default", "problem": "lookalike_default" if not present else "value"},
                                     f"{kind} with b = {dname}: loading {data} [{mode_name(mode)}] gives b = {codec.show(got.get('b'), 60)} "
                                     f"but the model itself holds {codec.show(want['b'], 60)}", case)
                if kind not in ("namedtuple", "pydantic") and len(LOG) != 1:
                    report.violation({"check": "C08.ctor", "problem": "constructor_call_count"},
                                     f"{kind} default {dname}: constructor called {len(LOG)} times for one load", case)
                if present:
                    continue
                # the key is absent also when the mapping would invent a value for it (__missing__): the model's default applies
                for mname, mdata in (("defaultdict", collections.defaultdict(_invented, {"a": 1})), ("Counter", collections.Counter({"a": 1}))):
                    report.evaluations += 1
                    try:
                        got_m = attrs_of(ld(mdata), ["a", "b"])
                    except Exception as e:  # noqa: BLE001
                        got_m = {"error": type(e).__name__}
                    if not tsame(got_m, want):
                        report.violation({"check": "C08.default", "problem": "missing_key_answered_by_the_mapping"},
                                         f"{kind} with b = {dname}: loading {mname}({{'a': 1}}) [{mode_name(mode)}] gives "
                                         f"{codec.show(got_m, 80)} but the key b is absent and the model itself holds {codec.show(want['b'], 60)}",
                                         case)
                # a default the loader built itself (not the model's own object) stays the declared default after a result was changed
                loaded = got.get("b")
                if isinstance(loaded, (list, dict, set)) and loaded is not default and tsame(got, want):
                    if isinstance(loaded, list):
                        loaded.append("changed by the caller")
                    elif isinstance(loaded, dict):
                        loaded["changed by the caller"] = 1
                    else:
                        loaded.add("changed by the caller")
                    report.evaluations += 1
                    again = attrs_of(ld({"a": 1}), ["a", "b"])
                    fresh_own = attrs_of(cls(a=1) if kind != "namedtuple" else cls(1), ["a", "b"])
                    if tsame(fresh_own, want) and not tsame(again, want):
                        report.violation({"check": "C08.default", "problem": "default_changed_by_an_earlier_result"},
                                         f"{kind} with b = {dname} [{mode_name(mode)}]: after the b of one loaded object was changed, the next "
                                         f"load gives b = {codec.show(again.get('b'), 60)}; the declared default is {codec.show(want['b'], 60)}",
                                         case)
                    # undo, the alphabet object may be the same
                    if isinstance(loaded, list):
                        loaded.pop()
                    elif isinstance(loaded, dict):
                        del loaded["changed by the caller"]
                    else:
                        loaded.discard("changed by the caller")


# ------------------------------------------------------------------------------------------------------------
# leg B: parameter layouts

PK = ("PO", "PK", "KW")     # positional-only, positional-or-keyword, keyword-only


def signatures(max_params):
    """all legal (kind, optional) sequences"""
    out = []
    for n in range(1, max_params + 1):
        for kinds in itertools.product(PK, repeat=n):
            if list(kinds) != sorted(kinds, key=PK.index):
                continue
            for opts in itertools.product((False, True), repeat=n):
                # among positional parameters no required one may follow an optional one
                seen_opt = False
                legal = True
                for k, o in zip(kinds, opts):
                    if k == "KW":
                        continue
                    if o:
                        seen_opt = True
                    elif seen_opt:
                        legal = False
                if legal:
                    out.append(tuple(zip(kinds, opts)))
    return out


def make_sig_class(sig):
    params, body = [], []
    po_done = kw_started = False
    n_po = sum(1 for k, _ in sig if k == "PO")
    for i, (k, opt) in enumerate(sig):
        if k == "KW" and not kw_started:
            params.append("*")
            kw_started = True
        params.append(f"p{i}: int" + (f" = {100 + i}" if opt else ""))
        if k == "PO" and i == n_po - 1:
            params.append("/")
        body.append(f"        self.p{i} = p{i}")
    src = f"class SC:\n    def __init__(self, {', '.join(params)}):\n" + "\n".join(body) + "\n"
    ns = {}
    exec(src, ns)  # noqa: S102
    return instrument(ns["SC"]), src


def check_call(cls, data, obj, names, case, report, what):
    """the single logged call must bind, by the signature's own rules, to exactly the present values / true defaults"""
    if len(LOG) != 1:
        report.violation({"check": "C08.ctor", "problem": "constructor_call_count"}, f"{what}: constructor called {len(LOG)} times", case)
        return
    args, kwargs = LOG[0]
    sig = inspect.signature(cls.__init__)
    try:
        bound = sig.bind(None, *args, **kwargs)
    except TypeError as e:
        report.violation({"check": "C08.ctor", "problem": "call_does_not_bind"}, f"{what}: call {args} {kwargs} does not bind: {e}", case)
        return
    for name in names:
        param = sig.parameters[name]
        if name in data:
            if name not in bound.arguments or not tsame(bound.arguments[name], data[name]):
                report.violation({"check": "C08.ctor", "problem": "wrong_argument"},
                                 f"{what}: parameter {name} received {bound.arguments.get(name, '<nothing>')!r} instead of {data[name]!r} (call {args} {kwargs})", case)
        elif name in bound.arguments and not tsame(bound.arguments[name], param.default):
            report.violation({"check": "C08.ctor", "problem": "wrong_default_argument"},
                             f"{what}: absent field {name} was passed {bound.arguments[name]!r}, the declared default is {param.default!r}", case)


def leg_b(shard, report):
    for sig in shard:
        cls, src = make_sig_class(sig)
        names = [f"p{i}" for i in range(len(sig))]
        # adaptix treats positional-only parameters as always required (model_tools/introspection/callable.py): an optional
        # positional-only parameter is therefore always supplied here; only the others range over present/absent/skipped
        optional = [n for n, (k, o) in zip(names, sig) if o and k != "PO"]
        variants = [("plain", ())] + [(f"skip:{n}", (name_mapping(cls, skip=[n]),)) for n in optional]
        for vname, recipe in variants:
            lds = loaders_for(cls, recipe)
            skipped = vname.split(":")[1] if ":" in vname else None
            case = {"leg": "B", "signature": [list(p) for p in sig], "variant": vname}
            for mode, ld in lds.items():
                if isinstance(ld, Exception):
                    po_skipped = skipped is not None and any(k == "PO" and n == skipped for n, (k, _) in zip(names, sig))
                    later_po = skipped is not None and any(k == "PO" for n, (k, _) in list(zip(names, sig))[names.index(skipped) + 1:])
                    if skipped is not None and later_po:
                        report.skip("a positional-only parameter follows a parameter skipped by name_mapping (cannot be called consistently)")
                    else:
                        report.violation({"check": "C08.ctor", "problem": "creation_failed", "variant": vname.split(":")[0]},
                                         f"signature {src.splitlines()[1].strip()} {vname}: loader creation failed: {str(ld.__cause__ or ld)[:150]}", case)
                    break
                for r in range(len(optional) + 1):
                    for present in itertools.combinations(optional, r):
                        if skipped in present:
                            continue
                        data = {n: i + 1 for i, n in enumerate(names) if n not in optional or n in present}
                        del LOG[:]
                        report.case(("B", sig, vname, mode, present), nontrivial=len(present) < len(optional),
                                    sample={**case, "mode": mode_name(mode), "present": list(present)})
                        what = f"{src.splitlines()[1].strip()} {vname} <- {data} [{mode_name(mode)}]"
                        try:
                            obj = ld(dict(data))
                        except Exception as e:  # noqa: BLE001
                            report.violation({"check": "C08.ctor", "problem": "load_failed", "exc": type(e).__name__},
                                             f"{what}: {type(e).__name__}: {str(e)[:120]}", case)
                            continue
                        report.outcome("layout_loaded")
                        check_call(cls, data, obj, names, case, report, what)
                        own = cls(**{}) if False else None
                        want = {n: data.get(n, 100 + i) for i, n in enumerate(names)}
                        if attrs_of(obj, names) != want:
                            report.violation({"check": "C08.ctor", "problem": "wrong_object"},
                                             f"{what}: object {attrs_of(obj, names)} expected {want}", case)


# ------------------------------------------------------------------------------------------------------------
# leg C: factories

COUNT = [0]


def counting_factory():
    COUNT[0] += 1
    return [COUNT[0]]


FACTORIES = [("list", list), ("dict", dict), ("set", set), ("tuple", tuple), ("str", str), ("bytes", bytes),
             ("lambda:[1]", lambda: [1]), ("counting", counting_factory), ("lambda:Decimal(1)", lambda: Decimal(1)),
             ("lambda:True", lambda: True), ("frozenset", frozenset), ("NoneType", type(None))]


def make_factory_model(kind, factory):
    if kind == "dataclass":
        return dataclasses.make_dataclass("FM", [("a", int), ("b", Any, dataclasses.field(default_factory=factory))])
    if kind == "attrs":
        import attr
        return attr.make_class("FA", {"a": attr.ib(type=int), "b": attr.ib(type=Any, factory=factory)})
    if kind == "pydantic":
        import pydantic
        return pydantic.create_model("FP", __config__=pydantic.ConfigDict(arbitrary_types_allowed=True), a=(int, ...),
                                     b=(Any, pydantic.Field(default_factory=factory)))
    raise ValueError(kind)


def leg_c(shard, report):
    fac = dict(FACTORIES)
    for kind, fname in shard:
        factory = fac[fname]
        cls = make_factory_model(kind, factory)
        lds = loaders_for(cls)
        case = {"leg": "C", "kind": kind, "factory": fname}
        for mode, ld in lds.items():
            if isinstance(ld, Exception):
                report.violation({"check": "C08.factory", "problem": "creation_failed"}, f"{kind} factory {fname}: {ld!r}"[:200], case)
                break
            report.case(("C", kind, fname, mode), nontrivial=True, sample={**case, "mode": mode_name(mode)})
            before = COUNT[0]
            o1 = ld({"a": 1})
            mid = COUNT[0]
            o2 = ld({"a": 1})
            after = COUNT[0]
            b1, b2 = attrs_of(o1, ["b"])["b"], attrs_of(o2, ["b"])["b"]
            if fname == "counting":
                if mid - before != 1 or after - mid != 1:
                    report.violation({"check": "C08.factory", "problem": "factory_call_count"},
                                     f"{kind} [{mode_name(mode)}]: default factory called {mid - before} and {after - mid} times for two loads", case)
                report.outcome("counting_factory_checked")
            else:
                fresh = factory()
                if not tsame(b1, fresh) or not tsame(b2, fresh):
                    report.violation({"check": "C08.factory", "problem": "wrong_factory_value"},
                                     f"{kind} factory {fname} [{mode_name(mode)}]: got {codec.show(b1, 40)} expected {codec.show(fresh, 40)}", case)
            if isinstance(b1, (list, dict, set)) and b1 is b2:
                report.violation({"check": "C08.factory", "problem": "shared_default"},
                                 f"{kind} factory {fname} [{mode_name(mode)}]: two loaded objects share one default container", case)
            report.outcome("factory_loaded")


# ------------------------------------------------------------------------------------------------------------
# leg D/E: attrs specifics, dataclass kw_only/__post_init__, TypedDict, NamedTuple

POST_INIT = []


def attrs_layouts():
    """(description, class factory, field names, optional names)"""
    import attr
    out = []
    # takes_self factory in every position of a 3-field class, the other optional field has a plain default
    for pos in (1, 2):
        for other in ("value", "none"):
            def mk(pos=pos, other=other):
                fields = {"a": attr.ib(type=int)}
                for i in (1, 2):
                    n = "bc"[i - 1]
                    if i == pos:
                        fields[n] = attr.ib(type=int, default=attr.Factory(lambda self: self.a * 10, takes_self=True))
                    elif other == "value":
                        fields[n] = attr.ib(type=int, default=5)
                    else:
                        fields[n] = attr.ib(type=int) if i < pos else attr.ib(type=int, default=5)
                return instrument(attr.make_class("TS", fields))
            try:
                mk()
            except Exception:  # noqa: BLE001, S112
                continue
            out.append((f"takes_self@{pos},other={other}", mk, ["a", "b", "c"]))

    def mk_private():
        return instrument(attr.make_class("PV", {"a": attr.ib(type=int), "_x": attr.ib(type=int, default=7),
                                                 "_y": attr.ib(type=int, default=attr.Factory(lambda self: self.a + 1, takes_self=True))}))
    out.append(("private+takes_self", mk_private, ["a", "_x", "_y"]))

    def mk_kwonly():
        return instrument(attr.make_class("KO", {"a": attr.ib(type=int), "b": attr.ib(type=int, default=3, kw_only=True),
                                                 "c": attr.ib(type=int, default=4)}))
    out.append(("kw_only_middle", mk_kwonly, ["a", "b", "c"]))

    def mk_validator():
        def positive(inst, attribute, value):
            POST_INIT.append(("validator", value))
            if value < 0:
                raise ValueError("negative")
        return instrument(attr.make_class("VA", {"a": attr.ib(type=int, validator=positive), "b": attr.ib(type=int, default=2)}))
    out.append(("validator", mk_validator, ["a", "b"]))
    return out


def other_layouts():
    out = []

    def mk_dc_kwonly():
        return instrument(dataclasses.make_dataclass("DK", [("a", int), ("b", int, dataclasses.field(default=3, kw_only=True)),
                                                            ("c", int, dataclasses.field(default=4))]))
    out.append(("dataclass kw_only middle", mk_dc_kwonly, ["a", "b", "c"]))

    def mk_dc_post():
        def post(self):
            POST_INIT.append(("post_init", self.a))
            self.derived = self.a * 2
        return instrument(dataclasses.make_dataclass("DP", [("a", int), ("b", int, dataclasses.field(default=3))],
                                                     namespace={"__post_init__": post}))
    out.append(("dataclass __post_init__", mk_dc_post, ["a", "b", "derived"]))
    return out


def leg_d(shard, report):
    layouts = {d: (mk, names) for d, mk, names in attrs_layouts() + other_layouts()}
    for desc in shard:
        mk, names = layouts[desc]
        cls = mk()
        lds = loaders_for(cls)
        sig = inspect.signature(cls.__init__)
        pnames = [p for p in sig.parameters if p != "self"]
        fld_to_param = {n: (n.lstrip("_") if n.lstrip("_") in pnames else n) for n in names}
        optional = [n for n in names if fld_to_param.get(n) in sig.parameters and sig.parameters[fld_to_param[n]].default is not inspect.Parameter.empty]
        case = {"leg": "D", "layout": desc}
        for mode, ld in lds.items():
            if isinstance(ld, Exception):
                report.violation({"check": "C08.ctor", "problem": "creation_failed", "layout": desc.split("@")[0]},
                                 f"{desc}: loader creation failed: {str(ld.__cause__ or ld)[:200]}", case)
                break
            for r in range(len(optional) + 1):
                for present in itertools.combinations(optional, r):
                    required = [n for n in names if fld_to_param.get(n) in sig.parameters and n not in optional]
                    data = {**{n: 1 + i for i, n in enumerate(required)}, **{n: 50 + i for i, n in enumerate(present)}}
                    del LOG[:]
                    del POST_INIT[:]
                    report.case(("D", desc, mode, present), nontrivial=len(present) < len(optional),
                                sample={**case, "mode": mode_name(mode), "present": list(present)})
                    what = f"{desc} <- {data} [{mode_name(mode)}]"
                    try:
                        own = cls(**{fld_to_param[k]: v for k, v in data.items()})
                        own_post = list(POST_INIT)
                        del LOG[:]
                        del POST_INIT[:]
                        obj = ld(dict(data))
                    except Exception as e:  # noqa: BLE001
                        report.violation({"check": "C08.ctor", "problem": "load_failed", "layout": desc.split("@")[0], "exc": type(e).__name__},
                                         f"{what}: {type(e).__name__}: {str(e)[:120]}", case)
                        continue
                    report.outcome("layout_loaded")
                    if len(LOG) != 1:
                        report.violation({"check": "C08.ctor", "problem": "constructor_call_count"}, f"{what}: {len(LOG)} constructor calls", case)
                    if POST_INIT != own_post:
                        report.violation({"check": "C08.ctor", "problem": "side_effects_differ"},
                                         f"{what}: constructor side effects {POST_INIT} instead of {own_post}", case)
                    got, want = attrs_of(obj, names), attrs_of(own, names)
                    if not tsame(got, want):
                        report.violation({"check": "C08.ctor", "problem": "wrong_object", "layout": desc.split("@")[0]},
                                         f"{what}: built {got}, the model's own constructor builds {want} (call {LOG})", case)


# ------------------------------------------------------------------------------------------------------------
# leg P: two defaulted fields whose defaults are EQUAL but distinct objects (several constants of one generated loader)

EQUAL_GROUPS = [
    [("Decimal('1')", Decimal("1")), ("Fraction(1)", Fraction(1)), ("IE.ONE", IE.ONE), ("Decimal('1.0')", Decimal("1.0")), ("1+0j", 1 + 0j),
     ("1", 1), ("True", True), ("1.0", 1.0), ("IntSub(1)", IntSub(1))],
    [("Decimal('2.50')", Decimal("2.50")), ("Decimal('2.5')", Decimal("2.5")), ("Fraction(5, 2)", Fraction(5, 2)), ("2.5", 2.5),
     ("FloatSub(2.5)", FloatSub(2.5))],
    [("(Decimal('1'),)", (Decimal("1"),)), ("(Fraction(1),)", (Fraction(1),)), ("(1,)", (1,)), ("TupSub((1,))", TupSub((1,)))],
    [("frozenset({Decimal(0)})", frozenset({Decimal(0)})), ("frozenset({Fraction(0)})", frozenset({Fraction(0)})),
     ("FrozenSub({0})", FrozenSub({0}))],
]


def leg_p(items, report):
    for kind, gi, i, j in items:
        (n1, d1), (n2, d2) = EQUAL_GROUPS[gi][i], EQUAL_GROUPS[gi][j]
        try:
            if kind == "dataclass":
                cls = dataclasses.make_dataclass("PM", [("a", int), ("b", Any, dataclasses.field(default=d1)),
                                                        ("c", Any, dataclasses.field(default=d2))])
            elif kind == "attrs":
                import attr
                cls = attr.make_class("PA", {"a": attr.ib(type=int), "b": attr.ib(type=Any, default=d1), "c": attr.ib(type=Any, default=d2)})
            else:
                cls = NamedTuple("PN", [("a", int), ("b", Any), ("c", Any)])
                cls.__new__.__defaults__ = (d1, d2)
                cls._field_defaults = {"b": d1, "c": d2}
            own = cls(1) if kind == "namedtuple" else cls(a=1)
        except Exception:  # noqa: BLE001
            report.skip("the model kind itself refuses this pair of defaults")
            continue
        case = {"leg": "P", "kind": kind, "group": gi, "pair": [i, j]}
        for mode, ld in loaders_for(cls).items():
            if isinstance(ld, Exception):
                report.violation({"check": "C08.default", "problem": "creation_failed", "exc": type(ld).__name__},
                                 f"{kind} with b = {n1}, c = {n2}: loader creation failed {type(ld).__name__}", case)
                break
            for data in ({"a": 1}, {"a": 1, "b": "given"}, {"a": 1, "c": "given"}):
                report.case(("P", kind, gi, i, j, mode, tuple(data)), nontrivial=True, sample={**case, "mode": mode_name(mode), "input": data})
                try:
                    got = attrs_of(ld(dict(data)), ["a", "b", "c"])
                except Exception as e:  # noqa: BLE001
                    report.violation({"check": "C08.default", "problem": "load_failed", "exc": type(e).__name__},
                                     f"{kind} with b = {n1}, c = {n2} [{mode_name(mode)}] <- {data}: {type(e).__name__}", case)
                    continue
                want = {**attrs_of(own, ["a", "b", "c"]), **data}
                report.outcome("default_ok" if tsame(got, want) else "default_wrong")
                if not tsame(got, want):
                    report.violation({"check": "C08.default", "problem": "lookalike_default", "site": "two_equal_defaults"},
                                     f"{kind} with b = {n1}, c = {n2}: loading {data} [{mode_name(mode)}] gives "
                                     f"{codec.show(got, 90)} but the model itself holds {codec.show(want, 90)}", case)


# ------------------------------------------------------------------------------------------------------------
# leg R: loaders that are re-entered while they run (self-referential models) and have fields that are simply NOT PASSED when
# absent (non-required TypedDict keys, **kwargs: Unpack[TypedDict]): per-call state of the generated loader must be per call

class RNode(TypedDict, total=False):
    value: int
    label: str
    child: "RNode"
    kids: List["RNode"]


class ROpts(TypedDict, total=False):
    color: str
    weight: int


class RTree:
    def __init__(self, name: str, children: List["RTree"] = (), **opts: Unpack[ROpts]):
        LOG.append((name, dict(opts)))
        self.name = name
        self.children = children
        self.opts = opts


_R_SUBSETS = [(), ("value",), ("label",), ("value", "label")]


def _rnode_inputs():
    """every chain of depth <= 3 and every two-level tree with two kids, each node holding every subset of {value, label}"""
    def node(subset, n):
        return {k: (n if k == "value" else f"n{n}") for k in subset}
    for depth in (1, 2, 3):
        for subsets in itertools.product(_R_SUBSETS, repeat=depth):
            root = None
            for n, sub in reversed(list(enumerate(subsets))):
                cur = node(sub, n)
                if root is not None:
                    cur["child"] = root
                root = cur
            yield root
    for s0, s1, s2, s3 in itertools.product(_R_SUBSETS, repeat=4):
        yield {**node(s0, 0), "kids": [{**node(s1, 1), "kids": [node(s3, 3)]}, node(s2, 2)]}


def _rtree_inputs():
    opts = [{}, {"color": "red"}, {"weight": 5}, {"color": "c", "weight": 1}]
    for o0, o1, o2, o3 in itertools.product(opts, repeat=4):
        yield {"name": "root", **o0, "children": [{"name": "mid", **o1, "children": [{"name": "leaf1", **o2}, {"name": "leaf2", **o3}]}]}


def _rtree_calls(d, out):
    for c in d.get("children", ()):
        _rtree_calls(c, out)
    out.append((d["name"], {k: v for k, v in d.items() if k not in ("name", "children")}))
    return out


def leg_r(items, report):
    import copy
    lds_node, lds_tree = loaders_for(RNode), loaders_for(RTree)
    for mode in MODES:
        for leg, lds, gen in (("RNode", lds_node, _rnode_inputs), ("RTree", lds_tree, _rtree_inputs)):
            ld = lds[mode]
            if isinstance(ld, Exception):
                report.violation({"check": "C08.reentrant", "problem": "creation_failed", "model": leg},
                                 f"{leg}: loader creation failed {type(ld).__name__}: {str(ld.__cause__ or ld)[:150]}", {"leg": "R"})
                continue
            for data in gen():
                case = {"leg": "R", "model": leg, "input": data, "mode": mode_name(mode)}
                report.case(("R", leg, repr(data), mode), nontrivial=True, sample=case)
                del LOG[:]
                try:
                    obj = ld(copy.deepcopy(data))
                except Exception as e:  # noqa: BLE001
                    report.violation({"check": "C08.reentrant", "problem": "load_failed", "model": leg, "exc": type(e).__name__},
                                     f"{leg} <- {data} [{mode_name(mode)}]: {type(e).__name__}: {str(e)[:120]}", case)
                    continue
                report.outcome("reentrant_load_checked")
                if leg == "RNode":
                    if obj != data:
                        report.violation({"check": "C08.reentrant", "problem": "absent_key_filled", "model": leg},
                                         f"RNode (recursive TypedDict, total=False) <- {data} [{mode_name(mode)}]: loaded as {obj}", case)
                else:
                    want = _rtree_calls(data, [])
                    if list(LOG) != want:
                        report.violation({"check": "C08.reentrant", "problem": "constructor_arguments", "model": leg},
                                         f"RTree(name, children, **opts: Unpack[ROpts]) <- {data} [{mode_name(mode)}]: constructor calls "
                                         f"{list(LOG)}, the fields present in the input give {want}", case)


def shard_fn(args):
    leg, items = args
    report = Report()
    {"A": leg_a, "B": leg_b, "C": leg_c, "D": leg_d, "R": leg_r, "P": leg_p}[leg](items, report)
    return report


def run(tier):
    report = Report()
    shards = []
    a_items = [(k, d) for k in DEFAULT_KINDS for d, _ in D + D_MUTABLE]
    shards += [("A", a_items[i::24]) for i in range(24)]
    sigs = signatures(4 if tier == "quick" else 5)
    shards += [("B", sigs[i::48]) for i in range(48) if sigs[i::48]]
    c_items = [(k, f) for k in ("dataclass", "attrs", "pydantic") for f, _ in FACTORIES]
    shards += [("C", c_items[i::6]) for i in range(6)]
    shards += [("D", [d]) for d, _, _ in attrs_layouts() + other_layouts()]
    shards += [("R", [None])]
    p_items = [(k, gi, i, j) for k in ("dataclass", "attrs", "namedtuple") for gi, g in enumerate(EQUAL_GROUPS)
               for i in range(len(g)) for j in range(len(g)) if i != j]
    shards += [("P", p_items[i::8]) for i in range(8)]
    report.count("signatures", len(sigs))
    parallel.run_shards(shard_fn, shards, report=report)
    return report


def SANITY(report, tier):  # noqa: N802
    problems = []
    if report.outcomes["default_ok"] < 500:
        problems.append("fewer than 500 default checks passed")
    if report.outcomes["layout_loaded"] < 500:
        problems.append("fewer than 500 layout loads")
    if report.outcomes["counting_factory_checked"] < 6:
        problems.append("counting factory leg did not run")
    return problems


def replay(case):
    report = Report()
    leg = case["leg"]
    if leg == "A":
        leg_a([(case["kind"], case["default"])], report)
    elif leg == "B":
        leg_b([tuple(tuple(p) for p in case["signature"])], report)
    elif leg == "C":
        leg_c([(case["kind"], case["factory"])], report)
    elif leg == "R":
        leg_r([None], report)
    elif leg == "P":
        leg_p([(case["kind"], case["group"], *case["pair"])], report)
    else:
        leg_d([case["layout"]], report)
    for v in report.violations.values():
        return v["what"]
    return None
