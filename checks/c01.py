"""C01 — round trip: load(dump(x, T), T) == x for every supported type and configuration.

Types leg: every type of the MATRIX grammar that has both directions x every value of the value alphabets x 6 modes,
directly and through json.dumps/json.loads (when all dumped keys are strings); union cases are admitted only where the
reference says the dumped image is not accepted by two cases in the mode under test (the property's own side condition).
Leaf-exhaustive leg: timedelta with every microsecond value 0..999999 x days x seconds x sign.
Models leg: checks/c01_models.py.
"""
import datetime as dt
import json

from mc import codec, parallel
from mc.matrix import MODES, mode_name, retort_for, type_shards
from mc.matrix import run as mrun
from mc.ref_types import has_overlap, same
from mc.report import Report
from mc.space import dumper_exists, from_json, show, to_hint, to_json, unwrap, values_of

META = {
    "level": "exploration",
    "rule": (
        "cases = (TypeSpec, value, mode, transport) with transport in {direct, json}; all enumerated: grammar depth<=2 "
        "(thorough 3) x value alphabets x 6 modes; timedelta leg enumerates every microsecond value; non-trivial when the "
        "dumped form differs from the value (a conversion really happened) or the type is a container"
    ),
    "assumptions": [
        "unions are admitted only when mc/ref_types.has_overlap says the dumped datum is accepted by at most one case in that mode",
        "equality is type-exact recursive ==, NaN equal to NaN; signalling NaN is outside the alphabet",
        "small-scope: depth bound and value alphabets as listed in mc/space.py",
    ],
    "bound": {"quick": "type depth <= 2; timedelta: every us value x 2 signs", "thorough": "type depth <= 3; timedelta: every us value x 3 days x 3 seconds x 2 signs"},
}


def _str_keys(v):
    if isinstance(v, dict):
        return all(type(k) is str and _str_keys(x) for k, x in v.items())
    if isinstance(v, (list, tuple)):
        return all(_str_keys(x) for x in v)
    return True


def roundtrip_type(ts, report):
    if not dumper_exists(ts):
        report.skip("union dumper is documented to work only with class cases and Literal")
        return
    try:
        values = values_of(ts)
    except ValueError:
        return
    if not values:
        report.skip("no comparable value alphabet (BytesIO)")
        return
    hint = to_hint(ts)
    container = len(unwrap(ts)) > 1 and unwrap(ts)[0] not in ("Enum", "Flag", "Literal")
    for mode in MODES:
        r = retort_for(mode)
        try:
            loader, dumper = r.get_loader(hint), r.get_dumper(hint)
        except Exception as e:  # noqa: BLE001
            report.violation({"check": "C01.types", "problem": "creation_failed", "node": unwrap(ts)[0]},
                             f"cannot create loader/dumper for {show(ts)}: {type(e).__name__}", {"type": to_json(ts)})
            return
        for i, x in enumerate(values):
            d = mrun(dumper, x)
            case = {"kind": "types", "type": to_json(ts), "value_index": i, "mode": list(mode)}
            if not d.ok:
                report.case(("rt", ts, i, mode), nontrivial=True)
                report.violation({"check": "C01.types", "problem": "dump_failed", "node": unwrap(ts)[0]},
                                 f"dump {show(ts)} of {codec.show(x, 50)} [{mode_name(mode)}] raised {type(d.exc).__name__}", case)
                continue
            dumped = d.value
            if has_overlap(ts, dumped, mode[1]):
                report.case(("rt", ts, i, mode))
                report.skip("union cases overlap on the dumped datum in this mode (excluded by the property)")
                continue
            transports = [("direct", dumped)]
            if _str_keys(dumped):
                try:
                    transports.append(("json", json.loads(json.dumps(dumped))))
                except (TypeError, ValueError):
                    report.outcome("not json-serialisable")
            for tname, datum in transports:
                nontrivial = container or not same(dumped, x)
                report.case(("rt", ts, i, mode, tname), nontrivial=nontrivial,
                            sample=lambda: {"type": to_json(ts), "value": codec.enc(x), "mode": mode_name(mode),
                                            "transport": tname, "dumped": codec.enc(dumped)})
                back = mrun(loader, datum)
                report.outcome(f"{tname}:" + ("ok" if back.ok else "load_failed"))
                if back.ok and same(back.value, x):
                    continue
                sig = {"check": "C01.types", "problem": "load_failed" if not back.ok else "value_changed",
                       "node": _blame(ts, x, mode, tname), "transport": tname if tname == "json" and _direct_ok(loader, dumped, x) else "any"}
                report.violation(
                    sig,
                    f"{show(ts)} [{mode_name(mode)}, {tname}]: x={codec.show(x, 60)} dumped={codec.show(dumped, 60)} "
                    + (f"load raised {type(back.exc).__name__}: {str(back.exc)[:80]}" if not back.ok else f"loaded back as {codec.show(back.value, 60)}"),
                    {**case, "transport": tname})


def _direct_ok(loader, dumped, x):
    back = mrun(loader, dumped)
    return back.ok and same(back.value, x)


def _rt_ok(ts, x, mode, tname):
    try:
        r = retort_for(mode)
        hint = to_hint(ts)
        dumped = r.get_dumper(hint)(x)
        if tname == "json":
            dumped = json.loads(json.dumps(dumped))
        return same(r.get_loader(hint)(dumped), x)
    except Exception:  # noqa: BLE001
        return False


def _blame(ts, x, mode, tname):
    from mc.matrix import children
    cur_t, cur_x = ts, x
    for _ in range(6):
        nxt = None
        try:
            kids = children(cur_t, cur_x)
        except Exception:  # noqa: BLE001
            kids = []
        for ct, cx in kids:
            if unwrap(cur_t)[0] == "Union":
                continue
            if not _rt_ok(ct, cx, mode, tname):
                nxt = (ct, cx)
                break
        if nxt is None:
            break
        cur_t, cur_x = nxt
    u = cur_t
    return show(u) if len(u) <= 2 and not isinstance(u[-1], tuple) else u[0]


def shard(types):
    report = Report()
    for ts in types:
        roundtrip_type(ts, report)
    return report


# ------------------------------------------------------------------------------------------------------------
# leaf-exhaustive: timedelta microseconds

def td_shard(args):
    lo, hi, days_list, secs_list = args
    report = Report()
    failures = 0
    for mode in (("DISABLE", True), ("ALL", False)):
        r = retort_for(mode)
        loader, dumper = r.get_loader(dt.timedelta), r.get_dumper(dt.timedelta)
        for days in days_list:
            for secs in secs_list:
                for sign in (1, -1):
                    for us in range(lo, hi):
                        x = sign * dt.timedelta(days=days, seconds=secs, microseconds=us)
                        y = loader(dumper(x))
                        if y != x:
                            failures += 1
                            if failures <= 3:
                                report.violation({"check": "C01.timedelta_us"},
                                                 f"timedelta {x!r} dumps to {dumper(x)!r} and loads back as {y!r} [{mode_name(mode)}]",
                                                 {"kind": "timedelta", "days": days, "seconds": secs, "sign": sign, "us": us,
                                                  "mode": list(mode)})
                    report.case(("td", days, secs, mode, lo), nontrivial=True, n=2 * (hi - lo),
                                sample={"timedelta_sweep": {"days": days, "seconds": secs, "us_range": [lo, hi], "mode": mode_name(mode)}})
    report.count("timedelta_values_roundtripped", report.evaluations)
    if failures:
        report.violations[next(iter(report.violations))]["count"] = failures
    return report


def run(tier):
    report = Report()
    parallel.run_shards(shard, type_shards(tier, 64 if tier == "quick" else 256), report=report)
    days, secs = ([0], [0]) if tier == "quick" else ([0, 1, 40000], [0, 1, 86399])
    step = 62500
    parallel.run_shards(td_shard, [(lo, lo + step, days, secs) for lo in range(0, 10**6, step)], report=report)
    try:
        from checks import c01_models
    except ImportError:
        report.notes.append("model leg not built yet")
    else:
        c01_models.run(tier, report)
    from checks import c01_extra
    c01_extra.run(report)
    return report


def SANITY(report, tier):  # noqa: N802
    problems = []
    if report.outcomes["direct:ok"] < 5000:
        problems.append("fewer than 5000 direct round trips")
    if report.outcomes["json:ok"] < 3000:
        problems.append("fewer than 3000 json round trips")
    return problems


def replay(case):
    report = Report()
    if case.get("kind") == "timedelta":
        return next(iter(td_shard((case["us"], case["us"] + 1, [case["days"]], [case["seconds"]])).violations.values()),
                    {"what": None})["what"]
    if case.get("kind") == "extra":
        from checks import c01_extra
        return c01_extra.replay(case)
    if case.get("kind") != "types":
        from checks import c01_models
        return c01_models.replay(case)
    roundtrip_type(from_json(case["type"]), report)
    for v in report.violations.values():
        return v["what"]
    return None
