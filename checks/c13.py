"""C13 - a generated converter equals the field-wise construction the linking rules fix.

Generated converter programs: a source model with fields S of {a,b,c}, a destination model with fields D of {a,b,c,d}
(kept / dropped / added fields), field types drawn from a table of (source type, destination type) pairs, 0-2 extra
converter parameters (names d, a, q: `a` shadows a source field, `d` names an added destination field), and a recipe of
length <= 2 over the public providers, every predicate written unambiguously (P[Src].x, P[Dst].y, from_param("p"), exact
types).  Every program is built through the real facade (get_converter / impl_converter / convert / ConversionRetort),
run on 3 source objects (and 3 vectors of extra arguments) and compared, type-exactly, with the destination constructed
field-wise by the independent linking model of mc/ref_conv.py.  Also checked: creation succeeds exactly when the model
says every destination field is linkable and coercible, the source object is left unchanged, impl_converter keeps the
stub's signature and name, link_constant(factory=) hands a fresh mutable object to every result.
"""
import copy
import enum
import inspect
import itertools
import linecache
from dataclasses import dataclass, field, make_dataclass
from decimal import Decimal
from fractions import Fraction
from typing import Generic, List, NamedTuple, NotRequired, TypedDict, TypeVar

import attrs

from adaptix import P, ProviderNotFoundError
from adaptix.conversion import (
    ConversionRetort,
    allow_unlinked_optional,
    coercer,
    convert,
    forbid_unlinked_optional,
    from_param,
    get_converter,
    impl_converter,
    link,
    link_constant,
    link_function,
)

from mc import parallel
from mc import ref_conv as R
from mc.ref_conv import ANY, INT, NO, STR, UNSPEC, YES, Env, FieldSpec, FuncSpec, ModelSpec, opt
from mc.report import Report

META = {
    "level": "exploration",
    "rule": (
        "cases = converter programs (field sets, default mask, type profile, extra parameters, recipe, model kinds, entry "
        "point), all enumerated family by family (see bound); each produced converter is executed on 3 source objects; a "
        "program is non-trivial when the reference model gives a definite verdict (producible and unambiguous, or not "
        "producible); programs whose result the documentation leaves open (an explicit link whose source predicate "
        "selects nothing; several as-is/structural rules applicable with different results) are counted as skipped"
    ),
    "assumptions": [
        "mc/ref_conv.py transcribes 'Fields linking', 'Linking algorithm', 'Type coercion' of docs/conversion/tutorial.rst and "
        "'Link function', 'Link constant', 'Using default value for fields', 'What is a recipe really?', "
        "'Eliminating recipe duplication' of extended-usage.rst",
        "source predicates of link() always select exactly one source (P[Src].x or from_param) - the search order between "
        "fields and parameters for a predicate matching both is ambiguous in the tutorial and is not exercised",
        "functions handed to link / link_function / coercer / link_constant(factory=) are pure and shared by the reference",
        "small scope: <=3 source fields, <=4 destination fields, recipes of length <=2, 4 value vectors per program (the last one all zero / empty)",
    ],
    "bound": {
        "quick": "shapes S in subsets{a,b} x D in subsets{a,b,d}; F1 default linking + policies x 10 parameter lists x 5 type "
                 "profiles; F2 every recipe of length 1 over the full alphabet x 3 parameter lists x 5 profiles; F3 recipes of "
                 "length 2 over the core alphabet (both orders for elements competing for one destination, one order "
                 "otherwise) x 2 parameter lists x 2 profiles; F4 the 15 other ordered kind pairs of {dataclass, NamedTuple, "
                 "TypedDict, attrs} (+ dataclass->dataclass with a leading optional field) on the 2-field core x recipes of "
                 "length <=1; F5 10 entry points x 3 parameter styles on 3 shapes, recipes <=1 (length 2 on the core "
                 "shape); F6 25 constants + 12 factories x 5 positions x 4 destination kinds",
        "thorough": "shapes S in subsets{a,b,c} x D in subsets{a,b,c,d}; F1 x all 28 type profiles; F2 x 4 parameter lists x 18 "
                    "profiles; F3 both orders of every pair, full alphabet on shapes with <=2 destination fields, 4 profiles; "
                    "F4 x 14 profiles x 5 cores; F5 x 5 profiles; F6 as quick",
    },
}

# ------------------------------------------------------------------------------------------------------------
# static nested / generic models (dataclasses)


@dataclass
class Inner:
    a: int
    d: int


@dataclass
class InnerDTO:
    a: int
    d: int


@dataclass
class InnerX:
    a: int


@dataclass
class InnerXDTO:
    a: int
    d: int


T = TypeVar("T")


@dataclass
class Box(Generic[T]):
    v: T


@dataclass
class BoxDTO(Generic[T]):
    v: T


STATIC_SPECS = {
    "Inner": ModelSpec("Inner", (FieldSpec("a", INT), FieldSpec("d", INT))),
    "InnerDTO": ModelSpec("InnerDTO", (FieldSpec("a", INT), FieldSpec("d", INT))),
    "InnerX": ModelSpec("InnerX", (FieldSpec("a", INT),)),
    "InnerXDTO": ModelSpec("InnerXDTO", (FieldSpec("a", INT), FieldSpec("d", INT))),
    "Box": ModelSpec("Box", (FieldSpec("v", ("T",)),), generic=True),
    "BoxDTO": ModelSpec("BoxDTO", (FieldSpec("v", ("T",)),), generic=True),
}
STATIC_CLASSES = {"Inner": Inner, "InnerDTO": InnerDTO, "InnerX": InnerX, "InnerXDTO": InnerXDTO, "Box": Box,
                  "BoxDTO": BoxDTO}

tInner, tInnerDTO = ("Model", "Inner"), ("Model", "InnerDTO")
tInnerX, tInnerXDTO = ("Model", "InnerX"), ("Model", "InnerXDTO")
LI = ("List", INT)

# (source type, destination type) of a field
TYPE_PAIRS = [
    (INT, INT),                                            # 0
    (tInner, tInnerDTO),                                   # 1 nested model
    (LI, ("TupleVar", INT)),                               # 2 element-wise into another concrete type
    (STR, STR),                                            # 3
    (("GModel", "Box", INT), ("GModel", "BoxDTO", INT)),   # 4 generic model
    (opt(INT), opt(INT)),                                  # 5
    (("List", tInner), ("List", tInnerDTO)),               # 6
    (INT, opt(INT)),                                       # 7 union subset, as is
    (("Dict", STR, INT), ("Dict", STR, INT)),              # 8
    (tInnerX, tInnerXDTO),                                 # 9 nested model whose DTO has a field without source
    (opt(tInner), opt(tInnerDTO)),                         # 10
    (LI, LI),                                              # 11
    (("Dict", STR, tInner), ("Dict", STR, tInnerDTO)),     # 12
    (INT, STR),                                            # 13 needs a user coercer
    (opt(LI), opt(("TupleVar", INT))),                     # 14 real coercion below Optional (falsy [] must still become ())
    (("Dict", STR, tInner), ("Dict", STR, tInner)),        # 15 equal types: still item by item (links inside Inner, coercers)
]
NTP = len(TYPE_PAIRS)
FIELD_ORDER = "abcd"
# profile ("U", i): every field has type pair i;  ("R", i): field a,b,c,d have pairs i, i+1, i+2, i+3 (mod NTP)
ALL_PROFILES = [("U", i) for i in range(NTP)] + [("R", i) for i in range(NTP)]
QUICK_PROFILES = [("U", 0), ("U", 9), ("R", 1), ("R", 5), ("R", 12), ("U", 14)]


def pair_of(profile, name):
    mode, i = profile
    return TYPE_PAIRS[i if mode == "U" else (i + FIELD_ORDER.index(name)) % NTP]


def param_type(profile, pname):
    return INT if pname == "q" else pair_of(profile, pname)[0]


# ------------------------------------------------------------------------------------------------------------
# values

BASE = {"a": 10, "b": 20, "c": 30, "d": 40, "q": 50}


ZERO_VECTOR = 3


def value_of(ts, n, k):  # noqa: C901, PLR0911
    """the k-th value (k = 0, 1, 2) of a type built around the distinguishing integer n"""
    head = ts[0]
    if k == ZERO_VECTOR:
        # the falsy, non-None value of every type (0, '', empty containers): what `x and f(x)` / `x or default` get wrong
        if head == "int":
            return 0
        if head == "str":
            return ""
        if head == "Union":
            return value_of(R.not_none(ts), n, k)
        if head == "List":
            return []
        if head == "Dict":
            return {}
    if head == "int":
        return n + k
    if head == "str":
        return f"s{n + k}"
    if head == "Union":      # Optional[X]
        return None if k == 1 else value_of(R.not_none(ts), n, k)
    if head == "List":
        return [] if k == 2 else [value_of(ts[1], n, k), value_of(ts[1], n + 5, k)]  # noqa: PLR2004
    if head == "Dict":
        return {} if k == 2 else {f"k{n}": value_of(ts[2], n, k), "z": value_of(ts[2], n + 5, k)}  # noqa: PLR2004
    if head == "Model":
        if ts[1] == "Inner":
            return Inner(a=n + k, d=n + k + 3)
        if ts[1] == "InnerX":
            return InnerX(a=n + k)
    if head == "GModel":
        return Box(v=value_of(ts[2], n, k))
    raise ValueError(ts)


# ------------------------------------------------------------------------------------------------------------
# objects used by recipes


class Num(enum.IntEnum):
    ONE = 1
    TWO = 2


CONSTS = {
    "7": 7, "x": "x", "None": None, "True": True, "1.0": 1.0, "list": [1, [2]],
    "Decimal1": Decimal("1"), "Decimal0": Decimal("0"), "Fraction1": Fraction(1), "complex1": 1 + 0j, "IntEnum": Num.ONE,
    "tuple1": (1,), "range3": range(3), "slice15": slice(1, 5),
    "tuple2": (1, "a"), "dict": {"k": (1, 2)}, "nested_tuple1": [(1,)], "set": {1, 2}, "bytes": b"ab", "inf": float("inf"), "Decimal2.5": Decimal("2.5"),
    "Ellipsis": ..., "type": int, "big": 10 ** 30, "frozenset": frozenset({1}),
}


def _fresh7():
    return [7]


def _fresh_dec():
    return [Decimal("1.5")]      # mutable and not renderable as a literal


FACTORIES = {
    "list": list, "dict": dict, "tuple": tuple, "str": str, "bytes": bytes, "set": set, "NoneType": type(None),
    "fresh7": _fresh7, "fresh_dec": _fresh_dec, "lambda": lambda: {"k": 7}, "Decimal": Decimal, "int": int,
}


def k1(v):
    return ("k1", v)


def k2(v):
    return ("k2", v)


def _first(m):
    """first field of the source model whatever its kind"""
    for name in FIELD_ORDER:
        if isinstance(m, dict):
            if name in m:
                return m[name]
        elif hasattr(m, name):
            return getattr(m, name)
    return None


def fm(m):
    return ("fm", _snap(_first(m)))


def fp(m, q):
    return ("fp", q)


def fps(m, q: str):
    return ("fps", q)


def fpa(m, a):
    return ("fpa", _snap(a))


def fkw(m, *, a):
    return ("fkw", _snap(a))


def fkw0(*, a):
    return ("fkw0", _snap(a))


def fmix(m, q, *, a):
    return ("fmix", q, _snap(a))


def _snap(v):
    return copy.deepcopy(v)


FUNCS = {
    "fm": FuncSpec(fm, (("m", ANY),)),
    "fp": FuncSpec(fp, (("m", ANY), ("q", ANY))),
    "fps": FuncSpec(fps, (("m", ANY), ("q", STR))),
    "fpa": FuncSpec(fpa, (("m", ANY), ("a", ANY))),
    "fkw": FuncSpec(fkw, (("m", ANY),), (("a", ANY),)),
    "fkw0": FuncSpec(fkw0, (), (("a", ANY),)),
    "fmix": FuncSpec(fmix, (("m", ANY), ("q", ANY)), (("a", ANY),)),
}
COERCERS = {"k1": k1, "k2": k2, "str": str}
OBJECTS = {**{f"const:{k}": v for k, v in CONSTS.items()}, **{f"factory:{k}": v for k, v in FACTORIES.items()},
           **{f"func:{k}": v for k, v in FUNCS.items()}, **{f"coercer:{k}": v for k, v in COERCERS.items()}}


# ------------------------------------------------------------------------------------------------------------
# program -> classes, specs, real recipe

KINDS = ["dataclass", "namedtuple", "typeddict", "attrs"]
_CLASS_CACHE = {}
ABSENT = R.NO_DEFAULT


def build_class(name, kind, fields, classes):
    """fields: (name, TypeSpec, default or NO_DEFAULT); cached"""
    key = (name, kind, tuple((n, ts, repr(d)) for n, ts, d in fields))
    if key in _CLASS_CACHE:
        return _CLASS_CACHE[key]
    hinted = [(n, R.to_hint(ts, classes), d) for n, ts, d in fields]
    if kind == "dataclass":
        cls = make_dataclass(name, [
            (n, h) if d is ABSENT else (n, h, field(default_factory=lambda d=d: copy.deepcopy(d))) for n, h, d in hinted
        ])
    elif kind == "namedtuple":
        ns = {"NamedTuple": NamedTuple, **{f"_h{i}": h for i, (_, h, _) in enumerate(hinted)},
              **{f"_d{i}": d for i, (_, _, d) in enumerate(hinted)}}
        body = "\n".join(f"    {n}: _h{i}" + ("" if d is ABSENT else f" = _d{i}") for i, (n, _, d) in enumerate(hinted))
        exec(f"class {name}(NamedTuple):\n{body or '    pass'}\n", ns)  # noqa: S102
        cls = ns[name]
    elif kind == "typeddict":
        cls = TypedDict(name, {n: (h if d is ABSENT else NotRequired[h]) for n, h, d in hinted})
    elif kind == "attrs":
        cls = attrs.make_class(name, {
            n: attrs.field(type=h) if d is ABSENT else attrs.field(type=h, factory=lambda d=d: copy.deepcopy(d))
            for n, h, d in hinted
        })
    else:
        raise ValueError(kind)
    _CLASS_CACHE[key] = cls
    return cls


def default_for(ts):
    """default value of a destination field of type ts (plain data only, so every model kind can hold it)"""
    head = ts[0]
    if head == "int":
        return 900
    if head == "str":
        return "dflt"
    if head == "Union":
        return None
    if head in ("List",):
        return [900]
    if head == "TupleVar":
        return (900,)
    if head == "Dict":
        return {}
    return None      # models: None stands in (defaults are not type checked by any model kind)


class Program:
    """one converter program; `case` is its JSON description (sufficient for replay)"""

    def __init__(self, case):
        self.case = case
        self.S = case["S"]
        self.D = case["D"]
        self.mask = case.get("mask", "none")
        self.profile = tuple(case["profile"])
        self.params = list(case.get("params", []))
        self.recipe = [_tuplify(e) for e in case.get("recipe", [])]
        self.kinds = case.get("kinds", ["dataclass", "dataclass"])
        self.entry = case.get("entry", "auto")
        self.style = case.get("style", "pos")
        self._build()

    def _build(self):
        classes = dict(STATIC_CLASSES)
        added = [n for n in self.D if n not in self.S]
        first_added = min((self.D.index(n) for n in added), default=len(self.D))
        src_fields = [(n, pair_of(self.profile, n)[0], ABSENT) for n in self.S]
        dst_fields = []
        for i, n in enumerate(self.D):
            ts = pair_of(self.profile, n)[1]
            has_default = self.mask == "all" or (self.mask == "added" and i >= first_added)
            dst_fields.append((n, ts, default_for(ts) if has_default else ABSENT))
        self.dst_defaults = {n: d for n, _, d in dst_fields if d is not ABSENT}
        classes["Src"] = build_class("Src", self.kinds[0], src_fields, classes)
        classes["Dst"] = build_class("Dst", self.kinds[1], dst_fields, classes)
        universe = dict(STATIC_SPECS)
        universe["Src"] = ModelSpec("Src", tuple(FieldSpec(n, ts) for n, ts, _ in src_fields), kind=self.kinds[0])
        universe["Dst"] = ModelSpec("Dst", tuple(FieldSpec(n, ts, d) for n, ts, d in dst_fields), kind=self.kinds[1])
        self.classes, self.universe = classes, universe
        self.param_specs = tuple((p, param_type(self.profile, p)) for p in self.params)
        self.env = Env(universe, self.recipe, self.param_specs, OBJECTS, classes)

    # ---- the real recipe
    def real_recipe(self):
        return [self._real(e) for e in self.recipe]

    def _pred(self, ref):
        if ref[0] == "param":
            return from_param(ref[1])
        if ref[0] == "type":
            return R.to_hint(ref[1], self.classes)
        return getattr(P[self.classes[ref[1]]], ref[2])

    def _real(self, e):  # noqa: PLR0911
        kind = e[0]
        if kind == "link":
            if e[3] is None:
                return link(self._pred(e[1]), self._pred(e[2]))
            return link(self._pred(e[1]), self._pred(e[2]), coercer=OBJECTS[e[3]])
        if kind == "const":
            return link_constant(self._pred(e[1]), value=OBJECTS[e[2]])
        if kind == "factory":
            return link_constant(self._pred(e[1]), factory=OBJECTS[e[2]])
        if kind == "func":
            return link_function(OBJECTS[e[2]].fn, self._pred(e[1]))
        if kind == "coercer":
            return coercer(self._pred(e[1]), self._pred(e[2]), OBJECTS[e[3]])
        if kind in ("allow", "forbid"):
            fn = allow_unlinked_optional if kind == "allow" else forbid_unlinked_optional
            return fn() if e[1] is None else fn(self._pred(e[1]))
        raise ValueError(e)

    # ---- values
    def source(self, k):
        vals = {n: value_of(pair_of(self.profile, n)[0], BASE[n], k) for n in self.S}
        return self.classes["Src"](**vals)

    def extra(self, k):
        return {p: value_of(ts, BASE[p] + 100, k) for p, ts in self.param_specs}

    # ---- building the converter through the chosen entry point
    def stub(self):
        ns = {"_S": self.classes["Src"], "_R": self.classes["Dst"]}
        parts = ["src: _S"]
        for i, (p, ts) in enumerate(self.param_specs):
            ns[f"_h{i}"] = R.to_hint(ts, self.classes)
            if self.style == "kwonly" and i == 0:
                parts.append("*")
            text = f"{p}: _h{i}"
            if self.style == "default" and p == "q":
                text += " = 150"
            parts.append(text)
        # parameters with defaults must come last
        if self.style == "default":
            head = [x for x in parts if "=" not in x]
            parts = head + [x for x in parts if "=" in x]
        exec(f"def conv({', '.join(parts)}) -> _R: ...", ns)  # noqa: S102
        return ns["conv"]

    def create(self):
        """-> ('ok', callable(src_obj, extra_dict, k) -> result, converter_or_None, stub_or_None) | ('refused', text) | ('error', cls, text)"""
        recipe = self.real_recipe()
        entry = self.entry
        if entry == "auto":
            entry = "impl_converter" if self.params else "get_converter"
        src_cls, dst_cls = self.classes["Src"], self.classes["Dst"]
        try:
            stub = None
            if entry == "get_converter":
                conv = get_converter(src_cls, dst_cls, recipe=recipe)
            elif entry == "get_converter_named":
                conv = get_converter(src_cls, dst_cls, recipe=recipe, name="my_conv")
            elif entry == "retort_ctor":
                conv = ConversionRetort(recipe=recipe).get_converter(src_cls, dst_cls)
            elif entry == "retort_extend":
                conv = ConversionRetort(recipe=recipe[1:]).extend(recipe=recipe[:1]).get_converter(src_cls, dst_cls)
            elif entry == "retort_method_recipe":
                conv = ConversionRetort(recipe=recipe[1:]).get_converter(src_cls, dst_cls, recipe=recipe[:1])
            elif entry == "retort_extend_twice":
                r = ConversionRetort().extend(recipe=recipe[1:]).extend(recipe=recipe[:1])
                conv = r.get_converter(src_cls, dst_cls)
            elif entry == "convert":
                conv = None
                # convert() builds (and caches) the converter at call time: force creation now with a real object
                convert(self.source(0), dst_cls, recipe=recipe)
            elif entry == "retort_convert":
                conv = None
                self._retort = ConversionRetort(recipe=recipe)
                self._retort.convert(self.source(0), dst_cls)
            elif entry == "impl_converter":
                stub = self.stub()
                conv = impl_converter(recipe=recipe)(stub) if recipe else impl_converter(stub)
            elif entry == "retort_impl_converter":
                stub = self.stub()
                conv = ConversionRetort(recipe=recipe[1:]).impl_converter(recipe=recipe[:1])(stub)
            else:
                raise ValueError(entry)
        except ProviderNotFoundError as e:
            return ("refused", str(e)[:160])
        except Exception as e:  # noqa: BLE001
            return ("error", type(e).__name__, str(e)[:200])

        if entry == "convert":
            return ("ok", lambda s, extra, k: convert(s, dst_cls, recipe=recipe), None, None)
        if entry == "retort_convert":
            return ("ok", lambda s, extra, k: self._retort.convert(s, dst_cls), None, None)

        def call(s, extra, k):
            if not extra:
                return conv(s)
            args = dict(extra)
            if self.style == "default":
                args.pop("q", None)       # the stub's default (150) is used
                return conv(s, **args) if k == 2 else conv(s, *args.values())  # noqa: PLR2004
            if self.style == "kwonly" or k == 1:
                return conv(s, **extra)
            if k == 0:
                return conv(s, *args.values())
            first = next(iter(args))
            return conv(s, args.pop(first), **args)

        return ("ok", call, conv, stub)

    def expected_extra(self, k):
        extra = self.extra(k)
        if self.style == "default" and "q" in extra:
            extra["q"] = 150
        return extra


def _tuplify(x):
    return tuple(_tuplify(i) for i in x) if isinstance(x, (list, tuple)) else x


# ------------------------------------------------------------------------------------------------------------
# evaluation of one program

def _nested_element(prog, fname):
    """the recipe element aimed at a nested model that occurs inside destination field `fname`"""
    ts = prog.universe["Dst"].field(fname).type
    for e in prog.recipe:
        t = target_of(e)
        if len(t) == 3 and t[1] != "Dst" and _mentions(ts, t[1]):  # noqa: PLR2004
            return e
    return None


def feature_of(prog, fname):
    """which provider kind serves destination field `fname` according to the reference (names the signature)"""
    fld = prog.universe["Dst"].field(fname)
    nested = _nested_element(prog, fname)
    if nested is not None:
        name = {"const": "link_constant(value=)", "factory": "link_constant(factory=)", "func": "link_function",
                "link": "link(from_param)"}.get(nested[0], nested[0])
        return name + " inside a nested model"
    lk = R.find_link(prog.env, ("Model", "Src"), "Dst", fld, True)
    if lk is None:
        return "unlinked optional field (constructor default)"
    if lk.kind == "const":
        return "link_constant(value=)"
    if lk.kind == "factory":
        return "link_constant(factory=)"
    if lk.kind == "func":
        return "link_function"
    explicit = any(e[0] == "link" and e[2] == ("field", "Dst", fname) for e in prog.recipe)
    if lk.kind == "param":
        return "link(from_param)" if explicit else "default linking: extra parameter"
    if lk.coercer is not None:
        return "link(coercer=)"
    return "link" if explicit else "default linking: source field"


def const_detail(prog, fname):
    nested = _nested_element(prog, fname)
    for e in prog.recipe:
        if e[0] == "const" and (e[1] == ("field", "Dst", fname) or e is nested):
            v = OBJECTS[e[2]]
            t = type(v)
            if t not in (bool, int, float) and not isinstance(v, (str, bytes)) and _eq_bool(v):
                return "non-builtin value equal to True/False"
            if _has_tuple1(v):
                return "one-element tuple"
            return t.__name__
        if e[0] == "factory" and (e[1] == ("field", "Dst", fname) or e is nested):
            return e[2]
    return None


def _has_tuple1(v):
    if type(v) is tuple and len(v) == 1:
        return True
    if type(v) in (list, tuple, set, frozenset):
        return any(_has_tuple1(x) for x in v)
    if type(v) is dict:
        return any(_has_tuple1(x) for kv in v.items() for x in kv)
    return False


def _eq_bool(v):
    try:
        return v == True or v == False  # noqa: E712
    except Exception:  # noqa: BLE001
        return False


def recipe_features(prog):
    kinds = []
    for e in prog.recipe:
        k = e[0]
        if k == "link":
            k = "link(from_param)" if e[1][0] == "param" else ("link(coercer=)" if e[3] else "link")
        kinds.append(k)
    return "+".join(kinds) or "default linking"


def evaluate(case, report):  # noqa: C901, PLR0912, PLR0915
    prog = Program(case)
    env = prog.env
    ref = R.converter(env, ("Model", "Src"), ("Model", "Dst"))
    out = prog.create()
    key = _key(case)
    definite = ref.verdict != UNSPEC and not ref.ambiguous
    report.case(key, nontrivial=definite, sample=lambda: {**case, "reference": ref.verdict, "impl": out[0]})
    report.outcome(f"{case['family']}: ref={ref.verdict},impl={out[0]}")
    entry = prog.entry if prog.entry != "auto" else ("impl_converter" if prog.params else "get_converter")
    report.outcome(f"entry={entry}")
    text = describe_program(prog)
    if out[0] == "error":
        report.violation({"check": "C13", "problem": "creation_error", "exc": out[1], "feature": recipe_features(prog)},
                         f"{text}: creation raised {out[1]}: {out[2]}", case)
        return
    if not definite:
        report.skip("reference UNSPEC/ambiguous: " + (ref.rule if ref.verdict == UNSPEC else "several rules with different results"))
        return
    if ref.verdict == YES and out[0] == "refused":
        report.violation({"check": "C13", "problem": "refused_linkable_program", "feature": recipe_features(prog)},
                         f"{text}: creation refused although every destination field is linkable and coercible: {out[1]}", case)
        return
    if ref.verdict == NO and out[0] == "ok":
        report.violation({"check": "C13", "problem": "accepted_unlinkable_program", "feature": recipe_features(prog),
                          "rule": ref.rule},
                         f"{text}: converter produced although the linking model finds no source/coercer ({ref.rule})", case)
        return
    if out[0] != "ok":
        return
    _, call, conv, stub = out
    if stub is not None:
        report.outcome("signature checked")
        if inspect.signature(conv) != inspect.signature(stub):
            report.violation({"check": "C13", "problem": "signature_not_preserved", "feature": "impl_converter"},
                             f"{text}: inspect.signature(conv)={inspect.signature(conv)} but stub {inspect.signature(stub)}", case)
        if conv.__name__ != stub.__name__:
            report.violation({"check": "C13", "problem": "name_not_preserved", "feature": "impl_converter"},
                             f"{text}: __name__ {conv.__name__!r} != {stub.__name__!r}", case)
    if entry == "get_converter_named" and conv.__name__ != "my_conv":
        report.violation({"check": "C13", "problem": "name_not_preserved", "feature": "get_converter(name=)"},
                         f"{text}: __name__ {conv.__name__!r} != 'my_conv'", case)
    factory_fields = [f.name for f in prog.universe["Dst"].fields
                      if (lk := R.find_link(env, ("Model", "Src"), "Dst", f, True)) is not None and lk.kind == "factory"]
    produced = {}
    for k in range(4):
        src_obj = prog.source(k)
        before = R.describe_as(env, src_obj, "Src")
        extra = prog.extra(k)
        report.evaluations += 1
        try:
            expected = ref.fn(prog.source(k), prog.expected_extra(k))
        except Exception as e:  # noqa: BLE001
            raise RuntimeError(f"reference failed on {case}: {type(e).__name__}: {e}") from e
        want = _describe_expected(prog, expected)
        try:
            res = call(src_obj, extra, k)
        except Exception as e:  # noqa: BLE001
            report.outcome("run=exception")
            report.violation({"check": "C13", "problem": "runtime_error", "exc": type(e).__name__,
                              "feature": recipe_features(prog)},
                             f"{text}: converter raised {type(e).__name__}: {e} on value vector {k}", {**case, "k": k})
            continue
        after = R.describe_as(env, src_obj, "Src")
        if before != after:
            report.violation({"check": "C13", "problem": "source_modified", "feature": recipe_features(prog)},
                             f"{text}: source object changed from {before} to {after}", {**case, "k": k})
        dst_cls = prog.classes["Dst"]
        if type(res) is not (dict if prog.kinds[1] == "typeddict" else dst_cls):
            report.violation({"check": "C13", "problem": "wrong_result_class", "feature": prog.kinds[1]},
                             f"{text}: result is a {type(res).__name__}", {**case, "k": k})
            continue
        got = R.describe_as(env, res, "Dst")
        for name in factory_fields:
            # extended-usage.rst: "To pass mutable objects you can use factory parameter" - every call gets its own object
            val = res[name] if isinstance(res, dict) else getattr(res, name)
            if isinstance(val, (list, dict, set)):
                if any(val is old for old in produced.get(name, ())):
                    report.violation({"check": "C13", "problem": "factory_result_shared", "feature": "link_constant(factory=)"},
                                     f"{text}: field {name!r} holds the very same mutable object in two results", {**case, "k": k})
                produced.setdefault(name, []).append(val)
                report.outcome("factory freshness checked")
        if got == want:
            report.outcome("run=equal")
            continue
        report.outcome("run=differs")
        bad = _first_diff(got, want)
        feature = feature_of(prog, bad) if bad else recipe_features(prog)
        sig = {"check": "C13", "problem": "wrong_value", "feature": feature}
        detail = const_detail(prog, bad) if bad else None
        if detail:
            sig["detail"] = detail
        report.violation(sig, f"{text}: field {bad!r} of the result differs on value vector {k}: got {_short(got, bad)} "
                              f"expected {_short(want, bad)}", {**case, "k": k})


def _describe_expected(prog, expected):
    """RefObj -> description; an unlinked optional TypedDict key is simply absent"""
    d = R.describe(prog.env, expected)
    if prog.kinds[1] == "typeddict":
        skipped = {f.name for f in prog.universe["Dst"].fields if f.has_default
                   and R.find_link(prog.env, ("Model", "Src"), "Dst", f, True) is None}
        return (d[0], d[1], tuple((n, v) for n, v in d[2] if n not in skipped))
    return d


def _first_diff(got, want):
    g, w = dict(got[2]), dict(want[2])
    for name in FIELD_ORDER:
        if g.get(name) != w.get(name):
            return name
    return None


def _short(desc, name):
    return repr(dict(desc[2]).get(name, "<absent>"))[:150] if name else repr(desc)[:200]


def _key(case):
    return repr(sorted((k, repr(v)) for k, v in case.items()))


def describe_program(prog):
    src = ", ".join(f"{n}: {R.show(pair_of(prog.profile, n)[0])}" for n in prog.S)
    dst = ", ".join(f"{n}: {R.show(pair_of(prog.profile, n)[1])}" + (" = <default>" if n in prog.dst_defaults else "")
                    for n in prog.D)
    params = ", ".join(f"{p}: {R.show(ts)}" for p, ts in prog.param_specs)
    rec = ", ".join(show_element(e) for e in prog.recipe)
    kinds = "" if prog.kinds == ["dataclass", "dataclass"] else f" kinds={prog.kinds[0]}->{prog.kinds[1]}"
    entry = "" if prog.entry == "auto" else f" entry={prog.entry}"
    style = "" if prog.style == "pos" else f" params:{prog.style}"
    return f"Src({src}) -> Dst({dst}) extra({params}) recipe[{rec}]{kinds}{entry}{style}"


def show_ref(ref):
    if ref is None:
        return ""
    if ref[0] == "param":
        return f"from_param({ref[1]!r})"
    if ref[0] == "type":
        return R.show(ref[1])
    return f"P[{ref[1]}].{ref[2]}"


def show_element(e):
    k = e[0]
    if k == "link":
        return f"link({show_ref(e[1])}, {show_ref(e[2])}" + (f", coercer={e[3].split(':')[1]})" if e[3] else ")")
    if k == "const":
        return f"link_constant({show_ref(e[1])}, value={OBJECTS[e[2]]!r})"
    if k == "factory":
        return f"link_constant({show_ref(e[1])}, factory={e[2].split(':')[1]})"
    if k == "func":
        return f"link_function({e[2].split(':')[1]}, {show_ref(e[1])})"
    if k == "coercer":
        return f"coercer({show_ref(e[1])}, {show_ref(e[2])}, {e[3].split(':')[1]})"
    return f"{k}_unlinked_optional({show_ref(e[1])})"


# ------------------------------------------------------------------------------------------------------------
# enumeration

def subsets(names):
    out = []
    for n in range(1, len(names) + 1):
        out += ["".join(c) for c in itertools.combinations(names, n)]
    return out


PARAM_LISTS = [[], ["d"], ["a"], ["q"], ["a", "d"], ["d", "a"], ["q", "d"], ["d", "q"], ["a", "q"], ["q", "a"]]
PARAM_LISTS_RECIPE = [[], ["q"], ["d", "q"], ["q", "a"]]


def shapes(tier_small):
    s_names, d_names = ("ab", "abd") if tier_small else ("abc", "abcd")
    return [(s, d) for s in subsets(s_names) for d in subsets(d_names)]


SMALL_SHAPES = set(shapes(True))


def masks_for(S, D):
    added = [n for n in D if n not in S]
    return ["none", "added", "all"] if added else ["none", "all"]


def nested_targets(profile, D):
    """destination references inside nested models present in the destination"""
    out = []
    for n in D:
        ts = pair_of(profile, n)[1]
        for name in ("InnerDTO", "InnerXDTO", "Inner"):
            if _mentions(ts, name) and ("field", name, "d") not in out:
                out.append(("field", name, "d"))
    return out


def _mentions(ts, name):
    return ts == ("Model", name) or any(isinstance(x, tuple) and x and isinstance(x[0], str) and _mentions(x, name)
                                        for x in ts[1:])


def alphabet(S, D, profile, params, core):
    """recipe elements that make sense for a program (targets exist, sources exist)"""
    els = []
    dst = [("field", "Dst", y) for y in D]
    nested = nested_targets(profile, D)
    added = [y for y in D if y not in S]
    focus = (added or [D[0]])[:1] + ([D[0]] if added and D[0] not in added else [])   # core targets: first added + first field
    for y in D:
        if core and y not in focus:
            continue
        t = ("field", "Dst", y)
        for x in S:
            els.append(("link", ("field", "Src", x), t, None))
            if not core or x != y:
                els.append(("link", ("field", "Src", x), t, "coercer:k1"))
        els.append(("const", t, "const:7"))
        els.append(("factory", t, "factory:fresh7"))
        core_funcs = ["fm", "fkw"] + (["fp", "fps"] if "q" in params and y == focus[0] else [])
        for f in (core_funcs if core else ["fm", "fp", "fps", "fpa", "fkw", "fkw0", "fmix"]):
            els.append(("func", t, f"func:{f}"))
        for p in params:
            els.append(("link", ("param", p), t, None))
            if not core:
                els.append(("link", ("param", p), t, "coercer:k1"))
        els.append(("allow", t))
        if not core:
            els.append(("forbid", t))
    for t in nested:
        els.append(("const", t, "const:7"))
        for p in params:
            els.append(("link", ("param", p), t, None))
        if not core:
            els.append(("factory", t, "factory:fresh7"))
            els.append(("func", t, "func:fm"))
            els.append(("allow", t))
    els.append(("allow", None))
    els.append(("coercer", ("type", INT), ("type", STR), "coercer:str"))
    # a coercer between equal types: acts at every depth at which an int meets an int (also below containers of equal type)
    els.append(("coercer", ("type", INT), ("type", INT), "coercer:k1"))
    if not core:
        els.append(("forbid", None))
        for y in D:
            if y in S:
                els.append(("coercer", ("field", "Src", y), ("field", "Dst", y), "coercer:k2"))
    _ = dst
    return els


F2_PROFILES = [("U", i) for i in range(NTP)] + [("R", 0), ("R", 4), ("R", 7), ("R", 10)]
F3_PROFILES = [("U", 0), ("U", 1), ("R", 0), ("R", 7)]
F4_PROFILES = [("U", i) for i in range(NTP)]


def gen_f1(tier):
    """default linking and policies, every parameter list"""
    profiles = QUICK_PROFILES if tier == "quick" else ALL_PROFILES
    for S, D in shapes(tier == "quick"):
        added = [n for n in D if n not in S]
        for mask in masks_for(S, D):
            policies = [[]]
            if mask != "none":
                policies.append([("allow", None)])
                if added:
                    t = ("field", "Dst", added[0])
                    policies += [[("allow", t)], [("forbid", t), ("allow", None)]]
            for params in PARAM_LISTS:
                for pol in policies:
                    for profile in profiles:
                        yield {"family": "F1", "S": S, "D": D, "mask": mask, "params": params, "profile": list(profile),
                               "recipe": [list(e) for e in pol]}


def gen_f2(tier):
    """every recipe of length 1 over the full alphabet"""
    profiles = QUICK_PROFILES if tier == "quick" else F2_PROFILES
    for S, D in shapes(tier == "quick"):
        has_added = bool([n for n in D if n not in S])
        for params in (PARAM_LISTS_RECIPE[:3] if tier == "quick" else PARAM_LISTS_RECIPE):
            for profile in profiles:
                masks = ["none"]
                if has_added and (tier == "thorough" and profile in (("U", 0), ("R", 0)) or tier == "quick" and profile == ("U", 0)):
                    masks.append("added")
                for mask in masks:
                    for e in alphabet(S, D, profile, params, core=False):
                        if e[0] in ("allow", "forbid") and mask == "none":
                            continue     # no optional field: covered by F1
                        yield {"family": "F2", "S": S, "D": D, "mask": mask, "params": params, "profile": list(profile),
                               "recipe": [_listify(e)]}


def target_of(e):
    if e[0] == "link":
        return e[2]
    if e[0] in ("const", "factory", "func"):
        return e[1]
    if e[0] in ("allow", "forbid"):
        return ("policy",)
    return ("coercer",)


def gen_f3(tier):
    """recipes of length 2: every ordered pair of elements competing for the same destination field (or both policies /
    both coercers), one order for elements with different destinations (the quick tier; the thorough tier takes both
    orders); core alphabet, the full alphabet on shapes with <= 2 destination fields in the thorough tier"""
    profiles = QUICK_PROFILES[:2] if tier == "quick" else F3_PROFILES
    for S, D in shapes(tier == "quick"):
        has_added = bool([n for n in D if n not in S])
        for params in [[], ["d", "q"]]:
            for profile in profiles:
                full = tier == "thorough" and (S, D) in SMALL_SHAPES and len(D) <= 2  # noqa: PLR2004
                els = alphabet(S, D, profile, params, core=not full)
                masks = ["none"] + (["added"] if has_added and profile == ("U", 0) else [])
                for mask in masks:
                    for i, e1 in enumerate(els):
                        for j, e2 in enumerate(els):
                            if i == j:
                                continue
                            if mask == "none" and e1[0] in ("allow", "forbid") and e2[0] in ("allow", "forbid"):
                                continue
                            if tier == "quick" and j < i and target_of(e1) != target_of(e2):
                                continue
                            yield {"family": "F3", "S": S, "D": D, "mask": mask, "params": params,
                                   "profile": list(profile), "recipe": [_listify(e1), _listify(e2)]}


def gen_f4(tier):
    """all ordered pairs of model kinds on the 2-field core (and the core plus one added field)"""
    profiles = QUICK_PROFILES[:2] if tier == "quick" else F4_PROFILES
    cores = [("ab", "ab", "none"), ("ab", "abd", "added"), ("ab", "dab", "added")]
    if tier == "thorough":
        cores += [("ab", "abd", "none"), ("ab", "ab", "all")]
    for ks in KINDS:
        for kd in KINDS:
            for S, D, mask in cores:
                if (ks, kd) == ("dataclass", "dataclass") and D != "dab":
                    continue    # covered by F1-F3
                for profile in profiles:
                    for params in ([], ["d"], ["q", "a"]):
                        recipes = [[]] + [[e] for e in alphabet(S, D, profile, params, core=True)]
                        for rec in recipes:
                            yield {"family": "F4", "S": S, "D": D, "mask": mask, "params": params, "profile": list(profile),
                                   "recipe": [_listify(e) for e in rec], "kinds": [ks, kd]}


ENTRIES_NO_PARAMS = ["get_converter", "get_converter_named", "impl_converter", "retort_impl_converter", "convert",
                     "retort_convert", "retort_ctor", "retort_extend", "retort_method_recipe", "retort_extend_twice"]
ENTRIES_PARAMS = ["impl_converter", "retort_impl_converter"]
STYLES = ["pos", "kwonly", "default"]


def gen_f5(tier):
    """every entry point x parameter style on a fixed family of programs (recipes of length <= 1; length 2 on the core shape)"""
    profiles = QUICK_PROFILES[:1] if tier == "quick" else QUICK_PROFILES
    for S, D in (("ab", "abd"), ("a", "ad"), ("ab", "ab")):
        for profile in profiles:
            for params in ([], ["q"], ["d", "q"], ["q", "a"]):
                els = alphabet(S, D, profile, params, core=True)
                recs = [[]] + [[e] for e in els]
                if (S, D) == ("ab", "abd") and (profile == ("U", 0) or tier == "thorough"):
                    recs += [[e1, e2] for i, e1 in enumerate(els) for j, e2 in enumerate(els)
                             if i != j and e1[0] != e2[0] and (target_of(e1) == target_of(e2) or i < j)]
                for rec in recs:
                    entries = ENTRIES_PARAMS if params else ENTRIES_NO_PARAMS
                    for entry in entries:
                        for style in (STYLES if params else ["pos"]):
                            if style == "default" and "q" not in params:
                                continue
                            yield {"family": "F5", "S": S, "D": D, "mask": "none", "params": params,
                                   "profile": list(profile), "recipe": [_listify(e) for e in rec], "entry": entry,
                                   "style": style}


def gen_f6(tier):
    """every constant and factory x position of the constructor call x destination kind"""
    for kd in KINDS:
        for cid in [f"const:{k}" for k in CONSTS] + [f"factory:{k}" for k in FACTORIES]:
            kind = cid.split(":")[0]
            for S, D, target, profile in (("ab", "dab", ("field", "Dst", "d"), ("U", 0)),
                                          ("ab", "abd", ("field", "Dst", "d"), ("U", 0)),
                                          ("ab", "ab", ("field", "Dst", "a"), ("U", 0)),
                                          ("ab", "ab", ("field", "InnerXDTO", "d"), ("U", 9)),
                                          ("ab", "ab", ("field", "InnerDTO", "d"), ("U", 6))):
                for mask in ("none", "all"):
                    yield {"family": "F6", "S": S, "D": D, "mask": mask, "params": [], "profile": list(profile),
                           "recipe": [[kind, list(target), cid]], "kinds": ["dataclass", kd]}
                # the same constant next to another one (name mangling of the generated namespace)
                if target[1] == "Dst" and D != "ab":
                    other = "const:Decimal2.5" if cid != "const:Decimal2.5" else "const:x"
                    yield {"family": "F6", "S": S, "D": D, "mask": "none", "params": [], "profile": list(profile),
                           "recipe": [[kind, list(target), cid], ["const", ["field", "Dst", "a"], other]],
                           "kinds": ["dataclass", kd]}


def _listify(x):
    return [_listify(i) for i in x] if isinstance(x, (list, tuple)) else x


FAMILIES = {"F1": gen_f1, "F2": gen_f2, "F3": gen_f3, "F4": gen_f4, "F5": gen_f5, "F6": gen_f6}
N_SHARDS = 64


def shard_run(shard):
    family, tier, idx = shard
    report = Report()
    n = 0
    for i, case in enumerate(FAMILIES[family](tier)):
        if i % N_SHARDS != idx:
            continue
        evaluate(case, report)
        n += 1
        if n % 300 == 0:
            linecache.clearcache()
    report.count(f"programs_{family}", n)
    linecache.clearcache()
    return report


# ------------------------------------------------------------------------------------------------------------
# places leg: ONE pair of nested models at several places of one converter, with rules addressed by the place

@dataclass
class PPerson:
    name: str
    nick: str


@dataclass
class PPersonDTO:
    name: str
    role: str


@dataclass
class PBook:
    title: str
    author: PPerson
    editor: PPerson
    second_author: PPerson


@dataclass
class PBookDTO:
    title: str
    author: PPersonDTO
    editor: PPersonDTO
    second_author: PPersonDTO


def _upper_nick(p):
    return p.nick.upper()


PLACES = ("author", "editor", "second_author")
PLACE_RULES = (None, "const", "nick", "func")


def places_leg(report, tier):
    """every assignment of a rule {none, link_constant, link from nick, link_function} to each of the three places (fields) of the pair
    PPerson -> PPersonDTO inside PBook -> PBookDTO, plus a class-level fallback rule, in both recipe orders; reference: the first
    provider of the recipe whose predicate matches the place decides; a place without any rule makes the converter impossible.
    After each converter a second one is asked from the SAME retort with another assignment (the history must not matter)."""
    from adaptix import P as _P
    from adaptix.conversion import ConversionRetort, link, link_constant, link_function

    def rule(kind, pred, tag):
        if kind == "const":
            return link_constant(pred, value=f"const@{tag}")
        if kind == "nick":
            return link(_P[PPerson].nick, pred)
        return link_function(_upper_nick, pred)

    def expected_role(kind, tag, person):
        return {"const": f"const@{tag}", "nick": person.nick, "func": person.nick.upper()}[kind]

    book = PBook("T", PPerson("Ann", "a"), PPerson("Bob", "b"), PPerson("Cy", "c"))
    people = {"author": [book.author], "editor": [book.editor], "second_author": [book.second_author]}

    def program(assign, fallback, order):
        place_rules = [rule(k, getattr(_P[PBookDTO], pl).role, pl) for pl, k in zip(PLACES, assign) if k]
        fb = [rule(fallback, _P[PPersonDTO].role, "any")] if fallback else []
        recipe = place_rules + fb if order == "places_first" else fb + place_rules
        want = {}
        for pl, k in zip(PLACES, assign):
            eff = (k, pl) if k and (order == "places_first" or not fallback) else ((fallback, "any") if fallback else None)
            if eff is None:
                return recipe, None
            want[pl] = [expected_role(eff[0], eff[1], person) for person in people[pl]]
        return recipe, want

    def run_one(retort, assign, fallback, order, history):
        recipe, want = program(assign, fallback, order)
        case = {"leg": "places", "assign": list(assign), "fallback": fallback, "order": order, "history": history}
        report.case(("places", assign, fallback, order, str(history)), nontrivial=True, sample=case)
        text = f"PBook -> PBookDTO with role rules {dict(zip(PLACES, assign))}, fallback {fallback}, {order}" + \
               (f" (after a converter with {history} on the same retort)" if history else "")
        try:
            conv = retort.get_converter(PBook, PBookDTO, recipe=recipe)
        except Exception as e:  # noqa: BLE001
            report.outcome("places:ref=" + ("no" if want is None else "yes") + ",impl=refused")
            if want is not None:
                report.violation({"check": "C13.places", "problem": "refused"},
                                 f"{text}: every place has a rule but the converter is refused: {type(e).__name__}", case)
            return
        report.outcome("places:ref=" + ("no" if want is None else "yes") + ",impl=ok")
        if want is None:
            report.violation({"check": "C13.places", "problem": "produced_although_a_place_has_no_rule"},
                             f"{text}: converter produced although PPersonDTO.role has no source at some place", case)
            return
        try:
            out = conv(copy.deepcopy(book))
            got = {"author": [out.author.role], "editor": [out.editor.role], "second_author": [out.second_author.role]}
            names = [out.author.name, out.editor.name, out.second_author.name]
        except Exception as e:  # noqa: BLE001
            report.violation({"check": "C13.places", "problem": "call_failed"}, f"{text}: {type(e).__name__}: {str(e)[:100]}", case)
            return
        report.outcome("run=equal" if got == want else "run=differs")
        if got != want or names != ["Ann", "Bob", "Cy"] or out.title != "T":
            report.violation({"check": "C13.places", "problem": "rule_of_another_place_applied"},
                             f"{text}: roles {got}, the rules addressed by place give {want}", case)

    assigns = list(itertools.product(PLACE_RULES, repeat=len(PLACES)))
    for assign in assigns:
        for fallback in PLACE_RULES:
            for order in ("places_first", "fallback_first"):
                run_one(ConversionRetort(), assign, fallback, order, None)
    # histories of two converters on one retort: the second assignment is a rotation of the first
    second = assigns if tier != "quick" else assigns[::5]
    for assign in assigns:
        for other in second:
            if other == assign or not all(assign) or not all(other):
                continue
            retort = ConversionRetort()
            run_one(retort, assign, None, "places_first", None)
            run_one(retort, other, None, "places_first", list(assign))


def run(tier):
    report = Report()
    shards = [(fam, tier, i) for fam in FAMILIES for i in range(N_SHARDS)]
    parallel.run_shards(shard_run, shards, report=report)
    places_leg(report, tier)
    return report


def SANITY(report, tier):  # noqa: N802
    o = report.outcomes
    problems = []
    produced = sum(n for k, n in o.items() if k.endswith("ref=yes,impl=ok"))
    refused = sum(n for k, n in o.items() if k.endswith("ref=no,impl=refused"))
    if produced < 2000:
        problems.append(f"only {produced} converters produced")
    if refused < 1000:
        problems.append(f"only {refused} programs refused")
    if o["run=equal"] < 5000:
        problems.append("fewer than 5000 executions compared equal")
    if o["signature checked"] < 200:
        problems.append("fewer than 200 impl_converter signatures compared")
    if o["factory freshness checked"] < 100:
        problems.append("fewer than 100 link_constant(factory=) results compared for freshness")
    for fam in FAMILIES:
        if not any(k.startswith(fam + ":") and k.endswith("ref=yes,impl=ok") for k in o):
            problems.append(f"family {fam}: no converter produced")
    for entry in ENTRIES_NO_PARAMS:
        if not o[f"entry={entry}"]:
            problems.append(f"entry point {entry} never used")
    return problems


def extra_evidence(report, tier):
    o = report.outcomes
    return {
        "programs_per_family": {f: report.counters[f"programs_{f}"] for f in FAMILIES},
        "outcomes": {k: o[k] for k in sorted(o)},
        "type_pairs": NTP, "constants": len(CONSTS), "factories": len(FACTORIES), "link_functions": len(FUNCS),
    }


def replay(case):
    report = Report()
    if case.get("leg") == "places":
        places_leg(report, "quick")
        for v in report.violations.values():
            return v["what"]
        return None
    case = {k: v for k, v in case.items() if k != "k"}
    evaluate(case, report)
    for v in report.violations.values():
        return v["what"]
    return None
