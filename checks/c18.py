"""C18 — Enum and Flag representations are bijections on their members.

Complete enumeration (nothing sampled) of
  classes   x  providers with their full option cube  x  coercion / debug_trail modes  x  (all values, all candidates)
evaluated on the real providers through Retort and compared with the executable documentation in mc/ref_enum.py:

  * creation of loader and dumper succeeds unless the documentation excludes the class;
  * the dump image of every member / every OR-combination of flag members is one the documentation allows, and
    load(dump(v)) is v (flags: == and same type);
  * every candidate representation (all dump images UNION a hostile alphabet derived from the class: wrong case,
    names of other option settings, duplicates, unknown names, bare strings, mappings, nested lists, out-of-range
    ints, -1, bool, None, float look-alikes, the members themselves ...) is accepted with the documented result or
    rejected with a LoadError, exactly as the reference says; where the reference is UNSPEC nothing is compared except
    that no other exception class may escape.
"""
import collections
import enum
import itertools
import linecache
import types

from adaptix import (
    DebugTrail,
    NameStyle,
    Retort,
    enum_by_exact_value,
    enum_by_name,
    enum_by_value,
    flag_by_exact_value,
    flag_by_member_names,
)
from adaptix.load_error import LoadError

from mc import codec, parallel, ref_enum
from mc.ref_enum import ACCEPT, REJECT, UNSPEC
from mc.report import Report

META = {
    "level": "exploration",
    "rule": (
        "a case is one (class, provider+options, coercion/debug mode, value-or-candidate) evaluation; all are enumerated: "
        "Enum classes = every member-value tuple of length 1..3 over {1,2,'a','b',0,True,1.0,(1,2),None} (aliases arise from "
        "repeated / equal values) + IntEnum over {1,2,0,True,1.0} + str-mixin enums over {'a','b',1} under two naming schemes "
        "+ enums with a custom _missing_ + enums with an unhashable (list) value; Flag and IntFlag classes = every ordered "
        "member-value tuple of length 1..3 (thorough 1..4) over {0,1,2,3,4,6,7}; providers x the full option cube; values = "
        "all members / all 2^n OR-combinations; candidates = dump images + hostile alphabet. distinct_nontrivial counts "
        "distinct programs (class, provider, options, mode) in which the reference gave and compared at least one ACCEPT "
        "and at least one REJECT verdict"
    ),
    "assumptions": [
        "mc/ref_enum.py is a faithful transcription of the provider docstrings and of specific-types-behavior.rst; where "
        "they are silent (look-alike data such as True for 1, an IntEnum member as datum, data a user _missing_ resolves, "
        "alias names, the zero member's name under allow_compound=False, non-list iterables and lax-mode mappings as "
        "containers of valid names, ints inside the mask that are no OR of members) the verdict is UNSPEC and nothing is "
        "compared apart from 'no non-LoadError escapes'",
        "classes the documentation excludes from flag_by_exact_value / the default flag provider (skipped bits) are "
        "counted and not evaluated; classes without members have no value and are skipped",
        "name_style is checked on names made of alphabetic words joined by single underscores only",
        "small scope: longer member lists, other value alphabets and user maps with colliding targets are not covered",
    ],
    "bound": {
        "quick": "flag classes with <= 3 members; name_style in {None, LOWER_SNAKE, CAMEL}",
        "thorough": "flag classes with <= 4 members (3 styles) and all 16 name styles for every class with <= 3 members",
    },
}

ENUM_ALPHABET = (1, 2, "a", "b", 0, True, 1.0, (1, 2), None)
INTENUM_ALPHABET = (1, 2, 0, True, 1.0)
STRMIXIN_ALPHABET = ("a", "b", 1)
FLAG_ALPHABET = (0, 1, 2, 3, 4, 6, 7)
QUICK_STYLES = (None, "LOWER_SNAKE", "CAMEL")
TRAILS = ("DISABLE", "FIRST", "ALL")
N_SHARDS = 192


# ------------------------------------------------------------------------------------------------------------
# the space

def class_specs(tier):
    """(spec, all_styles) simplest first; spec = (base, name scheme, values)"""
    thorough = tier == "thorough"
    out = []
    for n in range(0, 4):
        for vals in itertools.product(ENUM_ALPHABET, repeat=n):
            out.append((("Enum", "snake", vals), thorough))
        for vals in itertools.product(INTENUM_ALPHABET, repeat=n):
            out.append((("IntEnum", "snake", vals), thorough))
        for vals in itertools.product(STRMIXIN_ALPHABET, repeat=n):
            out.append((("StrMixin", "snake", vals), thorough))
            if n:
                out.append((("StrMixin", "valuelike", vals), thorough))
        if 1 <= n <= 2:
            for vals in itertools.product((1, "a", "one"), repeat=n):
                out.append((("Missing", "snake", vals), thorough))
            for vals in itertools.product(([1], 1, [2]), repeat=n):
                if any(type(v) is list for v in vals):
                    out.append((("Enum", "snake", vals), thorough))
        for base in ref_enum.FLAG_BASES:
            for vals in itertools.product(FLAG_ALPHABET, repeat=n):
                out.append(((base, "snake", vals), thorough))
    if thorough:
        for base in ref_enum.FLAG_BASES:
            for vals in itertools.product(FLAG_ALPHABET, repeat=4):
                out.append(((base, "snake", vals), False))
    return out


def name_variants(all_styles):
    styles = (None, *ref_enum.ALL_STYLES) if all_styles else QUICK_STYLES
    return [(s, m) for s in styles for m in ref_enum.MAP_KINDS]


def programs_for(model, all_styles):
    """every provider with its full option cube and the modes it reads"""
    if not model.is_flag:
        for strict in (True, False):
            yield {"provider": "default_enum", "strict": strict, "trail": "ALL"}
            yield {"provider": "enum_by_exact_value", "strict": strict, "trail": "ALL"}
            for style, map_kind in name_variants(all_styles):
                yield {"provider": "enum_by_name", "name_style": style, "map": map_kind, "strict": strict, "trail": "ALL"}
        ts = ref_enum.tp_for(model)
        if ts is not None:
            for strict in (True, False):
                for trail in TRAILS:
                    yield {"provider": "enum_by_value", "tp": ts, "strict": strict, "trail": trail}
        return
    for strict in (True, False):
        yield {"provider": "default_flag", "strict": strict, "trail": "ALL"}
        yield {"provider": "flag_by_exact_value", "strict": strict, "trail": "ALL"}
        for asv, adup, acomp in itertools.product((False, True), repeat=3):
            for style, map_kind in name_variants(all_styles):
                yield {"provider": "flag_by_member_names", "allow_single_value": asv, "allow_duplicates": adup,
                       "allow_compound": acomp, "name_style": style, "map": map_kind, "strict": strict, "trail": "ALL"}


def make_retort(model, prog, nm):
    p = prog["provider"]
    if p in ("default_enum", "default_flag"):
        recipe = []
    elif p == "enum_by_exact_value":
        recipe = [enum_by_exact_value()]
    elif p == "flag_by_exact_value":
        recipe = [flag_by_exact_value()]
    elif p == "enum_by_value":
        recipe = [enum_by_value(model.cls, tp=ref_enum.tp_hint(prog["tp"]))]
    else:
        style = NameStyle[prog["name_style"]] if prog["name_style"] else None
        kwargs = {"name_style": style, "map": nm.map}
        if p == "enum_by_name":
            recipe = [enum_by_name(**kwargs)]
        else:
            recipe = [flag_by_member_names(
                allow_single_value=prog["allow_single_value"], allow_duplicates=prog["allow_duplicates"],
                allow_compound=prog["allow_compound"], **kwargs,
            )]
    return Retort(recipe=recipe, strict_coercion=prog["strict"], debug_trail=DebugTrail[prog["trail"]])


def prog_text(prog):
    p = prog["provider"]
    mode = f"strict_coercion={prog['strict']}" + (f", debug_trail={prog['trail']}" if p == "enum_by_value" else "")
    if p.startswith("default"):
        return f"Retort({mode})"
    if p == "enum_by_value":
        return f"enum_by_value(E, tp={ref_enum.tp_text(prog['tp'])}) [{mode}]"
    opts = []
    for k in ("allow_single_value", "allow_duplicates", "allow_compound"):
        if k in prog:
            opts.append(f"{k}={prog[k]}")
    if prog.get("name_style"):
        opts.append(f"name_style={prog['name_style']}")
    if prog.get("map", "none") != "none":
        opts.append(f"map=<{prog['map']}>")
    return f"{p}({', '.join(opts)}) [{mode}]"


# ------------------------------------------------------------------------------------------------------------
# hostile alphabets (derived from the class; the reference alone decides what each candidate is)

class MyTuple(tuple):
    pass


def _foreign_names(model):
    """names the class has under other option settings, wrong case, unknown"""
    out = []
    for style in (None, "LOWER_SNAKE", "CAMEL", "UPPER_DOT", "PASCAL_KEBAB"):
        for map_kind in ref_enum.MAP_KINDS:
            nm = ref_enum.NameMap(model, style, map_kind)
            out += list(nm.by_rep) + list(nm.alias_rep)
    out += list(model.cls.__members__)
    return list(dict.fromkeys(out))


def _string_hostiles(current, foreign):
    """(kind, str)"""
    out = []
    for s in current:
        out.append(("wrong_case", s.swapcase()))
        out.append(("wrong_case", s.lower()))
        out.append(("wrong_case", s.upper()))
        out.append(("padded_name", s + " "))
        out.append(("name_prefix", s[:-1]))
    for s in foreign:
        out.append(("name_under_other_options", s))
    out += [("unknown_name", "UNKNOWN"), ("unknown_name", ""), ("unknown_name", "E." + (current[0] if current else "A"))]
    return out


SCALAR_HOSTILES = [
    ("none", None), ("bool", True), ("bool", False), ("int", 0), ("int", 1), ("int", 2), ("int", 3), ("negative_int", -1),
    ("big_int", 10 ** 20), ("float_lookalike", 1.0), ("float_lookalike", 0.0), ("float_lookalike", 2.0), ("float", 1.5),
    ("float", float("nan")), ("float", float("inf")), ("str", "a"), ("str", "b"), ("str", "A"), ("str", "1"), ("str", "1.0"),
    ("str", "12"), ("str", ""), ("str", ref_enum.MISSING_KEY), ("str", "True"), ("str", "None"), ("bytes", b"a"),
    ("tuple", (1, 2)), ("tuple", (1,)), ("tuple", ()), ("tuple_lookalike", (1.0, 2)), ("tuple_lookalike", (True, 2)),
    ("tuple", (2, 1)), ("tuple", (1, 2, 3)), ("tuple_of_str", ("1", "2")), ("tuple_subclass", MyTuple((1, 2))),
    ("list", [1, 2]), ("list", [1]), ("list", [2]), ("list", []), ("nested_list", [[1]]), ("list", ["a"]),
    ("mapping", {}), ("mapping", {"a": 1}), ("mapping", {1: 2}), ("mapping", {1: 0, 2: 0}), ("set", {1}),
]


def enum_candidates(model, nm):
    """hostile data for the three enum providers (nm = NameMap for enum_by_name, else None)"""
    out = list(SCALAR_HOSTILES)
    for m in model.members:
        out.append(("member_itself", m))
        out.append(("member_value", m.value))
        out.append(("python_name", m.name))
        out.append(("list_of_value", [m.value]))
    if nm is not None:
        current = list(nm.by_rep)
        out += _string_hostiles(current, _foreign_names(model))
        for s in current[:2]:
            out += [("list_of_name", [s]), ("tuple_of_name", (s,)), ("mapping", {s: 1}), ("bytes", s.encode())]
    return out


def flag_exact_candidates(model):
    out = [("int", i) for i in range(0, 18)]
    out += [("out_of_range_int", model.mask + 1), ("out_of_range_int", 2 * model.mask + 1), ("negative_int", -1),
            ("negative_int", -2), ("negative_int", ~model.mask), ("big_int", 10 ** 20), ("bool", True), ("bool", False),
            ("none", None), ("float_lookalike", 0.0), ("float_lookalike", 1.0), ("float_lookalike", 3.0),
            ("float_lookalike", float(model.mask)), ("float", 1.5), ("float", float("nan")), ("float", float("inf")),
            ("str", "1"), ("str", "0"), ("str", ""), ("bytes", b"\x01"), ("list", [1]), ("list", []), ("nested_list", [[1]]),
            ("tuple", (1,)), ("mapping", {}), ("mapping", {1: 1}), ("set", {1})]
    for m in model.members:
        out += [("member_itself", m), ("python_name", m.name), ("list_of_name", [m.name])]
    return out


def flag_names_candidates(model, fn, foreign):
    current = list(fn.allowed)
    out = [("empty_list", [])]
    for s in current:
        out += [("single_name_list", [s]), ("duplicates", [s, s]), ("duplicates", [s, s, s]), ("bare_name", s)]
    for a, b in itertools.permutations(current, 2):
        out.append(("pair", [a, b]))
        out.append(("duplicates", [a, b, a]))
    if len(current) >= 3:
        out += [("all_names", list(current)), ("all_names", list(reversed(current)))]
    for s in fn.forbidden_compound:
        out += [("compound_name", [s]), ("compound_name", s)]
        if current:
            out.append(("compound_name", [current[0], s]))
    for s in fn.optional:
        out += [("unspecified_name", [s]), ("unspecified_name", [s, s])]
    for kind, s in _string_hostiles(current, foreign):
        out += [(kind, [s]), ("bare_" + kind, s)]
        if current:
            out.append((kind, [current[0], s]))
            out.append((kind, [s, current[0], s]))
    first = current[0] if current else "ALPHA_ONE"
    out += [
        ("mapping", {}), ("mapping", {first: 1}), ("mapping", {first: first}), ("mapping", {"UNKNOWN": 1}), ("mapping", {1: first}),
        # mappings that are not exactly dict
        ("mapping", collections.OrderedDict({first: 1})), ("mapping", types.MappingProxyType({first: 1})),
        ("mapping", collections.ChainMap({first: 1})), ("mapping", collections.defaultdict(int, {first: 1})),
        ("unhashable_item", [[1]]), ("unhashable_item", [[first]]), ("unhashable_item", [first, [first]]),
        ("unhashable_item", [{}]), ("unhashable_item", [first, {first: 1}]), ("unhashable_item", [[first], [first]]),
        ("non_str_item", [1]), ("non_str_item", [None]), ("non_str_item", [True]), ("non_str_item", [1.0]),
        ("non_str_item", [first.encode()]), ("non_str_item", [first, 1]), ("non_str_item", [(first,)]),
        ("non_str_item", [0]), ("non_str_item", [first, None, first]),
        ("int", 0), ("int", 1), ("int", 3), ("out_of_range_int", model.mask + 1), ("negative_int", -1), ("bool", True),
        ("bool", False), ("none", None), ("float_lookalike", 1.0), ("float", 1.5), ("bytes", first.encode()),
        ("tuple_container", (first,)), ("tuple_container", ()), ("tuple_container", ("UNKNOWN",)), ("tuple_container", (1,)),
        ("set_container", {first}), ("set_container", frozenset(["UNKNOWN"])), ("tuple_container", (first, first)),
    ]
    for m in model.members:
        out += [("member_itself", [m]), ("member_value", m.value), ("member_value", [m.value])]
        try:
            list(m)     # Flag members are iterable; the stdlib iteration itself raises for some alias layouts (3, 1)
        except Exception:  # noqa: BLE001
            continue
        out.append(("member_itself", m))
    return out


def _dedup(cands):
    seen = set()
    out = []
    for kind, d in cands:
        key = codec.show(d, 400)
        if key in seen:
            continue
        seen.add(key)
        out.append((kind, d))
    return out


# ------------------------------------------------------------------------------------------------------------
# evaluation of one program

class RefProgram:
    """binds the reference to one program: load verdict, dump plausibility, documented exclusion"""

    def __init__(self, model, prog, foreign):
        self.model = model
        self.prog = prog
        p = prog["provider"]
        self.nm = None
        self.fn = None
        self.excluded = False
        self.skip = None
        if p in ("enum_by_name", "flag_by_member_names"):
            self.nm = ref_enum.NameMap(model, prog["name_style"], prog["map"])
            if not self.nm.injective:
                self.skip = "name mapping given by the options is not injective on the members (user error, not specified)"
        if p == "flag_by_member_names":
            self.fn = ref_enum.FlagNames(model, self.nm, prog["allow_single_value"], prog["allow_duplicates"],
                                         prog["allow_compound"])
        if p in ("default_flag", "flag_by_exact_value"):
            self.excluded = model.excluded_by_exact_value()
        self._foreign = foreign

    def candidates(self):
        p = self.prog["provider"]
        if p == "flag_by_member_names":
            return flag_names_candidates(self.model, self.fn, self._foreign)
        if p in ("default_flag", "flag_by_exact_value"):
            return flag_exact_candidates(self.model)
        return enum_candidates(self.model, self.nm)

    def load(self, d):
        p = self.prog["provider"]
        if p in ("default_enum", "enum_by_exact_value"):
            return ref_enum.exact_load(self.model, d)
        if p == "enum_by_name":
            return ref_enum.name_load(self.model, self.nm, d)
        if p == "enum_by_value":
            return ref_enum.value_load(self.model, self.prog["tp"], d, self.prog["strict"])
        if p in ("default_flag", "flag_by_exact_value"):
            return ref_enum.flag_exact_load(self.model, d)
        return self.fn.load(d, self.prog["strict"])

    def dump_problem(self, v, d):
        p = self.prog["provider"]
        if p in ("default_enum", "enum_by_exact_value", "enum_by_value"):
            return ref_enum.exact_dump_problem(self.model, v, d)
        if p == "enum_by_name":
            return ref_enum.name_dump_problem(self.model, self.nm, v, d)
        if p in ("default_flag", "flag_by_exact_value"):
            return ref_enum.flag_exact_dump_problem(self.model, v, d)
        return self.fn.dump_problem(v, d)


def _cause(model, prog, problem, kind=None, value=None):
    """small root-cause discriminator computed from the class traits and the candidate kind (never from the implementation)"""
    traits = model.traits()
    p = prog["provider"]
    if problem == "creation_failed":
        for t in ("zero_member",):
            if t in traits:
                return t
        return "other"
    if p in ("enum_by_name", "flag_by_member_names") and "str_mixin_value_equals_other_member_name" in traits \
            and prog.get("map", "none") != "none":
        return "str_mixin_value_equals_other_member_name"
    if problem in ("roundtrip", "wrong_dump"):
        if p == "flag_by_member_names" and not prog["allow_compound"] and value is not None \
                and int(value.value) & ~model.single_mask:
            return "multibit_member_without_single_bits"
        if "alias" in traits:
            return "alias"
        return "other"
    if p in ("default_flag", "flag_by_exact_value") and kind == "int" and value is None \
            and "multibit_member_without_single_bits" in traits:
        return "multibit_member_without_single_bits"
    return kind or "other"


def _violation(report, model, prog, problem, what, kind=None, value=None, exc=None):
    sig = {"check": f"C18.{prog['provider']}", "problem": problem, "cause": _cause(model, prog, problem, kind, value)}
    if exc is not None:
        sig["exc"] = type(exc).__name__
    text = f"{ref_enum.spec_text(model.spec)} with {prog_text(prog)}: {what}"
    report.violation(sig, text, {"spec": codec.enc(model.spec), "prog": codec.enc(prog), "sig": sig})


TWIN_NAMES = ("TW_ONE", "TW_TWO", "TW_THREE", "TW_FOUR")


def twin_leg(model, prog, retort, report):
    """a map keyed by members of E says nothing about another class: a twin class (same base and values, other member names) must
    be represented exactly as by the same provider without the map (differential, no expectation written by hand)"""
    if prog["provider"] not in ("enum_by_name", "flag_by_member_names") or prog.get("map") not in ("by_member", "mixed"):
        return
    base, _, values = model.spec
    try:
        twin = ref_enum.build_class((base, "snake", values))
        names = dict(zip(ref_enum.NAME_SCHEMES["snake"], TWIN_NAMES))
        ns = enum.EnumMeta.__prepare__("Twin", twin.__bases__)
        for n, m in twin.__members__.items():
            ns[names[n]] = m._value_
        twin = enum.EnumMeta("Twin", twin.__bases__, ns)
    except Exception:  # noqa: BLE001
        return
    plain = make_retort(model, {**prog, "map": "none"}, types.SimpleNamespace(map=None))
    members = list(twin)
    vals = list(members)
    if model.is_flag:
        vals += [a | b for i, a in enumerate(members) for b in members[i + 1:]]

    def attempt(fn, *a):
        try:
            return ("ok", fn(*a))
        except Exception as e:  # noqa: BLE001
            return ("err", type(e).__name__)
    for v in vals:
        report.evaluations += 1
        a, b = attempt(retort.dump, v, twin), attempt(plain.dump, v, twin)
        report.outcome("twin:dump:" + a[0])
        if a != b:
            _violation(report, model, prog, "map_leaks_to_other_class",
                       f"class Twin (same values, members {[m.name for m in members]}): dump({v!r}) = {a[1]!r} but {b[1]!r} without the map")
            continue
        if a[0] != "ok":
            continue
        la, lb = attempt(retort.load, a[1], twin), attempt(plain.load, a[1], twin)
        if la != lb or (la[0] == "ok" and la[1] is not lb[1] and not model.is_flag):
            _violation(report, model, prog, "map_leaks_to_other_class",
                       f"class Twin (same values, members {[m.name for m in members]}): load({a[1]!r}) = {la[1]!r} but {lb[1]!r} without the map")


def bystander_leg(model, prog, retort, report):
    """the representation of a Flag class is chosen by the flag providers and that of a plain Enum class by the enum providers:
    a predicate-less provider of the OTHER family standing in the recipe ('used for all Enums' / 'for all Flags') must change
    nothing for this class (differential against the default retort of the same modes, no expectation written by hand)"""
    if prog["provider"] not in ("default_flag", "default_enum"):
        return
    others = ([("enum_by_name()", enum_by_name()), ("enum_by_exact_value()", enum_by_exact_value())] if model.is_flag else
              [("flag_by_exact_value()", flag_by_exact_value()), ("flag_by_member_names()", flag_by_member_names())])

    def attempt(fn, *a):
        try:
            return ("ok", fn(*a))
        except Exception as e:  # noqa: BLE001
            return ("err", type(e).__name__)
    for text, provider in others:
        other = Retort(recipe=[provider], strict_coercion=prog["strict"], debug_trail=DebugTrail[prog["trail"]])
        for v in model.values():
            report.evaluations += 1
            a, b = attempt(other.dump, v, model.cls), attempt(retort.dump, v, model.cls)
            report.outcome("bystander:dump:" + b[0])
            if a != b:
                _violation(report, model, prog, "bystander_provider_captures_class",
                           f"with {text} in the recipe dump({v!r}) gives {a[1]!r}, the default retort gives {b[1]!r}", value=v)
                break
            if b[0] != "ok":
                continue
            la, lb = attempt(other.load, b[1], model.cls), attempt(retort.load, b[1], model.cls)
            if la[0] != lb[0] or (la[0] == "ok" and not model.same_value(la[1], lb[1])) or (la[0] == "err" and la[1] != lb[1]):
                _violation(report, model, prog, "bystander_provider_captures_class",
                           f"with {text} in the recipe load({codec.show(b[1], 60)}) gives {la[1]!r}, the default retort gives {lb[1]!r}",
                           value=v)
                break


def run_program(model, prog, report, foreign):  # noqa: C901, PLR0912, PLR0915
    ref = RefProgram(model, prog, foreign)
    cls = model.cls
    p = prog["provider"]
    key = (codec.show(model.spec, 300), codec.show(prog, 400))
    if ref.skip:
        report.skip(ref.skip)
        report.case(key)
        return
    retort = make_retort(model, prog, ref.nm)
    made = {}
    for side in ("loader", "dumper"):
        try:
            made[side] = retort.get_loader(cls) if side == "loader" else retort.get_dumper(cls)
        except Exception as e:  # noqa: BLE001
            if ref.excluded:
                report.outcome(f"creation of {side} refused for a class the documentation excludes")
                continue
            report.outcome(f"creation:{side}:failed:{type(e).__name__}")
            _violation(report, model, prog, "creation_failed",
                       f"get_{side}(E) raises {type(e).__name__}: {str(e)[:120]}; the documentation does not exclude this class",
                       exc=e)
        else:
            report.outcome(f"creation:{side}:ok")
    if ref.excluded:
        report.skip("flag class with skipped bits: excluded by the documentation from the exact-value representation")
        report.case(key)
        return
    twin_leg(model, prog, retort, report)
    bystander_leg(model, prog, retort, report)
    loader, dumper = made.get("loader"), made.get("dumper")
    n = 0
    n_acc = n_rej = 0
    cands = []
    # ---- dump every value, check the image, round trip
    if dumper is not None:
        for v in model.values():
            n += 1
            try:
                d = dumper(v)
            except Exception as e:  # noqa: BLE001
                report.outcome("dump:raised")
                _violation(report, model, prog, "roundtrip", f"dump({v!r}) raises {type(e).__name__}: {str(e)[:100]}",
                           value=v, exc=e)
                continue
            report.outcome("dump:ok")
            bad = ref.dump_problem(v, d)
            if bad:
                _violation(report, model, prog, "wrong_dump", f"dump({v!r}): {bad}", value=v)
            cands.append(("dump_image", d))
            if loader is None:
                continue
            n += 1
            try:
                back = loader(d)
            except Exception as e:  # noqa: BLE001
                report.outcome("roundtrip:load_raised")
                _violation(report, model, prog, "roundtrip",
                           f"dump({v!r}) = {codec.show(d, 80)} and loading that raises {type(e).__name__}", value=v)
                continue
            if model.same_value(back, v):
                report.outcome("roundtrip:ok")
            else:
                report.outcome("roundtrip:differs")
                _violation(report, model, prog, "roundtrip",
                           f"dump({v!r}) = {codec.show(d, 80)} and load of that returns {back!r}", value=v)
    # ---- every candidate representation against the reference
    if loader is not None:
        for kind, d in _dedup(cands + ref.candidates()):
            n += 1
            verdict = ref.load(d)
            try:
                got = loader(d)
            except LoadError as e:
                report.outcome(f"load:ref={verdict.kind},impl={type(e).__name__}")
                if verdict.kind == ACCEPT:
                    _violation(report, model, prog, "rejects_representation",
                               f"load({codec.show(d, 80)}) raises {type(e).__name__} but it represents {verdict.value!r} "
                               f"({verdict.why})", kind=kind)
                elif verdict.kind == REJECT:
                    n_rej += 1
                    if verdict.exc and type(e).__name__ != verdict.exc:
                        _violation(report, model, prog, "wrong_error_class",
                                   f"load({codec.show(d, 80)}) raises {type(e).__name__}, the docstring promises {verdict.exc}",
                                   kind=kind)
                else:
                    report.skip("reference UNSPEC (documentation silent): verdict not compared")
                continue
            except Exception as e:  # noqa: BLE001
                report.outcome(f"load:ref={verdict.kind},impl=non-LoadError {type(e).__name__}")
                _violation(report, model, prog, "non_LoadError",
                           f"load({codec.show(d, 80)}) lets {type(e).__name__}: {str(e)[:80]} escape (reference: {verdict.kind})",
                           kind=kind, exc=e)
                continue
            report.outcome(f"load:ref={verdict.kind},impl=ok")
            if verdict.kind == REJECT:
                _violation(report, model, prog, "accepts_non_representation",
                           f"load({codec.show(d, 80)}) returns {got!r}; documentation: {verdict.why}", kind=kind)
            elif verdict.kind == ACCEPT:
                n_acc += 1
                if not model.same_value(got, verdict.value):
                    _violation(report, model, prog, "wrong_member",
                               f"load({codec.show(d, 80)}) returns {got!r}, it represents {verdict.value!r}", kind=kind)
            else:
                report.skip("reference UNSPEC (documentation silent): verdict not compared")
    report.count("accept_verdicts_compared", n_acc)
    report.count("reject_verdicts_compared", n_rej)
    report.count("programs", 1)
    report.count(f"programs:{p}", 1)
    report.case(key, nontrivial=n_acc > 0 and n_rej > 0, n=max(n, 1),
                sample=lambda: {"class": ref_enum.spec_text(model.spec), "program": prog_text(prog),
                                "values": [repr(v) for v in model.values()][:8], "candidates": n,
                                "accepted": n_acc, "rejected": n_rej})


def run_class(spec, all_styles, report, only=None):
    try:
        cls = ref_enum.build_class(spec)
    except Exception as e:  # noqa: BLE001
        report.skip(f"class definition rejected by the stdlib enum module ({type(e).__name__})")
        report.count("class_definitions_rejected_by_stdlib", 1)
        return
    model = ref_enum.Model(spec, cls)
    report.count("classes", 1)
    report.count(f"classes:{spec[0]}", 1)
    if not model.members:
        report.skip("class without members: it has no value (E(x) is the functional API)")
        return
    if model.alias:
        report.count("classes_with_aliases", 1)
    foreign = _foreign_names(model)
    if not model.is_flag and ref_enum.tp_for(model) is None:
        report.skip("enum_by_value: no tp of the unambiguous documented set (int, str, float, bool, None, Tuple[int, int], "
                    "Union[int, str], Optional[int|str]) covers all member values")
    for prog in programs_for(model, all_styles):
        if only is not None and prog != only:
            continue
        run_program(model, prog, report, foreign)


def shard(items):
    report = Report()
    for i, (spec, all_styles) in enumerate(items):
        run_class(spec, all_styles, report)
        if i % 20 == 0:
            linecache.clearcache()
    return report


ODD_NAMES = ["_", "dark-red", "Read Only", "x__y", "ab_"]


def styled_map_leg(report):
    """a `map` entry takes precedence over `name_style`: members whose names no style can convert (functional-API names such as
    'dark-red', '_') are legal as long as `map` names them explicitly; every style x {map by name, map by member} x every non-empty
    subset of odd members next to two ordinary ones; creation must succeed, mapped members are represented by their map target, and
    every member round-trips"""
    for base, is_flag in ((enum.Enum, False), (enum.Flag, True)):
        for r in (1, 2):
            for odd in itertools.combinations(ODD_NAMES, r):
                names = ["plain_one", *odd, "plain_two"]
                cls = base("Odd", {n: (1 << i) for i, n in enumerate(names)})
                for style in NameStyle:
                    for by in ("name", "member"):
                        mp = {(n if by == "name" else cls[n]): f"mapped{i}" for i, n in enumerate(odd)}
                        prov = (flag_by_member_names(cls, name_style=style, map=mp) if is_flag else enum_by_name(cls, name_style=style, map=mp))
                        case = {"leg": "styled_map", "base": base.__name__, "odd": list(odd), "style": style.name, "by": by}
                        report.case(("styled_map", base.__name__, odd, style.name, by), nontrivial=True, sample=case)
                        text = f"{base.__name__} with members {names}, name_style={style.name}, map for {list(odd)} by {by}"
                        try:
                            retort = Retort(recipe=[prov])
                            dumper, loader = retort.get_dumper(cls), retort.get_loader(cls)
                        except Exception as e:  # noqa: BLE001
                            report.outcome("styled_map:creation_failed")
                            report.violation({"check": "C18.styled_map", "problem": "creation_failed", "exc": type(e).__name__},
                                             f"{text}: creation raised {type(e).__name__}: {str(getattr(e, '__cause__', None) or e)[:120]}; "
                                             f"every member that no style can convert is named by map", case)
                            continue
                        report.outcome("styled_map:created")
                        for i, n in enumerate(names):
                            report.evaluations += 1
                            m = cls[n]
                            try:
                                d = dumper(m)
                                back = loader(d)
                            except Exception as e:  # noqa: BLE001
                                report.violation({"check": "C18.styled_map", "problem": "roundtrip", "exc": type(e).__name__},
                                                 f"{text}: member {n!r}: {type(e).__name__}", case)
                                break
                            want = f"mapped{odd.index(n)}" if n in odd else None
                            rep = d[0] if is_flag and isinstance(d, list) and len(d) == 1 else d
                            if back != m or (want is not None and rep != want):
                                report.violation({"check": "C18.styled_map", "problem": "wrong_representation"},
                                                 f"{text}: member {n!r} dumped as {d!r} and loaded back as {back!r}"
                                                 + (f", map says {want!r}" if want else ""), case)
                                break


def run(tier):
    specs = class_specs(tier)
    report = Report()
    # simplest-first inside every shard, heavy classes spread evenly
    shards = [specs[i::N_SHARDS] for i in range(N_SHARDS)]
    parallel.run_shards(shard, [s for s in shards if s], report=report)
    styled_map_leg(report)
    return report


def SANITY(report, tier):  # noqa: N802, C901
    problems = []
    o, c = report.outcomes, report.counters
    for prov in ("default_enum", "enum_by_exact_value", "enum_by_name", "enum_by_value", "default_flag",
                 "flag_by_exact_value", "flag_by_member_names"):
        if not c[f"programs:{prov}"]:
            problems.append(f"no program of provider {prov} evaluated")
    if c["accept_verdicts_compared"] < 1000:
        problems.append("fewer than 1000 accepted representations compared")
    if c["reject_verdicts_compared"] < 1000:
        problems.append("fewer than 1000 rejected candidates compared")
    if not o["roundtrip:ok"]:
        problems.append("no round trip evaluated")
    rejecting = {k.split("impl=")[1] for k in o if k.startswith("load:ref=reject,impl=") and not k.endswith("impl=ok")}
    for need in ("BadVariantLoadError", "TypeLoadError", "OutOfRangeLoadError", "DuplicatedValuesLoadError",
                 "MultipleBadVariantLoadError", "ExcludedTypeLoadError"):
        if need not in rejecting:
            problems.append(f"no rejection through {need} observed")
    if not report.skipped.get("reference UNSPEC (documentation silent): verdict not compared"):
        problems.append("no UNSPEC candidate met (look-alike alphabet not effective)")
    if not report.skipped.get("flag class with skipped bits: excluded by the documentation from the exact-value representation"):
        problems.append("no documented exclusion met")
    if not c["classes_with_aliases"]:
        problems.append("no class with aliases generated")
    if len(report.nontrivial) < 1000:
        problems.append(f"only {len(report.nontrivial)} non-trivial programs")
    return problems


def extra_evidence(report, tier):
    c = report.counters
    return {
        "classes": c["classes"],
        "class_definitions_rejected_by_stdlib": c["class_definitions_rejected_by_stdlib"],
        "classes_by_base": {k.split(":", 1)[1]: v for k, v in sorted(c.items()) if k.startswith("classes:")},
        "programs": c["programs"],
        "programs_by_provider": {k.split(":", 1)[1]: v for k, v in sorted(c.items()) if k.startswith("programs:")},
        "accept_verdicts_compared": c["accept_verdicts_compared"],
        "reject_verdicts_compared": c["reject_verdicts_compared"],
    }


def replay(case):
    if case.get("leg") == "styled_map":
        report = Report()
        styled_map_leg(report)
        for v in report.violations.values():
            return v["what"]
        return None
    spec = codec.dec(case["spec"])
    prog = codec.dec(case["prog"])
    report = Report()
    run_class(spec, True, report, only=prog)
    hits = [v for v in report.violations.values() if v["sig"] == case["sig"]]
    return hits[0]["what"] if hits else None
