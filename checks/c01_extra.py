"""C01, extra legs: generic and recursive models of several kinds, provider variants, the SQLAlchemy AdaptixJSON column type.

* generic models Box[T], Pair[K, V] (dataclass, attrs, pydantic, generic NamedTuple/TypedDict) x parametrisations from a type
  pool x values;
* recursive models: self-recursive Node, mutually recursive A <-> B, recursion through Optional/List/Dict, values nested to
  depth 3; each under the identity layout and a slice of the name_mapping cube (rename, name_style, nested path, as_list);
* provider variants that swap the representation of a leaf: datetime_by_timestamp(tz=utc), datetime_by_format (lossless
  format), default_dict(factory), enum_by_name, enum_by_value, flag_by_member_names;
* every such (retort, type, value) also through AdaptixJSON(retort, T).process_bind_param / json / process_result_value.
All 6 modes; direct and JSON transport.
"""
import collections
import dataclasses
import datetime as dt
import enum
import json
from dataclasses import dataclass, field
from decimal import Decimal
from typing import Any, DefaultDict, Dict, Generic, List, NamedTuple, Optional, Tuple, TypedDict, TypeVar

import attr
import pydantic

from adaptix import (
    DebugTrail,
    NameStyle,
    P,
    Retort,
    datetime_by_format,
    datetime_by_timestamp,
    default_dict,
    enum_by_exact_value,
    enum_by_name,
    enum_by_value,
    flag_by_member_names,
    name_mapping,
)
from adaptix.integrations.sqlalchemy import AdaptixJSON

from mc import codec
from mc.matrix import MODES, mode_name
from mc.ref_types import same

T = TypeVar("T")
K = TypeVar("K")
V = TypeVar("V")


@dataclass
class Box(Generic[T]):
    item: T
    items: List[T] = field(default_factory=list)


@dataclass
class Pair(Generic[K, V]):
    key: K
    value: V
    table: Dict[str, V] = field(default_factory=dict)


@attr.define
class ABox(Generic[T]):
    item: T
    opt: Optional[T] = None


class PBox(pydantic.BaseModel, Generic[T]):
    item: T
    items: List[T] = []


class NTBox(NamedTuple, Generic[T]):
    item: T
    pair: Tuple[T, int]


class TDBox(TypedDict, Generic[T]):
    item: T
    items: List[T]


@dataclass
class Node:
    v: int
    children: List["Node"] = field(default_factory=list)
    parent_name: Optional[str] = None


@dataclass
class RNode:
    v: int
    children: List["RNode"]


@dataclass
class A:
    x: int
    b: Optional["B"] = None


@dataclass
class B:
    y: str
    a_list: List[A] = field(default_factory=list)
    a_map: Dict[str, A] = field(default_factory=dict)


@attr.define
class ANode:
    v: int
    next: Optional["ANode"] = None


class PNode(pydantic.BaseModel):
    v: int
    kids: List["PNode"] = []


class Color(enum.Enum):
    RED = "r"
    DARK_BLUE = "db"


class Perm(enum.Flag):
    R = 1
    W = 2
    X = 4


@dataclass
class Leafy:
    when: dt.datetime
    color: Color
    perm: Perm
    counts: DefaultDict[str, int]


POOL = {
    "int": (int, [0, -5]), "str": (str, ["", "é"]), "Decimal": (Decimal, [Decimal("1.50")]),
    "Optional[int]": (Optional[int], [None, 3]), "List[str]": (List[str], [[], ["a", "b"]]),
    "date": (dt.date, [dt.date(2020, 2, 29)]), "Color": (Color, [Color.RED]),
}


def generic_cases():
    for pname, (hint, vals) in POOL.items():
        for v in vals:
            yield f"Box[{pname}]", Box[hint], Box(v, [v, v]), []
            yield f"ABox[{pname}]", ABox[hint], ABox(v, v), []
            yield f"NTBox[{pname}]", NTBox[hint], NTBox(v, (v, 1)), []
            yield f"TDBox[{pname}]", TDBox[hint], {"item": v, "items": [v]}, []
            if pname not in ("date", "Decimal", "Color"):
                yield f"PBox[{pname}]", PBox[hint], PBox[hint](item=v, items=[v]), []
            for p2, (h2, v2s) in list(POOL.items())[:3]:
                yield f"Pair[{pname},{p2}]", Pair[hint, h2], Pair(v, v2s[0], {"k": v2s[-1]}), []
        yield f"Box[Box[{pname}]]", Box[Box[hint]], Box(Box(vals[0], [vals[0]]), [Box(vals[-1])]), []


def recursive_cases():
    deep = Node(1, [Node(2, [Node(3, [], "x")]), Node(4)], None)
    a = A(1, B("s", [A(2), A(3, B("t"))], {"k": A(4)}))
    layouts = {
        "identity": lambda cls: [],
        "rename": lambda cls: [name_mapping(cls, map={dataclasses.fields(cls)[0].name: "RENAMED"})],
        "camel": lambda cls: [name_mapping(cls, name_style=NameStyle.CAMEL)],
        "nested": lambda cls: [name_mapping(cls, map={dataclasses.fields(cls)[0].name: ("deep", "er", ...)})],
        "omit": lambda cls: [name_mapping(cls, omit_default=True)],
    }
    for lname, mk in layouts.items():
        yield f"Node/{lname}", Node, deep, mk(Node)
        yield f"A<->B/{lname}", A, a, mk(A) + mk(B)
        yield f"B/{lname}", B, a.b, mk(A) + mk(B)
    yield "RNode/as_list", RNode, RNode(1, [RNode(2, [RNode(3, [])]), RNode(4, [])]), [name_mapping(RNode, as_list=True)]
    yield "ANode", ANode, ANode(1, ANode(2, ANode(3))), []
    yield "PNode", PNode, PNode(v=1, kids=[PNode(v=2, kids=[PNode(v=3)])]), []
    yield "List[Node]", List[Node], [deep, Node(9)], []
    yield "Dict[str,A]", Dict[str, A], {"k": a}, []


class Odd(enum.Enum):
    """member values that are unhashable / falsy / of several types: the exact-value representation is the value itself"""
    LST = [1, 2]
    DCT = {"k": 1}
    EMPTY = []
    NONE = None
    ZERO = 0
    HALF = 1.5
    TEXT = "s"


def variant_cases():
    for member in Odd:
        yield "Odd (default exact value)", Odd, member, []
    yield "List[Odd]", List[Odd], list(Odd), []
    yield "Dict[str, Odd]", Dict[str, Odd], {m.name: m for m in Odd}, []
    yield "Odd (enum_by_exact_value)", List[Odd], list(Odd), [enum_by_exact_value(Odd)]
    aware = dt.datetime(2020, 1, 2, 3, 4, 5, 678000, tzinfo=dt.timezone.utc)
    naive = dt.datetime(2020, 1, 2, 3, 4, 5, 678901)
    counts = collections.defaultdict(int, {"a": 1})
    yield "datetime_by_timestamp(utc)", dt.datetime, aware, [datetime_by_timestamp(tz=dt.timezone.utc)]
    yield "datetime_by_format", dt.datetime, naive, [datetime_by_format(fmt="%Y-%m-%dT%H:%M:%S.%f")]
    yield "default_dict(int)", DefaultDict[str, int], counts, [default_dict(P.ANY, int)]
    yield "enum_by_name", Color, Color.DARK_BLUE, [enum_by_name(Color)]
    yield "enum_by_name(style)", Color, Color.DARK_BLUE, [enum_by_name(Color, name_style=NameStyle.CAMEL)]
    yield "enum_by_value", Color, Color.RED, [enum_by_value(Color, tp=str)]
    for v in (Perm(0), Perm.R, Perm.R | Perm.X, Perm.R | Perm.W | Perm.X):
        yield "flag_by_member_names", Perm, v, [flag_by_member_names(Perm)]
        yield "flag_by_member_names(no compound)", Perm, v, [flag_by_member_names(Perm, allow_compound=False)]
    yield "Leafy", Leafy, Leafy(aware, Color.RED, Perm.W, counts), [datetime_by_timestamp(tz=dt.timezone.utc), enum_by_name(Color),
                                                                    flag_by_member_names(Perm), default_dict(P.ANY, int)]


def equal(a, b):
    if isinstance(a, pydantic.BaseModel):
        # pydantic's own equality identifies PBox[int](...) with PBox(...) (the loader builds the unparametrised origin class)
        return isinstance(b, pydantic.BaseModel) and a == b
    if isinstance(a, collections.defaultdict):
        return type(b) is collections.defaultdict and dict(a) == dict(b) and a.default_factory is b.default_factory
    if dataclasses.is_dataclass(a) and not isinstance(a, type):
        return type(a) is type(b) and all(equal(getattr(a, f.name), getattr(b, f.name)) for f in dataclasses.fields(a))
    return same(a, b) or (type(a) is type(b) and a == b)


def timezone_cases():
    """providers that convert between dates / datetimes and UNIX timestamps: the round trip may not depend on the local time zone
    of the process (every case is executed under three zones, see run)"""
    from adaptix import date_by_timestamp
    for d in (dt.date(2020, 1, 2), dt.date(1970, 1, 1), dt.date(2024, 2, 29), dt.date(2038, 1, 19)):
        yield "date_by_timestamp", dt.date, d, [date_by_timestamp()]
        yield "List[date] by timestamp", List[dt.date], [d, d], [date_by_timestamp()]
    for z in (dt.timezone.utc, dt.timezone(dt.timedelta(hours=-5)), dt.timezone(dt.timedelta(hours=9))):
        yield f"datetime_by_timestamp({z})", dt.datetime, dt.datetime(2020, 1, 2, 3, 4, 5, tzinfo=z), [datetime_by_timestamp(tz=z)]


ZONES = ("UTC", "America/New_York", "Asia/Tokyo")


def run(report):
    import os
    import time
    saved = os.environ.get("TZ")
    try:
        for zone in ZONES:
            os.environ["TZ"] = zone
            time.tzset()
            _run_legs(report, (("timezone:" + zone, timezone_cases),))
    finally:
        if saved is None:
            os.environ.pop("TZ", None)
        else:
            os.environ["TZ"] = saved
        time.tzset()
    return _run_legs(report, (("generic", generic_cases), ("recursive", recursive_cases), ("variant", variant_cases)))


def _run_legs(report, legs):
    for leg, gen in legs:
        for name, hint, value, recipe in gen():
            for mode in MODES:
                case = {"kind": "extra", "leg": leg, "name": name, "mode": list(mode)}
                r = Retort(recipe=recipe, debug_trail=DebugTrail[mode[0]], strict_coercion=mode[1])
                try:
                    dumped = r.dump(value, hint)
                except Exception as e:  # noqa: BLE001
                    report.case(("x", name, repr(value)[:40], mode), nontrivial=True)
                    report.violation({"check": "C01.extra", "leg": leg, "problem": "dump_failed"},
                                     f"{name} [{mode_name(mode)}]: dump of {value!r} raised {type(e).__name__}: {str(getattr(e, '__cause__', None) or e)[:150]}", case)
                    continue
                transports = [("direct", lambda d=dumped: r.load(d, hint))]
                try:
                    text = json.dumps(dumped)
                    transports.append(("json", lambda t=text: r.load(json.loads(t), hint)))
                    col = AdaptixJSON(r, hint)
                    # a value whose representation is None is stored as SQL NULL, which the column type hands back untouched
                    # (NULL is "no value" for every SQLAlchemy type): not a transport of the dumped datum
                    if dumped is not None or value is None:
                        transports.append(("AdaptixJSON", lambda col=col: col.process_result_value(
                            json.loads(json.dumps(col.process_bind_param(value, None))), None)))
                except (TypeError, ValueError):
                    report.outcome("extra: not json-serialisable")
                for tname, fn in transports:
                    report.case(("x", name, repr(value)[:40], mode, tname), nontrivial=True,
                                sample=lambda: {**case, "transport": tname, "dumped": codec.enc(dumped)})
                    try:
                        back = fn()
                    except Exception as e:  # noqa: BLE001
                        report.violation({"check": "C01.extra", "leg": leg, "problem": "load_failed"},
                                         f"{name} [{mode_name(mode)}, {tname}]: {value!r} dumped to {codec.show(dumped, 80)}; load raised "
                                         f"{type(e).__name__}: {str(e)[:100]}", case)
                        continue
                    report.outcome(f"extra-{leg}:{tname}:ok")
                    if not equal(back, value):
                        report.violation({"check": "C01.extra", "leg": leg, "problem": "value_changed"},
                                         f"{name} [{mode_name(mode)}, {tname}]: {value!r} came back as {back!r}", case)
    return report


def replay(case):
    from mc.report import Report
    report = Report()
    run(report)
    for v in report.violations.values():
        if v["case"].get("name") == case.get("name"):
            return v["what"]
    return None
