"""C15 — type normalisation is a canonical form (explicit-state exploration of a rewrite graph).

States are type hints *as written* (specs of mc/ref_norm.py), transitions are single meaning-preserving rewrites (and, for the
inequality half, single meaning-changing edits).  The base hints of a grammar are partitioned by the independent meaning
function; from the base hints of one meaning a breadth-first search over rewrite sequences (depth 3) builds the equivalence
class explicitly.  Invariants evaluated on the real ``normalize_type`` at every state:

* equal      normalize_type(h) == normalize_type(h0) for the first (simplest) base hint h0 of the class,
* hash       ... with equal hash(),
* idempotent normalize_type(n.source) == n for the normal form and for every normal form nested in it,
* distinct   every single edit e of h has normalize_type(e) != normalize_type(h),

each (a) COLD — adaptix's lru cache of normal forms and typing's caches are cleared before every normalize call — and (b) WARM
in both orders (the lru cache is keyed by == of hints, so a warm second call can return the first hint's normal form and
*mask* a non-canonical result).  Behavioural leg: loaders / dumpers produced by a fresh Retort for members of one class agree
on a data alphabet, and the predicates built from them match the same location stacks.
"""
import importlib
import os
import typing
from collections import deque

from adaptix import Retort, create_loc_stack_checker
from adaptix.load_error import LoadError
from adaptix._internal.provider.loc_stack_filtering import LocStack
from adaptix._internal.provider.location import TypeHintLoc

from mc import env, parallel
from mc import ref_norm as R
from mc.report import Report

# the package re-exports a *function* called normalize_type, so the module has to be fetched by name
NT = importlib.import_module("adaptix._internal.type_tools.normalize_type")

META = {
    "level": "model_checking",
    "rule": (
        "states = distinct hints-as-written reached from the base hints of the grammar by <= 3 meaning-preserving rewrites "
        "(multi-source BFS per meaning class), transitions = rewrite edges between visited states + edit edges evaluated, "
        "traces = meaning classes all of whose members were normalised cold and warm (both orders) and compared with the "
        "class representative; a class is non-trivial when it has >= 2 members; every rewrite target is asserted to keep and "
        "every edit to change the independent meaning (framework error otherwise)"
    ),
    "assumptions": [
        "meaning of a hint = mc/ref_norm.py (typing documentation + docs 'Generic classes' table for bare generics); it never "
        "calls adaptix",
        "cold = _cached_normalize.cache_clear() + typing cache cleanups + compiler counter reset before EVERY normalize_type "
        "call and before every hint is built; warm = one reset, then the two hints normalised in order (both orders)",
        "predicates: a bare generic class is documented to match by class ('applied to all same types'), so predicates are "
        "compared only among members that agree on being a bare generic at top level",
        "behaviour: two members that both accept a datum with different results inside a union / Literal are not compared "
        "(docs: overlapping union cases and several matching Literal members are undefined); dumping failures are compared "
        "as 'fails' without the exception class",
        "hints outside the grammar (ForwardRef, NewType, Callable, ParamSpec, TypeVarTuple, PEP 695 aliases, ClassVar/Final/"
        "InitVar tags) and rewrite sequences longer than 3 are not explored",
    ],
    "bound": {
        "quick": "grammar: all depth-0 and depth-1 hints, depth 2 = 9 constructors over 34 depth-1 hints + pairs; BFS over "
                 "rewrite sequences of length <= 3 from every base hint; edits on members at rewrite distance <= 1; nested "
                 "idempotence at distance <= 2; behaviour/predicate leg on <= 6 members per class (even spread over BFS order)",
        "thorough": "grammar: depth <= 2 over the wider core (about 3000 hints) + depth 3 = 4 constructors over the quick "
                    "depth-2 hints; BFS <= 3; edits at distance <= 2; nested idempotence everywhere; behaviour/predicate leg on "
                    "<= 24 members per class",
    },
}

CFG = {
    "quick": {"bfs_depth": 3, "edit_dist": 1, "behaviour_members": 6, "grammar": 2, "inner_dist": 2},
    "thorough": {"bfs_depth": 3, "edit_dist": 2, "behaviour_members": 24, "grammar": 3, "inner_dist": 3},
}

# ------------------------------------------------------------------------------------------------------------
# base grammar


def L(name):  # noqa: N802
    return ("L", name)


def Lit(*toks):  # noqa: N802
    return ("Lit", tuple(toks))


def U(*ms, style="Union"):  # noqa: N802
    return ("U", style, tuple(ms))


def G(name, *args, style="b"):  # noqa: N802
    return ("G", name, style, tuple(args) if args else None)


def Tup(*args, style="t", kind="fixed"):  # noqa: N802
    return ("Tup", style, kind, tuple(args))


TYPE_LEAVES = [L(n) for n in ("int", "bool", "str", "None", "Any", "A", "X1", "X2", "TV1", "TV2", "E")]
LIT_LEAVES = [
    Lit("0"), Lit("1"), Lit("False"), Lit("True"), Lit("'a'"), Lit("b'x'"), Lit("E.A"), Lit("F1.A"), Lit("F2.A"), Lit("None"),
    Lit("0", "1"), Lit("0", "False"), Lit("1", "True"), Lit("False", "True"), Lit("0", "'a'"), Lit("'a'", "b'x'"),
    Lit("E.A", "E.B"), Lit("E.A", "0"), Lit("F1.A", "F2.A"), Lit("0", "None"), Lit("False", "None"), Lit("E.A", "None"),
    Lit("0", "False", "None"), Lit("0", "1", "False", "True"),
]
ONE_PARAM = [n for n in R.ORIGINS if len(R.implicit_args(n)) == 1]
TWO_PARAM = [n for n in R.ORIGINS if len(R.implicit_args(n)) == 2]
ANYSTR_ORIGINS = ("Pattern", "Match", "PathLike")
BOUND_ORIGINS = ("GB", "GPB")
CONSTR_ORIGINS = ("GC", "GPC")


def _styles(name):
    return ("b", "t") if R.ORIGINS[name][1] is not None else ("b",)


def bare_generics():
    out = []
    for name in R.ORIGINS:
        for st in _styles(name):
            out.append(("G", name, st, None))
    out += [("Tup", "b", "bare", ()), ("Tup", "t", "bare", ())]
    return out


def depth0():
    return TYPE_LEAVES + LIT_LEAVES + bare_generics()


ARG1 = [L("int"), L("bool"), L("str"), L("Any"), L("X1"), L("X2"), L("TV1"), Lit("0"), Lit("False"), L("None")]
ARG2 = [(L("str"), L("int")), (L("str"), L("Any")), (L("Any"), L("Any")), (L("int"), L("bool")), (L("X1"), L("X2")),
        (L("str"), Lit("0"))]
UNION_CORE = (
    TYPE_LEAVES
    + [Lit("0"), Lit("1"), Lit("False"), Lit("True"), Lit("'a'"), Lit("b'x'"), Lit("E.A"), Lit("F1.A"), Lit("F2.A"),
       Lit("None"), Lit("0", "1"), Lit("0", "False"), Lit("0", "None")]
    + [G("list"), G("list", style="t"), G("dict"), G("G"), G("GB"), G("GC"), ("Tup", "b", "bare", ()), G("Pattern"),
       G("type"), G("type", style="t")]
)
UNION3_CORE = [L("int"), L("bool"), L("str"), L("None"), L("X1"), L("X2"), Lit("0"), Lit("False"), Lit("'a'")]
TUP_ARGS = [L("int"), L("bool"), L("str"), L("X1"), L("X2"), Lit("0"), Lit("False"), L("None")]


def _one_param_args(name):
    if name in ANYSTR_ORIGINS:
        return [L("str"), L("Any")]
    if name in BOUND_ORIGINS:
        return [L("int"), L("bool")]
    if name in CONSTR_ORIGINS:
        return [L("int"), L("str")]
    return ARG1


def depth1():  # noqa: C901
    out = []
    # (a) every generic origin explicitly parametrised with its implicit parameters
    for name in R.ORIGINS:
        for st in _styles(name):
            out.append(("G", name, st, R.implicit_args(name)))
    out += [Tup(L("Any"), style="b", kind="var"), Tup(L("Any"), style="t", kind="var")]
    # (b) generic origins with other arguments
    for name in ONE_PARAM:
        for st in _styles(name):
            for a in _one_param_args(name):
                out.append(("G", name, st, (a,)))
    for name in TWO_PARAM:
        pairs = [(L("str"), L("int")), (L("Any"), L("int")), (L("X1"), L("bool"))] if name == "G2" else ARG2
        for st in _styles(name):
            for a, b in pairs:
                out.append(("G", name, st, (a, b)))
    # (c) unions
    for i, a in enumerate(UNION_CORE):
        for b in UNION_CORE[i + 1:]:
            out.append(U(a, b))
    for i, a in enumerate(TYPE_LEAVES):
        for b in TYPE_LEAVES[i + 1:]:
            out.append(U(a, b, style="or"))
    n = len(UNION3_CORE)
    for i in range(n):
        for j in range(i + 1, n):
            for k in range(j + 1, n):
                out.append(U(UNION3_CORE[i], UNION3_CORE[j], UNION3_CORE[k]))
    # (d) Optional
    for a in depth0():
        out.append(("Opt", a))
    # (e) tuples
    out.append(Tup())
    out.append(Tup(style="b"))
    for a in TUP_ARGS:
        out.append(Tup(a))
        out.append(Tup(a, kind="var"))
        for b in TUP_ARGS:
            out.append(Tup(a, b))
    out += [Tup(L("int"), L("bool"), style="b"), Tup(L("X1"), L("X2"), style="b"), Tup(L("int"), L("str"), L("bool"))]
    # (f) Annotated
    for a in depth0():
        out.append(("Ann", a, "m"))
    return out


CORE_LEAVES = [L("int"), L("bool"), L("str"), L("None"), L("X1"), L("X2"), Lit("0"), Lit("False"), Lit("0", "1"),
               G("list", style="t"), G("GC")]


def depth1_core():
    out = []
    for i, a in enumerate(CORE_LEAVES):
        for b in CORE_LEAVES[i + 1:]:
            out.append(U(a, b))
    for a in CORE_LEAVES:
        out.append(("Opt", a))
        out.append(G("list", a, style="t"))
        out.append(G("list", a))
        out.append(G("dict", L("str"), a, style="t"))
        out.append(G("G", a))
        out.append(Tup(a, L("int")))
        out.append(("Ann", a, "m"))
    out += [G("type", L("int"), style="t"), G("type", L("X1")), G("GC", L("int")), G("GB", L("bool")),
            G("Pattern", L("str")), Tup(L("int"), kind="var"), U(L("int"), L("str"), L("None"))]
    return out


def wrap(inner_list):
    """the unary / binary constructors that lift hints one level"""
    out = []
    for d in inner_list:
        out.append(G("list", d, style="t"))
        out.append(("Opt", d))
        out.append(G("dict", L("str"), d, style="t"))
        out.append(Tup(d, L("int")))
        out.append(Tup(L("int"), d, style="b"))
        out.append(U(d, L("bytes")))
        if d[0] != "Ann":     # typing flattens Annotated[Annotated[T, x], y]; the property says nothing about that equivalence
            out.append(("Ann", d, "m"))
        out.append(G("G", d))
        out.append(G("type", d, style="t"))
    return out


def depth1_tiny():
    return [
        U(L("int"), L("str")), U(L("X1"), L("X2")), U(Lit("0"), Lit("False")), ("Opt", L("int")), ("Opt", L("X1")),
        ("Opt", Lit("0")), G("list", L("int"), style="t"), G("list", L("int")), G("list", L("bool"), style="t"),
        G("list", L("X1"), style="t"), G("list", L("X2")), G("list", Lit("0"), style="t"), G("list", Lit("False")),
        G("dict", L("str"), L("int"), style="t"), G("dict", L("str"), L("int")), Tup(L("int"), L("str")),
        Tup(L("str"), L("int")), Tup(L("X1"), L("X2")), ("Ann", L("int"), "m"), G("G", L("int")), G("G", L("X1")),
        G("GC", L("int")), G("type", L("X1"), style="t"), G("type", L("X2")), G("Pattern", L("str"), style="t"),
    ]


def depth1_small():
    """the part of the depth-1 hints that the quick tier lifts to depth 2"""
    return depth1_tiny() + [
        ("Opt", G("list", style="t")), U(L("int"), G("GC")), U(L("int"), L("str"), L("None")), U(Lit("0"), L("None")),
        U(G("list"), G("list", style="t")), Lit("0", "False"), G("GC"), G("list", style="t"), Lit("F1.A", "F2.A"),
    ]


def depth2(tier):
    tiny = depth1_tiny()
    if tier == "quick":
        out = wrap(depth1_small())
        pair_pool, dict_pool = tiny[:12], tiny[:5]
    else:
        out = wrap(depth1_core() + depth1_small())
        pair_pool, dict_pool = tiny, tiny[:10]
    for i, a in enumerate(pair_pool):
        for b in pair_pool[i + 1:]:
            out.append(U(a, b))
    for a in dict_pool:
        for b in dict_pool:
            out.append(G("dict", a, b, style="t"))
    return out


def depth3():
    out = []
    for d in wrap(depth1_small()):
        out += [G("list", d, style="t"), ("Opt", d), G("dict", L("str"), d, style="t"), U(d, L("bytes"))]
    tiny = depth1_tiny()
    for a in tiny[:8]:
        for b in tiny[:8]:
            out.append(U(G("list", a, style="t"), ("Opt", b)))
    return out


def base_hints(tier):
    hints = depth0() + depth1() + depth2(tier)
    if CFG[tier]["grammar"] >= 3:
        hints += depth3()
    seen = set()
    out = []
    for s in hints:
        if s not in seen:
            seen.add(s)
            out.append(s)
    out.sort(key=lambda s: (R.depth(s), R.size(s), R.render(s)))
    return out


# ------------------------------------------------------------------------------------------------------------
# observation of the implementation


def reset():
    env.reset_process_caches()


def norm(h):
    try:
        return ("ok", NT.normalize_type(h))
    except Exception as e:  # noqa: BLE001
        return ("err", type(e).__name__)


def norm_cold(h):
    reset()
    return norm(h)


def build_cold(spec):
    reset()
    return R.build(spec)


def same(a, b):
    """-> (equal, equal hash)"""
    if a[0] != b[0]:
        return False, False
    if a[0] == "err":
        return a[1] == b[1], True
    eq = (a[1] == b[1]) and (b[1] == a[1]) and not (a[1] != b[1])
    return eq, (hash(a[1]) == hash(b[1]))


def collapsed(a, b):
    """True when two normal forms that must differ compare equal in either direction"""
    if a[0] != "ok" or b[0] != "ok":
        return False
    return (a[1] == b[1]) or (b[1] == a[1])


def unordered_key(n):
    """a normal form with the members of unions and literals as sets - used only to DESCRIBE how two unequal forms differ"""
    if isinstance(n, NT.BaseNormType):
        if isinstance(n, NT.NormTV):
            return ("TV", n.origin)
        if n.origin is typing.Union:
            alts = set()
            for a in n.args:
                k = unordered_key(a)
                alts |= k[1] if k[0] == "U" else {k}
            return next(iter(alts)) if len(alts) == 1 else ("U", frozenset(alts))
        if n.origin is typing.Literal:
            return ("L", frozenset((type(a), a) for a in n.args))
        return ("N", n.origin, tuple(unordered_key(a) for a in n.args))
    if isinstance(n, tuple):
        return tuple(unordered_key(a) for a in n)
    return ("V", n)


def how_differs(a, b):
    """names the kind of node at which two unequal normal forms of equivalent hints part (diagnosis only)"""
    if a[0] != "ok" or b[0] != "ok":
        return "one raises"
    try:
        if unordered_key(a[1]) != unordered_key(b[1]):
            return "structure"
        return _order_culprit(a[1], b[1]) or "structure"
    except TypeError:
        return "structure"


def _order_culprit(a, b):  # noqa: C901, PLR0911, PLR0912
    """a, b: unequal normal forms with equal unordered_key -> 'order of Union members' / 'order of Literal members'"""
    if not (isinstance(a, NT.BaseNormType) and isinstance(b, NT.BaseNormType)):
        return None
    if a == b:
        return None
    a_union, b_union = a.origin is typing.Union, b.origin is typing.Union
    if a_union or b_union:
        # first look for a pair of members that are the same up to order but unequal: the culprit is inside them
        pool = [*(a.args if a_union else (a,)), *(b.args if b_union else (b,))]
        for i, x in enumerate(pool):
            for y in pool[i + 1:]:
                if x != y and unordered_key(x) == unordered_key(y):
                    return _order_culprit(x, y)
        return "order of Union members"
    if a.origin is typing.Literal and b.origin is typing.Literal:
        return "order of Literal members"
    for x, y in zip(a.args, b.args):
        if isinstance(x, tuple) and isinstance(y, tuple):
            for p, q in zip(x, y):
                got = _order_culprit(p, q)
                if got:
                    return got
        got = _order_culprit(x, y)
        if got:
            return got
    return None


def show_norm(n):
    return repr(n[1])[:300] if n[0] == "ok" else f"raises {n[1]}"


def norm_nodes(n, where="top"):
    """the normal form and every normal form nested in its arguments"""
    yield where, n
    for a in n.args:
        if isinstance(a, NT.BaseNormType):
            yield from norm_nodes(a, "inner")
        elif isinstance(a, tuple):
            for x in a:
                if isinstance(x, NT.BaseNormType):
                    yield from norm_nodes(x, "inner")


def node_kind(n):  # noqa: PLR0911
    """coarse, address-free name of the kind of normal-form node (part of violation signatures)"""
    if isinstance(n, NT.NormTV):
        return "TypeVar"
    o = n.origin
    if o is typing.Union:
        return "Union"
    if o is typing.Literal:
        return "Literal"
    if o is typing.Annotated:
        return "Annotated"
    if o is None:
        return "None"
    if isinstance(o, type):
        return "user class" if o in _INSTANCE_NAMES or o is R.E else o.__name__
    return type(o).__name__


# ---- behaviour

_INSTANCE_NAMES = {R.A: "A", R.X1: "X1", R.X2: "X2", R.G: "G", R.GB: "GB", R.GC: "GC", R.G2: "G2", R.GP: "GP", R.GPB: "GPB",
                   R.GPC: "GPC"}
LOAD_DATA = [0, False, 1, True, "a", None, [1], [True], ["a"], {"k": 1}, (1, "a"), {"a": 1}, {"a": "s"}, {"x": 1},
             {"x": "a"}, "ea", "f1a", [], {}]
DUMP_VALUES = [0, False, 1, True, "a", None, [1], [True], ["a"], {"k": 1}, (1, "a"), R.X1(1), R.X2("s"), R.G(1), R.GC("a"),
               R.E.A, R.F1.A, R.F2.A, b"x", {1}, int, R.X1]


def rend(v):  # noqa: PLR0911
    """type-exact rendering without addresses; same-named classes are told apart"""
    t = type(v)
    if t in _INSTANCE_NAMES:
        return f"{_INSTANCE_NAMES[t]}({', '.join(f'{k}={rend(x)}' for k, x in vars(v).items())})"
    if t in (list, tuple, set, frozenset, deque):
        items = [rend(x) for x in v]
        if t in (set, frozenset):
            items.sort()
        return f"{t.__name__}({', '.join(items)})"
    if isinstance(v, dict):
        return f"{t.__name__}{{{', '.join(f'{rend(k)}: {rend(x)}' for k, x in v.items())}}}"
    if isinstance(v, type):
        return f"class:{_INSTANCE_NAMES.get(v, v.__name__)}"
    if t is R.F1:
        return f"F1.{v.name}"
    if t is R.F2:
        return f"F2.{v.name}"
    r = repr(v)
    if " at 0x" in r:
        r = "<object>"
    return f"{t.__name__}:{r}"


def _call(fn, x, keep_exc_class):
    try:
        return "ok:" + rend(fn(x))[:200]
    except LoadError:
        return "err:LoadError"       # which LoadError subclass reports a rejection is not part of the property
    except Exception as e:  # noqa: BLE001
        return "err:" + type(e).__name__ if keep_exc_class else "err"


def behaviour(h):
    """-> {"load": tuple | ("none", exc), "dump": ...} from fresh retorts in a cold process state"""
    out = {}
    reset()
    try:
        ld = Retort().get_loader(h)
    except Exception as e:  # noqa: BLE001
        out["load"] = ("no-loader", type(e).__name__)
    else:
        out["load"] = tuple(_call(ld, d, True) for d in LOAD_DATA)
    reset()
    try:
        dp = Retort().get_dumper(h)
    except Exception as e:  # noqa: BLE001
        out["dump"] = ("no-dumper", type(e).__name__)
    else:
        out["dump"] = tuple(_call(dp, d, False) for d in DUMP_VALUES)
    return out


_GENERIC_OBJECTS = R.generic_origin_objects()


def bare_generic_flag(h):
    """predicates treat a bare generic class specially (matches by class, documented), also under Annotated (not accepted)"""
    if typing.get_origin(h) is typing.Annotated:
        return "annotated:" + bare_generic_flag(h.__origin__)
    try:
        return "bare generic" if h in _GENERIC_OBJECTS else "other"
    except TypeError:
        return "other"


def predicate_vector(h, probes):
    """-> tuple of bools (does the predicate built from h match a stack ending in probe?) or ("no-predicate", exc)"""
    reset()
    try:
        lsc = create_loc_stack_checker(h)
    except ValueError as e:
        return ("no-predicate", type(e).__name__)
    out = []
    for p in probes:
        reset()
        out.append(bool(lsc.check_loc_stack(None, LocStack(TypeHintLoc(type=p)))))
    return tuple(out)


def has_union_or_literal(m):
    if isinstance(m, tuple) and m and m[0] in ("union", "lit"):
        return True
    if isinstance(m, (tuple, frozenset)):
        return any(has_union_or_literal(x) for x in m)
    return False


# ------------------------------------------------------------------------------------------------------------
# single comparisons (shared by the exploration and by replay)


def eval_pair(spec_a, spec_b, cold, order="ab"):
    """normal forms of two hints: cold (reset before every call) or warm in the given order"""
    ha, hb = build_cold(spec_a), build_cold(spec_b)
    if cold:
        return norm_cold(ha), norm_cold(hb)
    reset()
    if order == "ab":
        na = norm(ha)
        nb = norm(hb)
    else:
        nb = norm(hb)
        na = norm(ha)
    return na, nb


def check_idempotent(h, cold, inner=True, n=None):
    """-> list of (where, node kind, text) for normal-form nodes whose source does not normalise back to them"""
    bad = []
    if n is None:
        reset()
        n = norm(h)
    if n[0] != "ok":
        return bad
    for where, node in norm_nodes(n[1]):
        if where == "inner" and not inner:
            continue
        if node.source is h and where == "top":
            continue    # normalising the same object again is the computation that produced n (cold) - nothing to compare
        if cold:
            reset()
        try:
            back = NT.normalize_type(node.source)
        except Exception as e:  # noqa: BLE001
            bad.append((where, node_kind(node), f"normalize_type({node.source!r}) raises {type(e).__name__} for node {node!r}"))
            continue
        if not (back == node and node == back and hash(back) == hash(node)):
            bad.append((where, node_kind(node), f"node {node!r} has source {node.source!r} which normalises to {back!r}"))
    return bad


def replay(case):  # noqa: C901, PLR0911, PLR0912
    kind = case["kind"]
    a = R.from_json(case["a"])
    b = R.from_json(case["b"]) if case.get("b") is not None else None
    if kind in ("equal", "hash"):
        na, nb = eval_pair(a, b, case["cold"], case.get("order", "ab"))
        eq, hs = same(na, nb)
        if kind == "equal" and not eq:
            return f"{R.render(a)} -> {show_norm(na)}  BUT equivalent  {R.render(b)} -> {show_norm(nb)}"
        if kind == "hash" and eq and not hs:
            return f"equal normal forms with different hash: {R.render(a)} / {R.render(b)}"
        return None
    if kind == "distinct":
        na, nb = eval_pair(a, b, case["cold"], case.get("order", "ab"))
        if collapsed(na, nb):
            return f"{R.render(a)} and the different type {R.render(b)} both normalise to {show_norm(na)} / {show_norm(nb)}"
        return None
    if kind == "idempotent":
        bad = check_idempotent(build_cold(a), case["cold"])
        return bad[0][2] if bad else None
    if kind == "behaviour":
        ba, bb = behaviour(build_cold(a)), behaviour(build_cold(b))
        diffs = [d for d in behaviour_diffs(ba, bb, R.meaning(a)) if d[0] is not None]
        return diffs[0][2] if diffs else None
    if kind == "predicate":
        probes = [build_cold(R.from_json(p)) for p in case["probes"]]
        va, vb = predicate_vector(build_cold(a), probes), predicate_vector(build_cold(b), probes)
        if va != vb and "no-predicate" not in (va[0], vb[0]):
            return f"predicates of {R.render(a)} and {R.render(b)} disagree: {va} vs {vb}"
        return None
    raise ValueError(kind)


SKIP_UNBUILDABLE = "rewrite / edit target is rejected by Python itself (e.g. None | None): not a hint"
SKIP_EDIT_NOOP = "edit leaves the meaning unchanged because the rewritten hint lists one alternative twice"
SKIP_UNDEFINED = "both members accept the datum with different results inside a union / Literal (documented undefined)"
SKIP_NOT_OF_TYPE = "dumpers differ on a value that is not (known to be) of the requested type: dumping it is not specified"
SKIP_NO_PREDICATE = "no predicate can be built from one of the two members (ValueError): nothing to compare"


def behaviour_diffs(b0, b1, m):
    """-> [(leg, kind of difference, text)] for differences that the documentation does not leave open; the ones it does leave
    open are returned with leg None"""
    out = []
    for leg, data in (("load", LOAD_DATA), ("dump", DUMP_VALUES)):
        x, y = b0[leg], b1[leg]
        if x == y:
            continue
        missing_x, missing_y = x[0] in ("no-loader", "no-dumper"), y[0] in ("no-loader", "no-dumper")
        if missing_x or missing_y:
            kind = "cannot be produced for one of them" if missing_x != missing_y else "different creation error"
            out.append((leg, kind, f"{leg}: the first gives {_brief(x)}, the second {_brief(y)}"))
            continue
        for d, ox, oy in zip(data, x, y):
            if ox == oy:
                continue
            if leg == "dump" and R.belongs(d, m) is not True:
                out.append((None, None, SKIP_NOT_OF_TYPE))
                continue
            both_ok = ox.startswith("ok:") and oy.startswith("ok:")
            if both_ok and has_union_or_literal(m):
                out.append((None, None, SKIP_UNDEFINED))
                continue
            kind = "different result" if both_ok else "accepted by one only" if ox[:2] != oy[:2] else "different error class"
            out.append((leg, kind, f"{leg} of {rend(d)}: {ox} vs {oy}"))
    return out


def _brief(x):
    if x[0] in ("no-loader", "no-dumper"):
        return f"{x[0]} ({x[1]})"
    return f"a working one ({sum(1 for o in x if o.startswith('ok:'))} of {len(x)} data accepted)"


# ------------------------------------------------------------------------------------------------------------
# exploration of one meaning class

class ClassExplorer:
    def __init__(self, seeds, report, cfg):
        self.seeds = seeds
        self.report = report
        self.cfg = cfg
        self.s0 = seeds[0]
        self.m0 = R.meaning(self.s0)
        self.info = {}      # spec -> (distance from nearest seed, parent spec, rule) | None for unbuildable
        self.order = []
        self.hints = {}
        self.cold = {}
        self._path_cache = {}

    # ---- graph
    def bfs(self):
        report = self.report
        frontier = []
        for s in self.seeds:
            if R.meaning(s) != self.m0:
                raise AssertionError(f"seed {R.render(s)} grouped into the wrong class")
            if s not in self.info:
                self.info[s] = (0, None, None)
                self.order.append(s)
                frontier.append(s)
        for d in range(self.cfg["bfs_depth"]):
            nxt = []
            for s in frontier:
                for rule, t in R.rewrites(s):
                    if R.meaning(t) != self.m0:
                        raise AssertionError(
                            f"reference self-check: rewrite {rule} of {R.render(s)} to {R.render(t)} changes the meaning")
                    if t not in self.info:
                        try:
                            R.build(t)
                        except R.Unbuildable:
                            self.info[t] = None
                            report.skip(SKIP_UNBUILDABLE)
                            continue
                        self.info[t] = (d + 1, s, rule)
                        self.order.append(t)
                        nxt.append(t)
                    elif self.info[t] is None:
                        continue
                    report.count("transitions")
                    report.count("rewrite_edges")
                    report.outcome("rewrite:" + rule)
            frontier = nxt
        report.count("states", len(self.order))
        report.outcome("class with >= 2 members" if len(self.order) >= 2 else "class with a single member")
        report.outcome(f"class size {_bucket(len(self.order))}")

    # ---- blame: the first rewrite on a path from s0 whose application changes the observed normal form
    def path_from_root(self, s):
        path = []
        while self.info[s][1] is not None:
            _, parent, rule = self.info[s]
            path.append((parent, rule, s))
            s = parent
        path.reverse()
        return s, path

    def seed_path(self, root):
        """a rewrite path s0 ~> root inside the explored graph (edges used in either direction)"""
        if root == self.s0:
            return []
        got = self._path_cache.get(root)
        if got is not None:
            return got
        for src, dst, flip in ((self.s0, root, False), (root, self.s0, True)):
            prev = {src: None}
            q = deque([src])
            while q and dst not in prev:
                s = q.popleft()
                for rule, t in R.rewrites(s):
                    if t not in prev and self.info.get(t) is not None:
                        prev[t] = (s, rule)
                        q.append(t)
            if dst in prev:
                path = []
                s = dst
                while prev[s] is not None:
                    p, rule = prev[s]
                    path.append((p, rule, s))
                    s = p
                path.reverse()
                if flip:
                    path = [(b, rule, a) for a, rule, b in reversed(path)]
                self._path_cache[root] = path
                return path
        self._path_cache[root] = None
        return None

    def blame(self, s, differs=None):
        """the first rewrite on the path from s0 to s across which the observation changes"""
        if differs is None:
            def differs(a, b):
                return not same(self.cold[a], self.cold[b])[0]
        root, path = self.path_from_root(s)
        sp = self.seed_path(root)
        full = (sp or []) + path
        for a, rule, b in full:
            if differs(a, b):
                return rule, [r for _, r, _ in full]
        if sp is None:
            return "(two base hints of equal meaning, no rewrite path within the bound)", [r for _, r, _ in full]
        return (full[-1][1] if full else "(base)"), [r for _, r, _ in full]

    # ---- evaluation
    def evaluate(self):  # noqa: C901, PLR0912, PLR0915
        report = self.report
        s0 = self.s0
        for s in self.order:
            self.hints[s] = build_cold(s)
            self.cold[s] = norm_cold(self.hints[s])
            report.outcome("normal form computed" if self.cold[s][0] == "ok" else f"normalize raises {self.cold[s][1]}")
        n0 = self.cold[s0]
        h0 = self.hints[s0]
        for s in self.order:
            dist = self.info[s][0]
            h = self.hints[s]
            key = R.render(s)
            report.case(("eq", key), nontrivial=(s != s0),
                        sample=lambda s=s: {"class_of": R.render(s0), "member": R.render(s), "rewrite_distance": self.info[s][0],
                                            "normal_form": show_norm(self.cold[s])})
            if s != s0:
                # (a) cold
                eq, hs = same(n0, self.cold[s])
                if not eq:
                    self.report_pair("equal", s, True, "ab", n0, self.cold[s])
                elif not hs:
                    self.report_pair("hash", s, True, "ab", n0, self.cold[s])
                # (b) warm, both orders
                for order in ("ab", "ba"):
                    reset()
                    if order == "ab":
                        na = norm(h0)
                        nb = norm(h)
                    else:
                        nb = norm(h)
                        na = norm(h0)
                    eq, hs = same(na, nb)
                    report.evaluations += 1
                    if not eq:
                        self.report_pair("equal", s, False, order, na, nb)
                    elif not hs:
                        self.report_pair("hash", s, False, order, na, nb)
            # idempotence of the normal form and of every nested normal form
            if dist <= self.cfg["inner_dist"]:
                self.idempotence(s, h, inner=True)
            else:
                self.idempotence(s, h, inner=False)
            if dist <= self.cfg["edit_dist"]:
                self.apply_edits(s)
        report.count("traces_validated_against_impl")
        self.behaviour_leg()

    def idempotence(self, s, h, inner):
        # cold only: warm, normalize_type(n.source) of the top node is a cache hit by construction
        self.report.evaluations += 1
        for where, kind, text in check_idempotent(h, True, inner=inner, n=self.cold[s]):
            self.report.violation(
                {"check": "C15.idempotent", "node": kind, "where": where, "cold": True},
                f"{R.render(s)}: {text}",
                {"kind": "idempotent", "a": R.to_json(s), "b": None, "cold": True},
            )

    def report_pair(self, kind, s, cold, order, na, nb):
        rule, rules = self.blame(s)
        case = {"kind": kind, "a": R.to_json(self.s0), "b": R.to_json(s), "cold": cold, "order": order}
        again = replay(case)
        if again is None:
            raise RuntimeError(f"non-deterministic verdict for {case}")
        sig = {"check": f"C15.{kind}", "rewrite": rule, "cold": cold}
        if kind == "equal":
            sig["differs"] = how_differs(na, nb)
        self.report.violation(
            sig,
            f"{'cold' if cold else 'warm ' + order}: {R.render(self.s0)} -> {show_norm(na)}  BUT the equivalent hint "
            f"{R.render(s)} (rewrites {rules}) -> {show_norm(nb)}",
            case,
        )

    def apply_edits(self, s):
        report = self.report
        dup_free = R.duplicate_free(s)
        h = self.hints[s]
        n = self.cold[s]
        for rule, e in R.edits(s):
            if R.meaning(e) == self.m0:
                if dup_free:
                    raise AssertionError(
                        f"reference self-check: edit {rule} of {R.render(s)} to {R.render(e)} does not change the meaning")
                report.skip(SKIP_EDIT_NOOP)
                continue
            try:
                he = build_cold(e)
            except R.Unbuildable:
                report.skip(SKIP_UNBUILDABLE)
                continue
            report.count("transitions")
            report.count("edit_edges")
            report.outcome("edit:" + rule)
            report.case(None)
            ne = norm_cold(he)
            if ne[0] != "ok":
                report.outcome(f"edited hint: normalize raises {ne[1]}")
            if collapsed(n, ne):
                self.report_edit(rule, s, e, True, "ab", n, ne)
            for order in ("ab", "ba"):
                reset()
                if order == "ab":
                    na = norm(h)
                    nb = norm(he)
                else:
                    nb = norm(he)
                    na = norm(h)
                report.evaluations += 1
                if collapsed(na, nb):
                    self.report_edit(rule, s, e, False, order, na, nb)

    def report_edit(self, rule, s, e, cold, order, na, nb):
        case = {"kind": "distinct", "a": R.to_json(s), "b": R.to_json(e), "cold": cold, "order": order}
        if replay(case) is None:
            raise RuntimeError(f"non-deterministic verdict for {case}")
        self.report.violation(
            {"check": "C15.distinct", "edit": rule, "cold": cold},
            f"{'cold' if cold else 'warm ' + order}: {R.render(s)} -> {show_norm(na)} and the DIFFERENT type {R.render(e)} "
            f"(edit {rule}) -> {show_norm(nb)} compare equal",
            case,
        )

    # ---- behavioural leg
    def selected(self):
        k = self.cfg["behaviour_members"]
        if len(self.order) <= k:
            return list(self.order)
        # the representative, then an even spread over the BFS order (all distances are represented)
        step = (len(self.order) - 1) / (k - 1)
        idx = sorted({round(i * step) for i in range(k)})
        return [self.order[i] for i in idx]

    def behaviour_leg(self):  # noqa: C901, PLR0912
        report = self.report
        sel = self.selected()
        s0 = self.s0
        b0 = behaviour(self.hints[s0])
        beh = {s0: b0}

        def beh_of(x):
            if x not in beh:
                beh[x] = behaviour(self.hints[x])
            return beh[x]
        report.outcome("class loadable" if b0["load"][0] != "no-loader" else f"class without loader ({b0['load'][1]})")
        report.outcome("class dumpable" if b0["dump"][0] != "no-dumper" else f"class without dumper ({b0['dump'][1]})")
        for leg in ("load", "dump"):
            if b0[leg][0] not in ("no-loader", "no-dumper"):
                report.outcome(f"{leg}: accepted", sum(1 for o in b0[leg] if o.startswith("ok:")))
                report.outcome(f"{leg}: rejected", sum(1 for o in b0[leg] if o.startswith("err")))
        for s in sel:
            if s == s0:
                continue
            b = beh_of(s)
            report.case(None)
            report.count("behaviour_members_compared")
            for leg, kind, text in behaviour_diffs(b0, b, self.m0):
                if leg is None:
                    report.skip(text)
                    continue
                rule, rules = self.blame(
                    s, lambda x, y, leg=leg: any(d[0] == leg for d in behaviour_diffs(beh_of(x), beh_of(y), self.m0)))
                report.violation(
                    {"check": "C15.behaviour", "rewrite": rule, "cold": True, "leg": leg, "differs": kind},
                    f"{R.render(s0)} vs equivalent {R.render(s)} (rewrites {rules}): {text}",
                    {"kind": "behaviour", "a": R.to_json(s0), "b": R.to_json(s), "cold": True},
                )
        # predicates: members are compared within the group that agrees on "is a bare generic at top level"
        probes_specs = list(sel)
        for _rule, e in R.edits(s0):
            if len(probes_specs) >= len(sel) + 6:
                break
            if R.meaning(e) != self.m0:
                try:
                    R.build(e)
                except R.Unbuildable:
                    continue
                probes_specs.append(e)
        probes_specs += [("L", "int"), ("L", "str"), ("G", "list", "t", (("L", "int"),)), ("G", "list", "b", None)]
        probes = [build_cold(p) for p in probes_specs]
        groups = {}
        for s in sel:
            flag = bare_generic_flag(self.hints[s])
            vec = predicate_vector(self.hints[s], probes)
            if vec[0] == "no-predicate":
                report.outcome("predicate cannot be built (ValueError)")
                report.skip(SKIP_NO_PREDICATE)
                continue
            report.outcome("predicate: matches", sum(vec))
            report.outcome("predicate: does not match", len(vec) - sum(vec))
            report.count("predicates_compared")
            first = groups.get(flag)
            if first is None:
                groups[flag] = (s, vec)
            elif first[1] != vec:
                pv = {}

                def pred_of(x):
                    if x not in pv:
                        pv[x] = (bare_generic_flag(self.hints[x]), predicate_vector(self.hints[x], probes))
                    return pv[x]

                rule, rules = self.blame(
                    s, lambda x, y: pred_of(x)[0] == pred_of(y)[0] and "no-predicate" not in (pred_of(x)[1][0], pred_of(y)[1][0])
                    and pred_of(x)[1] != pred_of(y)[1])
                report.violation(
                    {"check": "C15.behaviour", "rewrite": rule, "cold": True, "leg": "predicate",
                     "differs": "matches different stacks"},
                    f"predicates built from {R.render(first[0])} and from the equivalent {R.render(s)} (rewrites {rules}) "
                    f"disagree on the stacks ending in {[R.render(p) for p, x, y in zip(probes_specs, first[1], vec) if x != y]}",
                    {"kind": "predicate", "a": R.to_json(first[0]), "b": R.to_json(s), "cold": True,
                     "probes": [R.to_json(p) for p in probes_specs]},
                )


def _bucket(n):
    for b in (1, 2, 5, 10, 30, 100, 300, 1000, 3000, 10000):
        if n <= b:
            return f"<= {b}"
    return "> 10000"


# ------------------------------------------------------------------------------------------------------------
# driver


def shard(args):
    tier, seeds = args
    report = Report()
    ex = ClassExplorer(seeds, report, CFG[tier])
    ex.bfs()
    ex.evaluate()
    return report


def partition(seeds):
    classes = {}
    for s in seeds:
        classes.setdefault(R.meaning(s), []).append(s)
    return list(classes.values())


def self_check(seeds):
    """framework errors, never verdicts"""
    import adaptix._internal.type_tools.constants as C

    covered = {R.ORIGINS[name][0] for name in R.BUILTIN_ORIGINS}
    missing = [k for k in C.BUILTIN_ORIGIN_TO_TYPEVARS if k not in covered]
    if missing:
        raise SystemExit(f"FRAMEWORK-ERROR: C15 grammar lacks builtin origins {missing}")
    for s in seeds:
        if R.uses_fresh(s):
            raise SystemExit(f"FRAMEWORK-ERROR: base hint {R.render(s)} uses an object reserved for edits")
        R.build(s)


def run(tier):
    report = Report()
    seeds = base_hints(tier)
    self_check(seeds)
    classes = partition(seeds)
    report.count("base_hints", len(seeds))
    report.count("meaning_classes", len(classes))
    # one meaning class per shard, the expensive ones first (cost grows steeply with the number and size of the base hints)
    classes.sort(key=lambda cl: -sum(R.size(s) ** 3 for s in cl))
    shards = [(tier, cl) for cl in classes]
    parallel.run_shards(shard, shards, report=report)
    return report


def SANITY(report, tier):  # noqa: N802, C901
    problems = []
    o = report.outcomes
    for rule in R.REWRITE_RULES:
        if not o.get("rewrite:" + rule):
            problems.append(f"rewrite rule {rule} never applied")
    for rule in R.EDIT_RULES:
        if not o.get("edit:" + rule):
            problems.append(f"edit rule {rule} never applied")
    if o.get("class with >= 2 members", 0) < 500:
        problems.append("fewer than 500 equivalence classes with >= 2 members")
    if report.counters["edit_edges"] < 5000:
        problems.append("fewer than 5000 edits applied")
    if not o.get("normal form computed"):
        problems.append("no normal form computed")
    for name in ("class loadable", "class dumpable", "load: accepted", "load: rejected", "dump: accepted", "dump: rejected",
                 "predicate: matches", "predicate: does not match"):
        if not o.get(name):
            problems.append(f"behavioural leg never saw '{name}'")
    if report.counters["traces_validated_against_impl"] != report.counters["meaning_classes"]:
        problems.append("not every meaning class was evaluated")
    return problems


def extra_evidence(report, tier):
    c = report.counters
    return {
        "states": c["states"],
        "transitions": c["transitions"],
        "traces_validated_against_impl": c["traces_validated_against_impl"],
        "base_hints": c["base_hints"],
        "meaning_classes": c["meaning_classes"],
        "classes_with_at_least_2_members": report.outcomes.get("class with >= 2 members", 0),
        "rewrite_edges": c["rewrite_edges"],
        "edit_edges": c["edit_edges"],
        "behaviour_members_compared": c["behaviour_members_compared"],
        "predicates_compared": c["predicates_compared"],
        "builtin_origins_covered": len(R.BUILTIN_ORIGINS),
        "jobs": int(os.environ.get("VERIF_JOBS", "0")) or env.ncpu(),
    }
