"""C16 — generic models: type arguments are substituted through the class hierarchy.

Specification-first generation: hierarchy SPECs (plain data) are enumerated completely from explicit alphabets, compiled to
real classes of every model kind that allows the spec, and the spec is evaluated symbolically by mc/ref_generic.py (which never
sees the classes and never calls adaptix).  For every leaf class x parametrisation the real loader/dumper must exist, must
accept and round-trip data that fit the reference field types, and must reject (LoadError) data that fit only another
substitution.  Field types are observed through behaviour only.
"""
import gc
import itertools
import linecache
import sys
import types
import typing
import warnings

from adaptix import Retort
from adaptix.load_error import AggregateLoadError, LoadError
from adaptix.struct_trail import get_trail

from mc import codec, env, parallel
from mc import ref_generic as rg
from mc.ref_generic import BOOL, INT, STR, var
from mc.report import Report, digest

META = {
    "level": "exploration",
    "rule": (
        "all hierarchy specs of the tier's grammar (roots x base-edge argument tuples x Generic[...] variants x own/overriding "
        "fields, chains, V-shapes, diamonds, the 5-class join of two non-generic intermediates, variadic shapes) x every model "
        "kind that allows the spec x every parametrisation of the leaf from the pool (and bare use) are executed; a case is "
        "non-trivial when the reference produced at least one datum that fits another substitution but not the actual one "
        "(so a wrong substitution is observable as a wrongly accepted or wrongly rejected datum)"
    ),
    "assumptions": [
        "TypeVars are shared module-level objects (T, U, B bound=int, C constrained (int, str), Ts) as in ordinary user code",
        "type pool for arguments {int, str, bool, List[int]}; field annotations over {T, U, List, Dict[str,.], Optional, Tuple, int}",
        "data are JSON-like (int/str/bool/None/list/dict); strict_coercion=True, debug_trail=ALL (the defaults of Retort())",
        "which declaration of a field a class sees is decided by the MRO (C3), as in Python's data model; a field reached through "
        "several base edges with different bindings, or seen differently by dataclasses' field collection and get_type_hints(), "
        "has no defined type: only creation is checked",
        "bare use of a TypeVarTuple (=> *tuple[Any, ...]) is documented as unsupported: skipped by rule",
        "specs that Python's typing / dataclasses / pydantic itself refuses to build are skipped by rule and counted",
    ],
    "bound": {
        "quick": (
            "<=3 classes (+ the fixed 5-class W-join): 17 roots x 6 kinds; 2-level = 17 roots x {bare base, every argument tuple "
            "over {T,U,int,str,List[T]} (bound/constrained positions: {B,int,bool}/{C,int,str})} x Generic variants {implicit, "
            "explicit, explicit reversed} x own fields {none, new z: v | List[v], re-annotation of the first inherited field with "
            "int | v | List[v]}; 3-level chains = 6 roots x (arguments over {T,U,int} + bare, same Generic variants, own {none, "
            "new, re-annotation int}) x (the same with implicit Generic); V-shapes 4x2 roots (distinct field names) and 2x2 "
            "(same field name), arguments over {T,U,int} + bare; variadic: 6 roots x 15 argument lists x Generic variants x own "
            "variants, 2 levels, dataclass; kinds dataclass/attrs/attrs with hand-written root __init__ around __attrs_init__/pydantic (NamedTuple/TypedDict single level), 2-level also attrs whose leaf writes a keyword-only __init__ naming every member; leaves of arity 2 "
            "with 3 of the 16 argument pairs + bare, other leaves with every pool argument + bare"
        ),
        "thorough": (
            "<=4 classes (+ W-join): 2-level with arguments over 11 expressions (arity 1) / 7 (arity 2), Generic variants incl. an "
            "extra own type variable placed first, own fields over {v, List[v], Optional[v], Dict[str,v], Tuple[v,int], second "
            "variable, Tuple[v,w]} and re-annotation of every inherited field; 3-level = 6 roots x quick's 2-level alphabet x small "
            "alphabet with explicit/reversed Generic; 4-level chains over the small alphabet; V-shapes 6x6 (distinct names, "
            "Generic variants) and 4x4 (same names); diamonds A0; A1(A0[..]); A2(A0[..]); A3(A1[..], A2[..]) over the small "
            "alphabets (first arm also re-annotating with v | List[v]) with equal and different bindings; variadic up to 3 levels (attrs up to 2); NamedTuple/TypedDict also "
            "2-level where the kind allows; all 16 argument pairs + bare"
        ),
    },
}

# attrs_init: attrs classes whose roots write their own typed __init__ around __attrs_init__ (the introspection then reads the
# constructor's signature; a child with a generated __init__ inherits the attribute __attrs_init__ without owning it)
# attrs_init_leaf: the leaf of a hierarchy of plain attrs classes writes a keyword-only __init__ naming every member with the type
# it has in the leaf's own variables (the introspection takes all field types from that signature: every field is overridden)
KINDS_ALL = ("dataclass", "attrs", "attrs_init", "pydantic", "namedtuple", "typeddict")
KINDS_MULTI = ("dataclass", "attrs", "attrs_init", "pydantic")
KINDS_TWO_LEVEL = (*KINDS_MULTI, "attrs_init_leaf")
ATTRS_KINDS = ("attrs", "attrs_init", "attrs_init_leaf")


# =============================================================================================== spec construction

def List_(t):
    return ("List", t)


def Dict_(t):
    return ("Dict", t)


def Opt_(t):
    return ("Optional", t)


def Tup_(*items):
    return ("Tuple", *items)


def mk_class(name, generic, bases, fields):
    return {
        "name": name,
        "generic": None if generic is None else list(generic),
        "bases": [{"cls": b, "args": None if a is None else rg.thaw(a)} for b, a in bases],
        "fields": [[n, rg.thaw(t)] for n, t in fields],
    }


def root_catalogue(level, suffix=""):
    """(generic, fields) of the classes without bases; level S < M < L"""
    x, y, k = "x" + suffix, "y" + suffix, "k" + suffix
    T, U, B, C = var("T"), var("U"), var("B"), var("C")
    out = [
        (["T"], [(x, T)]),
        (["T", "U"], [(x, T), (y, U)]),
        (["T"], [(x, List_(T))]),
        (["T", "U"], [(x, Tup_(T, U))]),
        (["B"], [(x, B)]),
        (["C"], [(x, C)]),
    ]
    if level in ("M", "L"):
        out += [
            (["T"], [(x, Opt_(T))]),
            (["T"], [(x, Dict_(T))]),
            (["T"], [(x, Tup_(T, INT))]),
            (["T"], [(x, T), (k, INT)]),
            (["B"], [(x, List_(B))]),
            (["C"], [(x, Opt_(C))]),
            (["T", "U"], [(x, List_(T)), (y, Dict_(U))]),
            (["T", "U"], [(x, Opt_(T)), (y, U)]),
            (["T", "U"], [(x, U), (y, T)]),
            (["T", "B"], [(x, T), (y, B)]),
            ([], [(k, INT)]),
        ]
    return out


ARGS_PLAIN = {
    "XS": [var("T"), INT, STR],
    "S": [var("T"), var("U"), INT],
    "L2": [var("T"), var("U"), INT, STR, List_(var("T")), BOOL, List_(var("U"))],
    "M": [var("T"), var("U"), INT, STR, List_(var("T"))],
    "L": [var("T"), var("U"), INT, STR, List_(var("T")), BOOL, List_(INT), List_(var("U")), Opt_(var("T")), var("B"),
          var("C")],
}
ARGS_BOUND = [var("B"), INT, BOOL]
ARGS_CONSTRAINED = [var("C"), INT, STR]


def arg_options(bparams, level):
    """None (bare base) and every tuple of argument expressions of the level's alphabet"""
    if not bparams:
        return [None]
    if level == "L" and len(bparams) > 1:
        level = "L2"
    doms = []
    for p in bparams:
        kind = rg.TYPEVARS[p]["kind"]
        doms.append(ARGS_PLAIN[level] if kind == "plain" else ARGS_BOUND if kind == "bound" else ARGS_CONSTRAINED)
    return [None, *[list(c) for c in itertools.product(*doms)]]


def generic_variants(av, level):
    """(Generic[...] list or None, extra variable or None)"""
    out = [(None, None)]
    if level in ("M", "L"):
        if av:
            out.append((list(av), None))
        if len(av) == 2:
            out.append((list(reversed(av)), None))
    if level == "L" and len(av) < 2:
        extra = next(v for v in ("T", "U") if v not in av)
        out.append(([extra, *av], extra))
    return out


def own_field_options(params, extra, inherited, level, new_name="z"):
    """lists of own (name, annotation) pairs: nothing, one new field, or a re-annotation of an inherited field"""
    focus = extra or (params[0] if params else None)
    v = var(focus) if focus else None
    out = []
    if extra is None:
        out.append([])
    new_anns = [v] if v else [INT]
    over_anns = [INT] if extra is None else []
    if level in ("M", "L") and v:
        new_anns.append(List_(v))
        over_anns += [v, List_(v)]
    elif extra is not None:
        over_anns.append(v)
    if level == "L":
        if v:
            new_anns += [Opt_(v), Dict_(v), Tup_(v, INT)]
        if len(params) == 2 and extra is None:
            new_anns += [var(params[1]), Tup_(var(params[0]), var(params[1]))]
            over_anns += [var(params[1])]
        if extra is None:
            over_anns.append(STR)
    for a in new_anns:
        out.append([(new_name, a)])
    targets = inherited if level == "L" else inherited[:1]
    for f in targets:
        for a in over_anns:
            out.append([(f, a)])
    return out


def child_classes(spec, base, name, level, new_name="z"):
    """every class `name` with the single base `base` the level's alphabets allow"""
    bparams = rg.class_params(spec, base)
    inherited = list(rg.members(spec, base))
    for args in arg_options(bparams, level["args"]):
        av = []
        for a in (args or ()):
            rg.vars_of(rg.freeze(a), av)
        for generic, extra in generic_variants(av, level["generic"]):
            params = generic if generic is not None else av
            for own in own_field_options(params, extra, inherited, level["own"], new_name):
                yield mk_class(name, generic, [(base, args)], own)


LV = {
    "S": {"args": "S", "generic": "S", "own": "S"},
    "Sg": {"args": "S", "generic": "M", "own": "S"},
    "Mq": {"args": "M", "generic": "M", "own": "M"},
    "Sm": {"args": "S", "generic": "S", "own": "M"},
    "L": {"args": "L", "generic": "L", "own": "L"},
}


def chains(root_level, levels):
    """root + one child per entry of `levels`"""
    for generic, fields in root_catalogue(root_level):
        root = mk_class("A0", generic, [], fields)
        yield from _extend({"classes": [root]}, levels)


def _extend(spec, levels):
    if not levels:
        yield spec
        return
    n = len(spec["classes"])
    for c in child_classes(spec, f"A{n - 1}", f"A{n}", LV[levels[0]], new_name=f"z{n}"):
        yield from _extend({"classes": [*spec["classes"], c]}, levels[1:])


def v_shapes(n_a, n_b, level, generic_level, same_names):
    """two roots (the first n_a / n_b entries of the small catalogue) and a leaf that inherits both"""
    roots_a = root_catalogue("S")[:n_a]
    roots_b = root_catalogue("S", suffix="" if same_names else "2")[:n_b]
    for ga, fa in roots_a:
        for gb, fb in roots_b:
            if not ga or not gb:
                continue
            base = {"classes": [mk_class("A0", ga, [], fa), mk_class("A1", gb, [], fb)]}
            for args_a in arg_options(ga, level):
                for args_b in arg_options(gb, level):
                    av = []
                    for a in [*(args_a or ()), *(args_b or ())]:
                        rg.vars_of(rg.freeze(a), av)
                    for generic, _ in generic_variants(av, generic_level):
                        yield {"classes": [*base["classes"], mk_class("A2", generic, [("A0", args_a), ("A1", args_b)], [])]}


DIAMOND_ARGS2 = [[var("T"), var("U")], [var("U"), var("T")], [INT, var("T")], [INT, STR]]


def diamonds(root_level, first_level, mid_level, top_level):
    """A0; A1(A0[..]) and A2(A0[..]); A3(A1[..], A2[..])"""
    for generic, fields in root_catalogue(root_level):
        if not generic:
            continue
        s0 = {"classes": [mk_class("A0", generic, [], fields)]}
        mids1 = list(child_classes(s0, "A0", "A1", LV[first_level], new_name="z1"))
        mids2 = list(child_classes(s0, "A0", "A2", LV[mid_level], new_name="z2"))
        if len(generic) == 2:      # the arms over a two-parameter root: same, swapped, partial, concrete, bare only
            keep = [None, *[rg.thaw(a) for a in DIAMOND_ARGS2]]
            mids1 = [m for m in mids1 if m["bases"][0]["args"] in keep]
            mids2 = [m for m in mids2 if m["bases"][0]["args"] in keep]
        for m1 in mids1:
            for m2 in mids2:
                s2 = {"classes": [s0["classes"][0], m1, m2]}
                p1, p2 = rg.class_params(s2, "A1"), rg.class_params(s2, "A2")
                for a1 in arg_options(p1, top_level):
                    for a2 in arg_options(p2, top_level):
                        yield {"classes": [*s2["classes"], mk_class("A3", None, [("A1", a1), ("A2", a2)], [])]}


def w_joins():
    """two generic roots, each closed by a non-generic class, joined by a plain class (5 classes)"""
    for (ga, fa), (gb, fb) in itertools.product(root_catalogue("S"), root_catalogue("S", suffix="2")):
        if len(ga) != 1 or len(gb) != 1:
            continue
        for a in arg_options(ga, "S")[1:]:
            for b in arg_options(gb, "S")[1:]:
                if rg.vars_of(rg.freeze(a[0])) or rg.vars_of(rg.freeze(b[0])):
                    continue
                yield {"classes": [
                    mk_class("A0", ga, [], fa), mk_class("A1", gb, [], fb),
                    mk_class("A2", None, [("A0", a)], []), mk_class("A3", None, [("A1", b)], []),
                    mk_class("A4", None, [("A2", None), ("A3", None)], []),
                ]}


# ---- variadic family

UTS = ("unpack", "Ts")
V_ROOTS = [
    (["Ts"], [("x", Tup_(UTS))]),
    (["T", "Ts"], [("x", var("T")), ("y", Tup_(UTS))]),
    (["T", "Ts"], [("x", Tup_(var("T"), UTS))]),
    (["Ts", "T"], [("x", Tup_(UTS)), ("y", var("T"))]),
    (["Ts"], [("x", Tup_(INT, UTS))]),
    (["Ts"], [("x", List_(Tup_(UTS)))]),
]
V_ARGS = [
    None, [UTS], [INT, UTS], [UTS, INT], [("unpack_tuple", INT, STR)], [INT, STR], [INT], [], [var("T"), UTS], [var("T")],
    [var("T"), var("U")], [var("T"), INT, UTS], [INT, ("unpack_tuple", STR, BOOL)], [UTS, var("T")], [STR, UTS, var("T")],
]


def variadic_children(spec, base, name, new_name, alphabet=None):
    inherited = list(rg.members(spec, base))
    for args in (V_ARGS if alphabet is None else alphabet):
        av = []
        for a in (args or ()):
            rg.vars_of(rg.freeze(a), av)
        generics = [None] + ([list(av)] if av else []) + ([list(reversed(av))] if len(av) == 2 else [])
        for generic in generics:
            params = generic if generic is not None else av
            owns = [[]]
            if "Ts" in params:
                owns.append([(new_name, Tup_(UTS))])
                owns.append([(inherited[0], Tup_(UTS, INT))])
            if "T" in params:
                owns.append([(new_name, var("T"))])
            owns.append([(inherited[0], INT)])
            for own in owns:
                yield mk_class(name, generic, [(base, args)], own)


def variadic_specs(depth):
    for generic, fields in V_ROOTS:
        s0 = {"classes": [mk_class("A0", generic, [], fields)]}
        yield s0
        if depth < 2:
            continue
        for c1 in variadic_children(s0, "A0", "A1", "z1"):
            s1 = {"classes": [s0["classes"][0], c1]}
            yield s1       # (an illegal one is counted as skipped by the evaluator)
            if depth < 3 or rg.legality(s1) is not None:
                continue
            for c2 in variadic_children(s1, "A1", "A2", "z2", V_ARGS3):
                if c2["fields"] and c2["fields"][0][0] != "z2":
                    continue       # 3rd level: no further overrides (keeps the family small)
                yield {"classes": [*s1["classes"], c2]}


V_ARGS3 = [[UTS], [INT, UTS], [("unpack_tuple", INT, STR)], [INT], [var("T"), UTS], [UTS, var("T")], [STR, UTS, var("T")]]
V_LEAF_ARGS = [[], [INT], [INT, STR], [STR, BOOL, List_(INT)], [BOOL, INT]]


# ---- the enumeration of a tier: (family name, kinds, spec)

def pydantic_canonical(spec):
    """pydantic demands an explicit Generic[...] on a generic subclass, so the implicit variant of a class is the same pydantic
    program as its explicit same-order variant"""
    return digest([[c["name"], c["generic"] if c["generic"] is not None or not c["bases"] else rg.class_params(spec, c["name"]),
                    c["bases"], c["fields"]] for c in spec["classes"]])


def enumerate_specs(tier):
    """(family, kinds, spec); pydantic is dropped from the kinds of a spec whose pydantic program was already enumerated"""
    seen = set()
    for family, kinds, spec in _enumerate_specs(tier):
        if "pydantic" in kinds:
            k = pydantic_canonical(spec)
            if k in seen:
                kinds = tuple(x for x in kinds if x != "pydantic")
            seen.add(k)
        yield family, kinds, spec


def _enumerate_specs(tier):  # noqa: C901
    single = KINDS_ALL
    multi = KINDS_MULTI
    if tier == "quick":
        for s in chains("M", []):
            yield "single", single, s
        for s in chains("M", ["Mq"]):
            yield "two_level", KINDS_TWO_LEVEL, s
        for s in chains("S", ["Sg", "S"]):
            yield "three_level", multi, s
        for s in v_shapes(4, 2, "S", "S", same_names=False):
            yield "v_shape", multi, s
        for s in v_shapes(2, 2, "S", "S", same_names=True):
            yield "v_shape_same_names", multi, s
        for s in w_joins():
            yield "w_join", multi, s
        for s in variadic_specs(2):
            yield "variadic", ("dataclass",), s
        for s in pep604_specs():
            yield "pep604", ("dataclass", "attrs", "typeddict"), s
    else:
        for s in pep604_specs():
            yield "pep604", ("dataclass", "attrs", "typeddict"), s
        for s in chains("M", []):
            yield "single", single, s
        for s in chains("M", ["L"]):
            yield "two_level", KINDS_TWO_LEVEL, s
        for s in chains("M", ["S"]):
            yield "two_level_nt_td", ("namedtuple", "typeddict"), s
        for s in chains("S", ["Mq", "Sg"]):
            yield "three_level", multi, s
        for s in chains("S", ["S", "S", "S"]):
            yield "four_level", multi, s
        for s in v_shapes(6, 6, "S", "M", same_names=False):
            yield "v_shape", multi, s
        for s in v_shapes(4, 4, "S", "S", same_names=True):
            yield "v_shape_same_names", multi, s
        for s in diamonds("S", "Sm", "S", "XS"):
            yield "diamond", multi, s
        for s in w_joins():
            yield "w_join", multi, s
        for s in variadic_specs(3):
            yield "variadic", ("dataclass", "attrs") if len(s["classes"]) < 3 else ("dataclass",), s


QUICK_PAIRS = [(0, 1), (3, 2), (1, 0)]


def leaf_parametrisations(spec, leaf, tier, all_pairs=False):
    """None = bare use (for a non-generic leaf: the class itself); otherwise argument lists over the pool"""
    params = rg.class_params(spec, leaf)
    if not params:
        return [None]
    if any(rg.TYPEVARS[p]["kind"] == "tuple" for p in params):
        n_fixed = len(params) - 1
        return [None, *[rg.thaw(a) for a in V_LEAF_ARGS if len(a) >= n_fixed]]
    doms = []
    for p in params:
        kind = rg.TYPEVARS[p]["kind"]
        doms.append(list(rg.POOL) if kind == "plain" else [INT, BOOL] if kind == "bound" else [INT, STR])
    if len(params) == 2 and tier == "quick" and not all_pairs:
        combos = []
        for i, j in QUICK_PAIRS:
            c = (doms[0][i % len(doms[0])], doms[1][j % len(doms[1])])
            if c not in combos:
                combos.append(c)
    else:
        combos = list(itertools.product(*doms))
    return [None, *[rg.thaw(list(c)) for c in combos]]


# =============================================================================================== compilation to real classes

PREAMBLE = """
from dataclasses import dataclass
from typing import Any, Dict, Generic, List, NamedTuple, Optional, Tuple, TypedDict, TypeVar, TypeVarTuple, Union
import attrs
from pydantic import BaseModel
T = TypeVar("T")
U = TypeVar("U")
B = TypeVar("B", bound=int)
C = TypeVar("C", int, str)
Ts = TypeVarTuple("Ts")
"""

_MODULE = None


def model_module():
    global _MODULE  # noqa: PLW0603
    if _MODULE is None:
        warnings.filterwarnings("ignore", category=UserWarning, module="pydantic")
        _MODULE = types.ModuleType("c16_models")
        sys.modules["c16_models"] = _MODULE
        exec(PREAMBLE, _MODULE.__dict__)  # noqa: S102
    return _MODULE


def render_param(p):
    return "*Ts" if p == "Ts" else p


def render604(t):
    """the same annotation in the PEP 604 / PEP 585 spelling: Optional[List[T]] is written ``list[T] | None`` (a
    types.UnionType holding a type variable, not a typing.Union)"""
    h = t[0]
    if h == "Optional":
        return f"{render604(t[1])} | None"
    if h == "List":
        return f"list[{render604(t[1])}]"
    if h == "Dict":
        return f"dict[str, {render604(t[1])}]"
    if h == "Tuple" and len(t) > 1 and all(i[0] not in ("unpack", "unpack_tuple", "unbounded") for i in t[1:]):
        return "tuple[" + ", ".join(render604(i) for i in t[1:]) + "]"
    return rg.render(t)


def pep604_specs():
    """one- and two-level hierarchies whose annotations are unions of parametrised builtin generics in the `|` spelling"""
    T, U = var("T"), var("U")
    roots = [
        (["T"], [("x", Opt_(List_(T)))]),
        (["T"], [("x", Opt_(Dict_(T)))]),
        (["T", "U"], [("x", Opt_(List_(T))), ("y", Opt_(Tup_(U, INT)))]),
        (["T"], [("x", List_(Opt_(List_(T))))]),
        (["T"], [("x", Opt_(T)), ("k", Opt_(List_(INT)))]),
    ]
    for generic, fields in roots:
        root = mk_class("A0", generic, [], fields)
        yield {"classes": [root], "pep604": True}
        for args in ([INT], [List_(INT)], [T], [U]) if len(generic) == 1 else ([INT, STR], [T, INT], [U, T]):
            used = []
            for a in args:
                for v in rg.vars_of(a):
                    if v not in used:
                        used.append(v)
            child = mk_class("A1", used or None, [("A0", args)], [("z", Opt_(List_(var(used[0]))))] if used else [])
            yield {"classes": [root, child], "pep604": True}


def render_source(spec, kind):
    lines = []
    # two slotted attrs classes with fields cannot be combined by multiple inheritance (CPython lay-out conflict)
    attrs_deco = "@attrs.define(slots=False)" if any(len(c["bases"]) > 1 for c in spec["classes"]) else "@attrs.define"
    for c in spec["classes"]:
        bases = []
        for b in c["bases"]:
            if b["args"] is None:
                bases.append(b["cls"])
            elif not b["args"]:
                bases.append(f'{b["cls"]}[()]')
            else:
                bases.append(f'{b["cls"]}[{", ".join(rg.render(rg.freeze(a)) for a in b["args"])}]')
        generic = c["generic"]
        if kind == "pydantic" and generic is None:
            derived = rg.class_params(spec, c["name"])
            generic = derived or None            # pydantic demands an explicit Generic[...] on a generic subclass
        if not c["bases"]:
            marker = {"pydantic": "BaseModel", "namedtuple": "NamedTuple", "typeddict": "TypedDict"}.get(kind)
            if marker:
                bases.insert(0, marker)
        if generic:
            bases.append("Generic[" + ", ".join(render_param(p) for p in generic) + "]")
        if kind == "dataclass":
            lines.append("@dataclass")
        elif kind in ATTRS_KINDS:
            lines.append(attrs_deco)
        lines.append(f'class {c["name"]}' + (f'({", ".join(bases)})' if bases else "") + ":")
        if c["fields"]:
            rend = render604 if spec.get("pep604") else rg.render
            lines.extend(f"    {n}: {rend(rg.freeze(t))}" for n, t in c["fields"])
            if kind == "attrs_init" and not c["bases"]:
                lines.append("    def __init__(self, " + ", ".join(f"{n}: {rend(rg.freeze(t))}" for n, t in c["fields"]) + "):")
                lines.append("        self.__attrs_init__(" + ", ".join(n for n, _ in c["fields"]) + ")")
        elif not (kind == "attrs_init_leaf" and c is spec["classes"][-1]):
            lines.append("    pass")
        if kind == "attrs_init_leaf" and c is spec["classes"][-1]:
            members = sorted(rg.members(spec, c["name"]).items())
            lines.append("    def __init__(self, *, " + ", ".join(f"{n}: {rg.render(next(iter(ts)))}" for n, ts in members) + "):")
            lines.append("        self.__attrs_init__(" + ", ".join(f"{n}={n}" for n, _ in members) + ")")
    return "\n".join(lines) + "\n"


def kind_allows(spec, kind):
    """None if the model kind can express the hierarchy, else the rule that excludes it"""
    classes = spec["classes"]
    if kind == "pydantic":
        if any("Ts" in rg.class_params(spec, c["name"]) for c in classes):
            return "pydantic does not support variadic generics (documented)"
        for c in classes:
            for b in c["bases"]:
                if b["args"] is not None and [rg.freeze(a) for a in b["args"]] == [var(p) for p in rg.class_params(spec, b["cls"])]:
                    return ("pydantic returns the unparametrised class for Base[<its own type variables>] (documented limitation: "
                            "parametrized pydantic models do not expose type hints dunders; incorrect resolving in tricky cases)")
    if kind == "attrs_init_leaf":
        leaf = classes[-1]
        if not leaf["bases"]:
            return "attrs_init_leaf: single class (kind attrs_init covers it)"
        members = rg.members(spec, leaf["name"])
        if not members or any(len(ts) != 1 for ts in members.values()):
            return "attrs_init_leaf: a member without a single annotation in the leaf's variables (nothing to write in the signature)"
    if kind == "namedtuple":
        for c in classes[1:]:
            if len(c["bases"]) != 1:
                return "NamedTuple: no multiple inheritance"
            inherited = rg.members(spec, c["bases"][0]["cls"])
            if any(f not in inherited for f, _ in c["fields"]):
                return "NamedTuple: a subclass cannot add fields"
    if kind == "typeddict":
        for c in classes[1:]:
            for b in c["bases"]:
                inherited = rg.members(spec, b["cls"])
                if any(f in inherited for f, _ in c["fields"]):
                    return "TypedDict: a subclass may not change the type of an inherited key"
    return None


def compile_spec(spec, kind):
    mod = model_module()
    src = render_source(spec, kind)
    exec(compile(src, "<c16>", "exec"), mod.__dict__)  # noqa: S102
    return {c["name"]: mod.__dict__[c["name"]] for c in spec["classes"]}


def to_hint(t):  # noqa: PLR0911
    h = t[0]
    if h == "int":
        return int
    if h == "str":
        return str
    if h == "bool":
        return bool
    if h == "Any":
        return typing.Any
    if h == "List":
        return typing.List[to_hint(t[1])]
    if h == "Dict":
        return typing.Dict[str, to_hint(t[1])]
    if h == "Optional":
        return typing.Optional[to_hint(t[1])]
    if h == "Tuple":
        return typing.Tuple[tuple(to_hint(i) for i in t[1:])] if len(t) > 1 else typing.Tuple[()]
    if h == "Union":
        return typing.Union[tuple(to_hint(i) for i in t[1:])]
    raise ValueError(t)


def has_typevar(ann):
    if isinstance(ann, (typing.TypeVar, typing.TypeVarTuple)):
        return True
    return any(has_typevar(a) for a in typing.get_args(ann))


def real_params(cls, kind):
    if kind == "pydantic":
        return [p.__name__ for p in cls.__pydantic_generic_metadata__["parameters"]]
    return [p.__name__ for p in getattr(cls, "__parameters__", ())]


def real_fields(cls, kind):
    if kind == "dataclass":
        return sorted(cls.__dataclass_fields__)
    if kind in ATTRS_KINDS:
        return sorted(a.name for a in cls.__attrs_attrs__)
    if kind == "pydantic":
        return sorted(cls.model_fields)
    if kind == "namedtuple":
        return sorted(cls._fields)
    return sorted(cls.__annotations__)


def get_field(obj, f, kind):
    return obj[f] if kind == "typeddict" else getattr(obj, f)


# =============================================================================================== evaluation

def describe(spec, kind, args):
    parts = []
    for c in spec["classes"]:
        bases = [b["cls"] + ("" if b["args"] is None else "[" + ", ".join(rg.render(rg.freeze(a)) for a in b["args"]) + "]")
                 for b in c["bases"]]
        if c["generic"] is not None:
            bases.append("Generic[" + ", ".join(render_param(p) for p in c["generic"]) + "]")
        body = ", ".join(f"{n}: {rg.render(rg.freeze(t))}" for n, t in c["fields"])
        parts.append(f'{c["name"]}({", ".join(bases)}){{{body}}}')
    leaf = spec["classes"][-1]["name"]
    tp = leaf if args is None else f'{leaf}[{", ".join(rg.render(rg.freeze(a)) for a in args)}]'
    return f"{kind}: " + "; ".join(parts) + f"  =>  {tp}"


def exc_name(e):
    return type(e).__name__


def _raised_inside(e, package):
    """was the exception raised by code of `package` that adaptix called (a frame of the package below the last adaptix frame)?"""
    frames = []
    tb = e.__traceback__
    while tb is not None:
        frames.append(tb.tb_frame.f_code.co_filename)
        tb = tb.tb_next
    last_adaptix = max((i for i, f in enumerate(frames) if "/adaptix/" in f), default=-1)
    return any(f"/site-packages/{package}/" in f for f in frames[last_adaptix + 1:])


class Evaluator:
    def __init__(self, report, tier, confirm=True):
        self.report = report
        self.tier = tier
        self.confirm = confirm
        self.confirmed = {}
        self.n = 0

    # ---- one hierarchy, one kind: all parametrisations
    def hierarchy(self, family, spec, kind):  # noqa: C901
        report = self.report
        why = rg.legality(spec)
        if why is not None:
            report.skip(f"illegal for Python typing: {why}")
            return
        why = kind_allows(spec, kind)
        if why is not None:
            report.skip(why)
            return
        leaf = spec["classes"][-1]["name"]
        self.n += 1
        if self.n % 300 == 0:
            linecache.clearcache()
        if self.n % 2000 == 0:
            env.reset_process_caches()
            gc.collect()
        try:
            classes = compile_spec(spec, kind)
        except Exception as e:  # noqa: BLE001
            if kind in ("dataclass", *ATTRS_KINDS):
                raise RuntimeError(f"reference legality model incomplete: {describe(spec, kind, None)}: {e!r}") from e
            report.skip(f"{kind} itself refuses to build the class ({exc_name(e)})")
            return
        cls = classes[leaf]
        params = rg.class_params(spec, leaf)
        if real_params(cls, kind) != params and not (kind == "pydantic" and not params):
            # (pydantic keeps the parameters of a bare generic base on the subclass; typing does not)
            raise RuntimeError(f"parameter order: reference {params}, python {real_params(cls, kind)}: {describe(spec, kind, None)}")
        if real_fields(cls, kind) != rg.field_names(spec, leaf):
            raise RuntimeError(f"fields: reference {rg.field_names(spec, leaf)}, python {real_fields(cls, kind)}: "
                               f"{describe(spec, kind, None)}")
        report.count("hierarchies", 1)
        report.count(f"hierarchies.{kind}", 1)
        report.count(f"hierarchies.family.{family}", 1)
        all_args = leaf_parametrisations(spec, leaf, self.tier, all_pairs=True)
        resolved = {}
        for a in all_args:
            try:
                resolved[digest(a)] = rg.resolve(spec, leaf, a)
            except rg.Illegal:
                if a is None:
                    raise
                resolved[digest(a)] = None
        alternatives = {}
        for f in rg.field_names(spec, leaf):
            alts = []
            for r in resolved.values():
                if r is not None:
                    for t in r[f]:
                        if t not in alts:
                            alts.append(t)
            alternatives[f] = alts
        for args in leaf_parametrisations(spec, leaf, self.tier):
            ref = resolved[digest(args)]
            if ref is None:
                report.skip("illegal for Python typing: the leaf does not take this argument list (number of arguments)")
                continue
            self.case(spec, kind, cls, args, ref, alternatives)

    def build_type(self, cls, args):
        if args is None:
            return cls
        hints = tuple(to_hint(rg.freeze(a)) for a in args)
        if not hints:
            return cls[()]
        return cls[hints[0]] if len(hints) == 1 else cls[hints]

    # ---- one leaf parametrisation
    def case(self, spec, kind, cls, args, ref, alternatives):  # noqa: C901, PLR0912, PLR0915
        report = self.report
        leaf = spec["classes"][-1]["name"]
        argf = rg.args_features(spec, leaf, args)
        key = (spec, kind, args)
        if "bare_variadic" in argf or any(rg.mentions(t, "unbounded") for ts in ref.values() for t in ts):
            report.skip("bare TypeVarTuple means *tuple[Any, ...]: dynamic-length unpacking is documented as not supported")
            return
        ctx = {"spec": spec, "kind": kind, "args": args}
        try:
            tp = self.build_type(cls, args)
        except Exception as e:  # noqa: BLE001
            if kind == "pydantic":
                report.skip(f"pydantic itself refuses to parametrise the class ({exc_name(e)})")
                return
            raise
        if kind == "pydantic":
            # differential filter: where pydantic's own field resolution departs from typing's substitution the docs blame pydantic
            for f, ts in ref.items():
                ann = tp.model_fields[f].annotation
                if len(ts) == 1 and not has_typevar(ann) and ann != to_hint(next(iter(ts))):
                    report.skip("pydantic itself resolves a field differently from typing's substitution (documented: bugs in "
                                "generic resolving inside pydantic itself)")
                    return
        report.count("parametrisations", 1)
        for feature in argf:
            report.count(f"leaf_feature.{feature}", 1)
        fields = sorted(ref)
        whole_shape = rg.hierarchy_shape(spec, leaf, argf)
        try:
            retort = Retort()
            loader = retort.get_loader(tp)
            dumper = retort.get_dumper(tp)
        except Exception as e:  # noqa: BLE001
            if kind == "pydantic" and _raised_inside(e, "pydantic"):
                report.case(key, nontrivial=False)
                report.skip(f"pydantic itself raises while the model is parametrised ({exc_name(e)}; documented: bugs in generic "
                            f"resolving inside pydantic itself)")
                return
            report.case(key, nontrivial=True)
            report.outcome(f"{kind}:creation_failed")
            self.violation(whole_shape, "creation_failed", ctx,
                           f"{describe(spec, kind, args)}: get_loader/get_dumper raised {exc_name(e)}: {str(e)[:150]}")
            return
        report.outcome(f"{kind}:created")
        if any(len(ts) > 1 for ts in ref.values()):
            report.case(key, nontrivial=False)
            report.skip("a field is reached through base edges with different bindings, or dataclasses' field collection and "
                        "get_type_hints() see different declarations of it (diamond whose later arm re-annotates): only creation "
                        "is checked")
            return
        ftypes = {f: next(iter(ref[f])) for f in fields}
        base = {f: rg.reps(ftypes[f])[0] for f in fields}
        n_loads = 0
        n_neg = 0

        # -- the base datum (conforms in every field)
        n_loads += 1
        try:
            obj = loader(base)
        except Exception as e:  # noqa: BLE001
            report.case(key, nontrivial=True)
            report.outcome(f"{kind}:base_rejected")
            culprits = []
            if isinstance(e, AggregateLoadError):
                for sub in e.exceptions:
                    trail = list(get_trail(sub))
                    if trail and trail[0] in ftypes:
                        culprits.append(trail[0])
            if culprits:
                for f in culprits:
                    self.violation(rg.field_shape(spec, leaf, f, argf), "rejects_conforming", {**ctx, "field": f},
                                   f"{describe(spec, kind, args)}: field {f} should be {rg.render(ftypes[f])} but "
                                   f"{codec.show(base[f])} is rejected")
            else:
                n_args = len(args) if args is not None else len(rg.class_params(spec, leaf))
                shape = "one_type_arg" if n_args == 1 and "variadic" not in whole_shape else whole_shape
                self.violation(shape, "rejects_conforming", ctx,
                               f"{describe(spec, kind, args)}: conforming {codec.show(base)} raises {exc_name(e)}: "
                               f"{str(e)[:120]}")
            report.count("loads", n_loads)
            return
        problem = self.check_value(kind, cls, loader, dumper, obj, base, ftypes)
        if problem:
            self.violation(whole_shape, "roundtrip", ctx, f"{describe(spec, kind, args)}: {codec.show(base)}: {problem}")

        # -- every field x every datum of its universe
        for f in fields:
            t = ftypes[f]
            shape = None
            for d in rg.universe(spec, leaf, f, t, alternatives[f]):
                if rg.same(d, base[f]):
                    continue
                datum = dict(base)
                datum[f] = d
                n_loads += 1
                fits = rg.conforms(t, d)
                try:
                    obj = loader(datum)
                    res = "accepted"
                except LoadError:
                    res = "rejected"
                except Exception as e:  # noqa: BLE001
                    res = "raised " + exc_name(e)
                if fits:
                    report.outcome(f"{kind}:conforming_{'accepted' if res == 'accepted' else 'REFUSED'}")
                    if res != "accepted":
                        shape = shape or rg.field_shape(spec, leaf, f, argf)
                        self.violation(shape, "rejects_conforming", {**ctx, "field": f, "datum": codec.enc(d)},
                                       f"{describe(spec, kind, args)}: field {f} should be {rg.render(t)} but "
                                       f"{codec.show(d)} is {res}")
                    else:
                        problem = self.check_value(kind, cls, loader, dumper, obj, datum, ftypes)
                        if problem:
                            shape = shape or rg.field_shape(spec, leaf, f, argf)
                            self.violation(shape, "roundtrip", {**ctx, "field": f, "datum": codec.enc(d)},
                                           f"{describe(spec, kind, args)}: field {f}: {rg.render(t)}, datum {codec.show(d)}: "
                                           f"{problem}")
                else:
                    n_neg += 1
                    report.outcome(f"{kind}:other_substitution_{'rejected' if res == 'rejected' else 'NOT_REJECTED'}")
                    if res != "rejected":
                        shape = shape or rg.field_shape(spec, leaf, f, argf)
                        self.violation(shape, "accepts_other_substitution", {**ctx, "field": f, "datum": codec.enc(d)},
                                       f"{describe(spec, kind, args)}: field {f} should be {rg.render(t)} but "
                                       f"{codec.show(d)} is {res}")
        report.count("loads", n_loads)
        report.count("negative_data", n_neg)
        report.case(key, nontrivial=n_neg > 0,
                    sample=lambda: {"hierarchy": describe(spec, kind, args), "field_types": {f: rg.render(t) for f, t in ftypes.items()},
                                    "loads": n_loads, "data_of_other_substitutions": n_neg})

    def check_value(self, kind, cls, loader, dumper, obj, datum, ftypes):
        """loaded value, dump and reload against the reference; returns a description of the first difference"""
        if kind == "typeddict":
            if type(obj) is not dict:
                return f"loaded a {type(obj).__name__}, not a dict"
        elif not isinstance(obj, cls):
            return f"loaded a {type(obj).__name__}, not an instance of the model"
        want = {}
        for f, t in ftypes.items():
            try:
                got = get_field(obj, f, kind)
            except Exception as e:  # noqa: BLE001
                return f"field {f} missing on the loaded object ({exc_name(e)})"
            w = rg.ref_load(t, datum[f])
            if not rg.same(got, w):
                return f"field {f} loaded as {codec.show(got)}, reference ({rg.render(t)}) says {codec.show(w)}"
            want[f] = rg.ref_dump(t, w)
        try:
            dumped = dumper(obj)
        except Exception as e:  # noqa: BLE001
            return f"dump raised {exc_name(e)}: {str(e)[:100]}"
        if type(dumped) is not dict or sorted(dumped) != sorted(want) or any(not rg.same(dumped[f], want[f]) for f in want):
            return f"dumped {codec.show(dumped)}, reference says {codec.show(want)}"
        try:
            again = loader(dumped)
        except Exception as e:  # noqa: BLE001
            return f"reloading the dump {codec.show(dumped)} raised {exc_name(e)}"
        for f in ftypes:
            if not rg.same(get_field(again, f, kind), get_field(obj, f, kind)):
                return f"round trip changed field {f}: {codec.show(get_field(obj, f, kind))} -> {codec.show(get_field(again, f, kind))}"
        return None

    def violation(self, shape, problem, case, what):
        sig = {"check": "C16", "kind": case["kind"], "shape": shape, "problem": problem}
        skey = (case["kind"], shape, problem)
        if self.confirm and self.confirmed.get(skey, 0) < 2:
            # determinism proof: the case must reproduce twice from a cold process image
            self.confirmed[skey] = self.confirmed.get(skey, 0) + 1
            for _ in range(2):
                env.reset_process_caches()
                again = _replay_sigs(case)
                if (shape, problem) not in again:
                    raise RuntimeError(f"violation did not reproduce on a cold replay: {what} (replay gave {sorted(again)})")
        self.report.violation(sig, what, {**case, "source": render_source(case["spec"], case["kind"])})


def _replay_sigs(case):
    rep = Report()
    ev = Evaluator(rep, "thorough", confirm=False)
    spec, kind, args = case["spec"], case["kind"], case["args"]
    classes = compile_spec(spec, kind)
    leaf = spec["classes"][-1]["name"]
    all_args = leaf_parametrisations(spec, leaf, "thorough")
    alternatives = {}
    for f in rg.field_names(spec, leaf):
        alts = []
        for a in all_args:
            try:
                r = rg.resolve(spec, leaf, a)
            except rg.Illegal:
                continue
            for t in r[f]:
                if t not in alts:
                    alts.append(t)
        alternatives[f] = alts
    ev.case(spec, kind, classes[leaf], args, rg.resolve(spec, leaf, args), alternatives)
    return {(v["sig"]["shape"], v["sig"]["problem"]): v["what"] for v in rep.violations.values()}


def replay(case):
    if case.get("leg") == "special":
        from checks import c16_special
        return c16_special.replay(case)
    found = _replay_sigs(case)
    for what in found.values():
        return what
    return None


# =============================================================================================== driver

N_SHARDS = 64


def shard(arg):
    tier, idx = arg
    report = Report()
    ev = Evaluator(report, tier)
    for i, (family, kinds, spec) in enumerate(enumerate_specs(tier)):
        if i % N_SHARDS != idx:
            continue
        for kind in kinds:
            ev.hierarchy(family, spec, kind)
    return report


def fold_violations(report):
    """One root cause shows up together with every other feature of the hierarchies it occurs in.  Groups are therefore
    reduced to the inclusion-minimal feature sets per (kind, problem): a group whose shape is a superset of a smaller failing
    shape is folded into that smaller one (the enumeration is complete, so a cause that needs the extra feature keeps it)."""
    groups = {}
    for key, v in report.violations.items():
        groups.setdefault((v["sig"]["kind"], v["sig"]["problem"]), []).append(
            (frozenset(v["sig"]["shape"].split("+")) - {"plain"}, key))
    out = {}
    for members in groups.values():
        minimal = sorted((fs for fs, _ in members if not any(o < fs for o, _ in members)), key=sorted)
        for fs, key in members:
            target = next(m for m in minimal if m <= fs)
            tkey = next(k for f, k in members if f == target)
            slot = out.get(tkey)
            if slot is None:
                slot = out[tkey] = {**report.violations[tkey], "count": 0}
            slot["count"] += report.violations[key]["count"]
    report.violations = out


TWO_MODULE_SRC = """
from dataclasses import dataclass
from typing import Generic, List, Optional, TypeVar

@dataclass
class Item:
    {field}: {ftype}

B = TypeVar("B", bound="Item")
C = TypeVar("C", "Item", int)

@dataclass
class Holder(Generic[B]):
    x: B

@dataclass
class Bag(Generic[B]):
    items: List[B]

@dataclass
class Either(Generic[C]):
    x: C
"""


def leg_string_bounds(report):
    """the documented implicit parameter of a bare class is the bound / the union of constraints of its type variable; written as
    a string it names a class of the module that defines the TypeVar.  Two modules use the same text for different classes: each
    bare model must use its own module's class, in whatever order the modules are first used (all orders, fresh modules each)."""
    import itertools
    from adaptix import Retort
    from adaptix.load_error import LoadError
    mods_spec = {"m1": ("a", "int", {"a": 1}), "m2": ("b", "str", {"b": "s"})}
    for order in itertools.permutations(mods_spec):
        for model, wrap in (("Holder", lambda d: {"x": d}), ("Bag", lambda d: {"items": [d]}), ("Either", lambda d: {"x": d})):
            mods = {}
            for mname, (field, ftype, _) in mods_spec.items():
                mod = types.ModuleType(f"c16_bound_{mname}")
                sys.modules[mod.__name__] = mod
                exec(TWO_MODULE_SRC.format(field=field, ftype=ftype), mod.__dict__)  # noqa: S102
                mods[mname] = mod
            retort = Retort()
            for mname in order:
                mod, (_, _, good) = mods[mname], mods_spec[mname]
                other_good = mods_spec["m2" if mname == "m1" else "m1"][2]
                cls = getattr(mod, model)
                case = {"leg": "string_bounds", "order": list(order), "model": model, "module": mname}
                report.case(("string_bounds", order, model, mname), nontrivial=True, sample=case)
                report.evaluations += 2
                try:
                    obj = retort.load(wrap(good), cls)
                    inner = obj.x if model != "Bag" else obj.items[0]
                    ok = type(inner) is mod.Item and retort.dump(obj, cls) == wrap(good)
                    what = f"loaded {obj!r}"
                except Exception as e:  # noqa: BLE001
                    ok, what = False, f"raised {type(e).__name__}: {str(e)[:100]}"
                if not ok:
                    report.violation({"check": "C16.string_bounds", "problem": "own_bound_not_used", "model": model},
                                     f"bare {model} of module {mname} (modules first used in order {list(order)}): data fitting the module's "
                                     f"own Item {wrap(good)!r}: {what}", case)
                try:
                    retort.load(wrap(other_good), cls)
                    report.violation({"check": "C16.string_bounds", "problem": "foreign_bound_accepted", "model": model},
                                     f"bare {model} of module {mname} (order {list(order)}) accepts {wrap(other_good)!r}, which fits only the "
                                     f"class called Item in the OTHER module", case)
                except LoadError:
                    report.outcome("string_bounds:foreign rejected")
                except Exception as e:  # noqa: BLE001
                    report.violation({"check": "C16.string_bounds", "problem": "error", "model": model},
                                     f"bare {model} of module {mname}: {type(e).__name__}: {str(e)[:100]}", case)


IMPORTED_TYPEVAR_SRC = """
from dataclasses import dataclass
from typing import Generic, List
from c16_tv_home import B, C

@dataclass
class Item:
    other: str

@dataclass
class Holder(Generic[B]):
    x: B

@dataclass
class Either(Generic[C]):
    x: C
"""


def leg_imported_typevar(report):
    """a string bound names a class of the module that DEFINES the TypeVar, also when the generic model lives in another module
    that has a class of the same name"""
    from adaptix import Retort
    from adaptix.load_error import LoadError
    home = types.ModuleType("c16_tv_home")
    sys.modules[home.__name__] = home
    exec(TWO_MODULE_SRC.format(field="a", ftype="int"), home.__dict__)  # noqa: S102
    user = types.ModuleType("c16_tv_user")
    sys.modules[user.__name__] = user
    exec(IMPORTED_TYPEVAR_SRC, user.__dict__)  # noqa: S102
    retort = Retort()
    for model in ("Holder", "Either"):
        cls = getattr(user, model)
        case = {"leg": "imported_typevar", "model": model}
        report.case(("imported_typevar", model), nontrivial=True, sample=case)
        report.evaluations += 2
        try:
            obj = retort.load({"x": {"a": 1}}, cls)
            ok, what = type(obj.x) is home.Item, f"loaded {obj!r}"
        except Exception as e:  # noqa: BLE001
            ok, what = False, f"raised {type(e).__name__}: {str(e)[:100]}"
        if not ok:
            report.violation({"check": "C16.string_bounds", "problem": "bound_of_imported_typevar", "model": model},
                             f"bare {model}(Generic[B]) where B = TypeVar('B', bound='Item') is imported from another module: data fitting "
                             f"the Item of the TypeVar's module: {what}", case)
        try:
            retort.load({"x": {"other": "s"}}, cls)
            report.violation({"check": "C16.string_bounds", "problem": "bound_of_imported_typevar", "model": model},
                             f"bare {model}: accepts data fitting only the class called Item in the model's own module", case)
        except LoadError:
            report.outcome("imported_typevar:foreign rejected")
        except Exception as e:  # noqa: BLE001
            report.violation({"check": "C16.string_bounds", "problem": "error", "model": model},
                             f"bare {model} (imported TypeVar): {type(e).__name__}: {str(e)[:100]}", case)


def run(tier):
    report = Report()
    n = sum(1 for _ in enumerate_specs(tier))
    report.count("specs_enumerated", n)
    parallel.run_shards(shard, [(tier, i) for i in range(N_SHARDS)], report=report)
    fold_violations(report)
    leg_string_bounds(report)
    leg_imported_typevar(report)
    from checks import c16_special
    c16_special.run(report)
    return report


def SANITY(report, tier):  # noqa: N802
    problems = []
    for kind in (*KINDS_ALL, "attrs_init_leaf"):
        # (a kind whose oracle already disagreed - violations recorded - did have its chance to disagree)
        disagreed = any(v["sig"].get("kind") == kind for v in report.violations.values())
        if report.outcomes[f"{kind}:created"] == 0 and not disagreed:
            problems.append(f"no loader was ever created for kind {kind}")
        if report.outcomes[f"{kind}:other_substitution_rejected"] == 0 and not disagreed:
            problems.append(f"no datum of another substitution was ever rejected for kind {kind}")
        if report.outcomes[f"{kind}:conforming_accepted"] == 0 and not disagreed:
            problems.append(f"no conforming alternative datum was ever accepted for kind {kind}")
    for feature in ("bare", "bare_bound", "bare_constrained"):
        if report.counters[f"leaf_feature.{feature}"] == 0:
            problems.append(f"no leaf was ever used {feature}")
    if len(report.nontrivial) < 1000:
        problems.append(f"only {len(report.nontrivial)} non-trivial cases")
    if report.counters["hierarchies.family.variadic"] == 0:
        problems.append("no variadic hierarchy executed")
    return problems


def extra_evidence(report, tier):
    c = report.counters
    return {
        "specs_enumerated": c["specs_enumerated"],
        "hierarchies_compiled": c["hierarchies"],
        "hierarchies_by_kind": {k: c[f"hierarchies.{k}"] for k in (*KINDS_ALL, "attrs_init_leaf")},
        "hierarchies_by_family": {k.split(".", 2)[2]: v for k, v in sorted(c.items()) if k.startswith("hierarchies.family.")},
        "parametrisations": c["parametrisations"],
        "loads": c["loads"],
        "data_of_other_substitutions": c["negative_data"],
        "rejections_by_kind": {k: report.outcomes[f"{k}:other_substitution_rejected"] for k in (*KINDS_ALL, "attrs_init_leaf")},
    }
