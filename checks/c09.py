"""C09 — recipe resolution is first-match in recipe order; chaining composes exactly once.

Explicit-state exploration: the *model* (ref_serve below) is a linear chain-of-responsibility over a recipe of
(predicate, kind) symbols; its states are (recipe, location, offset), its transitions are consults.  Every
(recipe, request) trace the model produces is replayed against the implementation: the real retort is built from
the same recipe out of ordinary providers, the consult events logged by the providers are compared event by
event with the model trace, then the produced loader/dumper is run and its marker-call log and result are compared
with the model's composed function.

Part 2 explores retort construction histories: extend / replace sequences, subclassed retorts (class recipes in
MRO order behind the instance recipe) and retorts placed inside a recipe.
"""
import itertools
import os
from collections.abc import Sequence
from dataclasses import dataclass
from decimal import Decimal
from typing import List

from adaptix import CannotProvide, Chain, DebugTrail, P, Provider, Retort, bound, dumper, loader
from adaptix._internal.morphing.request_cls import DumperRequest, LoaderRequest
from adaptix._internal.provider.request_checkers import AlwaysTrueRequestChecker

from mc import env, parallel
from mc.env import CaseTimeout, deadline
from mc.report import Report

META = {
    "level": "model_checking",
    "rule": (
        "all recipes up to the tier's length over the (predicate x kind) alphabet x 6 request types (scalars, list, model, a recursive model with 3-level data, an unresolvable forward reference) x {loader,dumper}; "
        "states = (recipe, location, offset) reached by the chain-of-responsibility model, transitions = consults; "
        "a (recipe, request) trace is non-trivial when at least one recipe provider is consulted; each model trace is "
        "replayed on a real Retort (consult log compared event by event, composed function executed)"
    ),
    "assumptions": [
        "the builtin recipe is modelled as one opaque final provider per location (Decimal, bool, list, dataclass)",
        "recipes longer than the bound and predicates outside the 8-predicate alphabet are not explored",
        "providers observe consults through an ordinary Provider subclass; chaining kinds use adaptix's ChainingProvider "
        "via the public loader()/dumper() helpers and a logging twin",
    ],
    "bound": {
        "quick": "recipes <=3 over 24 symbols (8 predicates x {plain,decline,chain_first}) and <=2 over all 48; histories <=2",
        "thorough": "recipes <=4 over 24 symbols and <=3 over all 48 symbols; histories <=3",
    },
}


@dataclass
class Model:
    a: Decimal


@dataclass
class RNode:
    v: Decimal
    kids: List["RNode"]


# ---------------------------------------------------------------------------------------------------------------
# alphabet

PREDS = {
    "Decimal": lambda: Decimal,
    "bool": lambda: bool,
    "list": lambda: list,
    "Sequence": lambda: Sequence,
    "'a'": lambda: "a",
    "P[Model].a": lambda: P[Model].a,
    "~P[bool]": lambda: ~P[bool],
    "P.ANY": lambda: P.ANY,
}
PRED_NAMES = list(PREDS)
# kinds: plain / decline / delegate are a logging Provider; chain kinds exist as a logging twin (ChainingProvider
# around the logging provider) and in their public spelling loader(pred, f, Chain.X) (no consult log, effects only)
KINDS_CORE = ["plain", "decline", "chain_first"]
KINDS_ALL = ["plain", "decline", "chain_first", "chain_last", "delegate", "pub_chain_last"]

# locations (what a request is about), written as strings
REQUESTS = ["D", "B", "L", "M", "R", "U"]   # Decimal, bool, List[Decimal], Model, recursive RNode, List["Undefined"]
REQUEST_TYPES = {"D": Decimal, "B": bool, "L": List[Decimal], "M": Model, "R": RNode, "U": List["Undefined9"]}
# sub-locations a builtin provider requests, in request order
CHILDREN = {"L": ["L/D"], "M": ["M/a"], "R": ["R/v", "R/kids"], "R/kids": ["R/kids/e"], "R/kids/e": ["R/kids/e/v", "R/kids/e/kids"],
            }
# a location that occurs a second time in its own stack is answered by a recursion stub bound to the first occurrence
STUBS = {"R/kids/e/kids": "R/kids"}
# locations no builtin provider can serve (an unresolvable forward reference)
UNPROVIDABLE = {"U"}
KIND_AT = {"D": "decimal", "L/D": "decimal", "M/a": "decimal", "R/v": "decimal", "R/kids/e/v": "decimal", "B": "bool",
           "L": "list", "R/kids": "list", "M": "model", "R": "rnode", "R/kids/e": "rnode"}

# match table written by hand from the documentation of predicates
_LOCS = ["D", "B", "L", "L/D", "M", "M/a", "R", "R/v", "R/kids", "R/kids/e", "R/kids/e/v", "U"]


def _row(**ones):
    return {loc: int(loc in ones.get("at", ())) for loc in _LOCS}


MATCH = {
    "Decimal":    _row(at=("D", "L/D", "M/a", "R/v", "R/kids/e/v")),
    "bool":       _row(at=("B",)),
    "list":       _row(at=("L", "R/kids")),
    "Sequence":   _row(at=("L", "R/kids")),
    "'a'":        _row(at=("M/a",)),
    "P[Model].a": _row(at=("M/a",)),
    "~P[bool]":   _row(at=tuple(l for l in _LOCS if l != "B")),
    "P.ANY":      _row(at=tuple(_LOCS)),
}


# ---------------------------------------------------------------------------------------------------------------
# reference model

class RefResult:
    __slots__ = ("consults", "states", "transitions", "stages_at")

    def __init__(self):
        self.consults = []   # ordered (index, location)
        self.states = set()
        self.transitions = 0
        self.stages_at = {}  # location -> composed stages of the request at that location (for recursion stubs)


class _RefCannotProvide(Exception):
    pass


def ref_serve(recipe, loc, offset, out: RefResult):
    """Returns the composed function as a list of stages: ints (recipe index, i.e. marker tag), ('builtin', loc, {child: stages})
    or ('stub', target location)."""
    if loc in STUBS and offset == 0:
        return [("stub", STUBS[loc])]
    stages = _ref_serve(recipe, loc, offset, out)
    if offset == 0:
        out.stages_at[loc] = stages
    return stages


def _ref_serve(recipe, loc, offset, out: RefResult):
    i = offset
    n = len(recipe)
    while True:
        out.states.add((loc, i))
        while i < n and not MATCH[recipe[i][0]][loc]:
            i += 1
        if i >= n:
            if loc in UNPROVIDABLE:
                raise _RefCannotProvide(loc)
            # the builtin recipe serves every other location of this check; containers request their child locations
            children = {c: ref_serve(recipe, c, 0, out) for c in CHILDREN.get(loc, ())}
            return [("builtin", loc, children)]
        kind = recipe[i][1]
        out.transitions += 1
        if not kind.startswith("pub_"):
            out.consults.append((i, loc))
        if kind == "plain":
            return [i]
        if kind == "decline":
            i += 1
            continue
        rest = _ref_serve(recipe, loc, i + 1, out)
        if kind == "delegate":
            return rest
        if kind in ("chain_first", "pub_chain_first"):
            return [i, *rest]
        if kind in ("chain_last", "pub_chain_last"):
            return [*rest, i]
        raise ValueError(kind)


def _tn(x):
    return type(x).__name__


def ref_run(stages, data, direction, calls, stages_at=None):
    for st in stages:
        if isinstance(st, int):
            calls.append((st, _tn(data)))
            continue
        if st[0] == "stub":
            data = ref_run(stages_at[st[1]], data, direction, calls, stages_at)
            continue
        _, loc, children = st
        kind = KIND_AT[loc]
        if kind == "decimal":
            if direction == "load":
                if type(data) not in (str, Decimal):
                    raise _RefReject
                data = Decimal(data)
            else:
                data = str(data)
        elif kind == "bool":
            if type(data) is not bool and direction == "load":
                raise _RefReject
        elif kind == "list":
            (child,) = children.values()
            data = [ref_run(child, x, direction, calls, stages_at) for x in data]
        elif kind == "model":
            (child,) = children.values()
            if direction == "load":
                data = Model(a=ref_run(child, data["a"], direction, calls, stages_at))
            else:
                data = {"a": ref_run(child, data.a, direction, calls, stages_at)}
        elif kind == "rnode":
            cv, ck = list(children.values())
            if direction == "load":
                data = RNode(v=ref_run(cv, data["v"], direction, calls, stages_at),
                             kids=ref_run(ck, data["kids"], direction, calls, stages_at))
            else:
                data = {"v": ref_run(cv, data.v, direction, calls, stages_at), "kids": ref_run(ck, data.kids, direction, calls, stages_at)}
    return data


class _RefReject(Exception):
    pass


DATA = {
    "load": {"D": "1", "B": True, "L": ["1", "2"], "M": {"a": "1"},
             "R": {"v": "1", "kids": [{"v": "2", "kids": [{"v": "3", "kids": []}]}, {"v": "4", "kids": []}]}, "U": []},
    "dump": {"D": Decimal(1), "B": True, "L": [Decimal(1), Decimal(2)], "M": Model(a=Decimal(1)),
             "R": RNode(Decimal(1), [RNode(Decimal(2), [RNode(Decimal(3), [])]), RNode(Decimal(4), [])]), "U": []},
}


# ---------------------------------------------------------------------------------------------------------------
# implementation side

def _loc_name(request):
    from adaptix._internal.provider.location import FieldLoc
    locs = list(request.loc_stack)
    first = locs[0].type
    name = "D" if first is Decimal else "B" if first is bool else "M" if first is Model else "R" if first is RNode else \
        "U" if first == REQUEST_TYPES["U"] else "L"
    for loc in locs[1:]:
        if loc.is_castable(FieldLoc):
            name += "/" + loc.field_id
        else:
            name += "/D" if name == "L" else "/e"
    return name


class Probe(Provider):
    """An ordinary provider that logs every consult and behaves according to its kind."""

    def __init__(self, tag, kind, log, calls):
        self.tag, self.kind, self.log, self.calls = tag, kind, log, calls

    def marker(self):
        tag, calls = self.tag, self.calls

        def marker_func(data):
            calls.append((tag, type(data).__name__))
            return data

        return marker_func

    def get_request_handlers(self):
        def handler(mediator, request):
            self.log.append((self.tag, _loc_name(request)))
            if len(self.log) > CONSULT_LIMIT:
                # a routing loop (the same provider selected again and again) would never return: make it visible
                raise RuntimeError(f"provider {self.tag} consulted more than {CONSULT_LIMIT} times for one request")
            if self.kind == "decline":
                raise CannotProvide("declined by probe")
            if self.kind == "delegate":
                return mediator.provide_from_next()
            return self.marker()

        return [
            (LoaderRequest, AlwaysTrueRequestChecker(), handler),
            (DumperRequest, AlwaysTrueRequestChecker(), handler),
        ]


class Both(Provider):
    def __init__(self, *providers):
        self.providers = providers

    def get_request_handlers(self):
        return [h for p in self.providers for h in p.get_request_handlers()]


def build_provider(tag, sym, log, calls):
    pred_name, kind = sym
    pred = PREDS[pred_name]()
    if kind in ("plain", "decline", "delegate"):
        return bound(pred, Probe(tag, kind, log, calls))
    if kind in ("chain_first", "chain_last"):
        from adaptix._internal.provider.provider_wrapper import ChainingProvider
        chain = Chain.FIRST if kind == "chain_first" else Chain.LAST
        return bound(pred, ChainingProvider(chain, Probe(tag, "plain", log, calls)))
    if kind in ("pub_chain_first", "pub_chain_last"):
        chain = Chain.FIRST if kind == "pub_chain_first" else Chain.LAST
        marker = Probe(tag, "plain", log, calls).marker()
        return Both(loader(pred, marker, chain), dumper(pred, marker, chain))
    raise ValueError(kind)


def _norm(x):
    if isinstance(x, tuple):
        return [_norm(i) for i in x]
    if isinstance(x, list):
        return [_norm(i) for i in x]
    if isinstance(x, dict):
        return {k: _norm(v) for k, v in x.items()}
    if isinstance(x, RNode):
        return ("RNode", _norm(x.v), _norm(x.kids))
    return (type(x).__name__, x) if not isinstance(x, Model) else ("Model", _norm(x.a))


CASE_DEADLINE = 30      # seconds; a single trace takes milliseconds
CONSULT_LIMIT = 120     # consults of one probe provider while serving one request (legitimate traces stay below 40)


def impl_trace(recipe, req, direction, retort_factory=None):
    log, calls = [], []
    providers = [build_provider(i, sym, log, calls) for i, sym in enumerate(recipe)]
    retort = retort_factory(providers) if retort_factory else Retort(recipe=providers)
    tp = REQUEST_TYPES[req]
    try:
        with deadline(CASE_DEADLINE):
            func = retort.get_loader(tp) if direction == "load" else retort.get_dumper(tp)
    except CaseTimeout:
        return {"consults": list(log)[:20], "create_error": f"DOES NOT TERMINATE: no loader/dumper within {CASE_DEADLINE} s (routing loop)"}
    except Exception as e:  # noqa: BLE001
        return {"consults": list(log), "create_error": f"{type(e).__name__}: {e}"[:200]}
    consults = list(log)
    try:
        with deadline(CASE_DEADLINE):
            result = ("ok", _norm(func(DATA[direction][req])))
    except CaseTimeout:
        result = ("exc", "DOES NOT TERMINATE")
    except Exception as e:  # noqa: BLE001
        result = ("exc", type(e).__name__)
    return {"consults": consults, "calls": list(calls), "result": result, "late_consults": log[len(consults):]}


def ref_trace(recipe, req, direction):
    out = RefResult()
    try:
        stages = ref_serve(recipe, req, 0, out)
    except _RefCannotProvide:
        return out, {"consults": out.consults, "create_error": "ProviderNotFoundError"}, []
    calls = []
    try:
        result = ("ok", _norm(ref_run(stages, DATA[direction][req], direction, calls, out.stages_at)))
    except _RefReject:
        result = ("exc", "LoadError")
    return out, {"consults": out.consults, "calls": calls, "result": result, "late_consults": []}, stages


def compare(recipe, req, direction, report, part="recipe", retort_factory=None):
    if req == "U" and any(MATCH[p]["U"] for p, _ in recipe):
        # the hint cannot be normalised: only the catch-all predicates match it, and what a provider does with a request it
        # chains to nowhere is not modelled
        report.skip("request U (unresolvable forward reference) with a catch-all predicate in the recipe")
        return None
    out, ref, stages = ref_trace(recipe, req, direction)
    impl = impl_trace(recipe, req, direction, retort_factory)
    report.count("states", len(out.states))
    report.count("transitions", out.transitions)
    report.count("traces_validated_against_impl", 1)
    nontrivial = out.transitions > 0
    case = {"part": part, "recipe": [list(s) for s in recipe], "request": req, "direction": direction}
    report.case(key=(part, recipe, req, direction), nontrivial=nontrivial,
                sample=lambda: {**case, "model_consults": [list(c) for c in out.consults], "composed": repr(stages)})
    report.outcome(f"consults={min(len(out.consults), 6)}")
    report.outcome("served_by=" + ("builtin" if stages and not isinstance(stages[0], int) and len(stages) == 1 else "recipe"))
    problem = diff(ref, impl)
    if problem:
        sig = {"check": "C09.recipe" if part == "recipe" else f"C09.{part}", "problem": problem[0]}
        report.violation(sig, f"recipe {list(recipe)} request {req} {direction}: {problem[1]}",
                         {**case, "expected": _j(ref), "observed": _j(impl)})
    return problem


def _j(t):
    return {k: (repr(v) if k == "result" else [list(x) for x in v] if isinstance(v, list) else v) for k, v in t.items()}


COMBINABLE = {"Decimal", "bool", "list"}


def _combinable_repeat(recipe):
    """Does the recipe contain a run of combinable (exact-origin) predicates that repeats an origin? (the shape that
    makes ExactOriginCombiner break a group)"""
    run = []
    for pred, _ in recipe:
        if pred in COMBINABLE:
            if pred in run:
                return True
            run.append(pred)
        else:
            run = []
    return False


def diff(ref, impl):
    if "create_error" in ref:
        if "create_error" not in impl:
            return ("unprovidable_request_served", f"a loader/dumper was produced ({impl.get('result')}) although no provider can serve "
                                                   f"the request (expected ProviderNotFoundError)")
        if not impl["create_error"].startswith("ProviderNotFoundError"):
            return ("creation_failed", f"creation failed with {impl['create_error']} instead of ProviderNotFoundError")
        return None if impl["consults"] == ref["consults"] else ("consult_trace", f"consult trace differs: impl {impl['consults']} model {ref['consults']}")
    if "create_error" in impl:
        return ("creation_failed", f"creation failed: {impl['create_error']}")
    if impl["consults"] != ref["consults"]:
        seen = set()
        for c in impl["consults"]:
            if c in seen:
                return ("consulted_twice", f"provider {c[0]} consulted twice for location {c[1]}: "
                                           f"impl {impl['consults']} model {ref['consults']}")
            seen.add(c)
        return ("consult_trace", f"consult trace differs: impl {impl['consults']} model {ref['consults']}")
    if impl["late_consults"]:
        return ("late_consult", f"providers consulted while running the loader: {impl['late_consults']}")
    if impl["calls"] != ref["calls"]:
        if len(set(impl["calls"])) < len(impl["calls"]) and len(set(ref["calls"])) == len(ref["calls"]):
            return ("applied_twice", f"a marker function is applied twice: impl {impl['calls']} model {ref['calls']}")
        return ("composition", f"marker call log differs: impl {impl['calls']} model {ref['calls']}")
    if impl["result"] != ref["result"]:
        if impl["result"][0] == "exc" and ref["result"][0] == "exc":
            return None
        return ("result", f"result differs: impl {impl['result']} model {ref['result']}")
    return None


# ---------------------------------------------------------------------------------------------------------------
# part 1: enumeration of recipes

def symbols(kinds):
    return [(p, k) for p in PRED_NAMES for k in kinds]


def recipes_for(tier):
    core, full = symbols(KINDS_CORE), symbols(KINDS_ALL)
    if tier == "quick":
        plan = [(core, 3), (full, 2)]
    else:
        plan = [(core, 4), (full, 3)]
    return plan


def shard_recipes(shard):
    alphabet_name, first, max_len, deadline = shard
    alphabet = symbols(KINDS_CORE if alphabet_name == "core" else KINDS_ALL)
    core_set = set(symbols(KINDS_CORE))
    report = Report()
    for n in range(0, max_len):
        for tail in itertools.product(alphabet, repeat=n):
            recipe = (first, *tail)
            if alphabet_name == "full" and len(recipe) <= CORE_LEN[0] and all(s in core_set for s in recipe):
                report.skip("recipe already enumerated in the core-alphabet pass")
                continue
            for req in REQUESTS:
                for direction in ("load", "dump"):
                    compare(recipe, req, direction, report)
    return report


CORE_LEN = [3]


# ---------------------------------------------------------------------------------------------------------------
# part 2: construction histories (extend / replace / subclass / retort in recipe)

def part2(tier, report):
    depth = 2 if tier == "quick" else 3
    syms = [("Decimal", "chain_first"), ("Decimal", "plain"), ("~P[bool]", "chain_last"), ("'a'", "decline")]
    # (a) extend/replace histories on a 2-provider retort: model = list prepend / scalar swap
    ops = [("extend", s) for s in syms] + [("replace_sc", False), ("replace_sc", True),
                                           ("replace_dt", "FIRST"), ("replace_dt", "DISABLE")]
    base = (("Decimal", "chain_first"), ("P.ANY", "decline"))
    for n in range(0, depth + 1):
        for hist in itertools.product(ops, repeat=n):
            model_recipe = list(base)
            sc, dt = True, "ALL"
            for op, arg in hist:
                if op == "extend":
                    model_recipe.insert(0, arg)
                elif op == "replace_sc":
                    sc = arg
                else:
                    dt = arg

            def factory(providers, hist=hist, nbase=len(base)):
                # providers are given in model order; peel the extend()ed ones off the front again
                n_ext = sum(1 for op, _ in hist if op == "extend")
                ext, basep = providers[:n_ext], providers[n_ext:]
                retort = Retort(recipe=basep)
                originals = [retort]
                k = n_ext
                for op, arg in hist:
                    if op == "extend":
                        k -= 1
                        retort = retort.extend(recipe=[ext[k]])
                    elif op == "replace_sc":
                        retort = retort.replace(strict_coercion=arg)
                    else:
                        retort = retort.replace(debug_trail=DebugTrail[arg])
                    originals.append(retort)
                factory.final = retort
                return retort

            for req in ("D", "M", "L"):
                for direction in ("load", "dump"):
                    compare(tuple(model_recipe), req, direction, report, part="history", retort_factory=factory)
            # scalar options of the final retort: observable behaviour, not attributes
            final = factory([build_provider(i, s, [], []) for i, s in enumerate(model_recipe)])
            _check_options(final, sc, dt, hist, report)

    # (b) subclassed retorts: instance recipe, then class recipes in MRO order, then builtins
    for s0, s1, s2 in itertools.product(syms, repeat=3):
        def factory(providers):
            p0, p2, p1 = providers

            class R1(Retort):
                recipe = [p1]

            class R2(R1):
                recipe = [p2]

            return R2(recipe=[p0])

        for req in ("D", "M"):
            for direction in ("load", "dump"):
                compare((s0, s2, s1), req, direction, report, part="subclass", retort_factory=factory)

    # (c) a retort placed in a recipe serves matched requests from its own recipe and options
    for inner_syms in itertools.chain.from_iterable(itertools.product(syms, repeat=n) for n in (0, 1, 2)):
        for outer_sym in [None, *syms]:
            for bound_to in (None, "Decimal"):
                _retort_in_recipe(inner_syms, outer_sym, bound_to, report)
        for how in ("extend", "replace"):
            _derived_retort_in_recipe(inner_syms, how, report)


def _derived_retort_in_recipe(inner_syms, how, report):
    """Model: a retort derived by extend()/replace() from a retort that already served inside another recipe is a new provider:
    placed in a second recipe it serves matched requests from ITS recipe (extension first) and ITS options."""
    from adaptix.load_error import LoadError

    log, calls = [], []
    inner_providers = [build_provider(i, s, log, calls) for i, s in enumerate(inner_syms)]
    parent = Retort(recipe=inner_providers, strict_coercion=False)
    case = {"part": "derived_retort_in_recipe", "inner": [list(s) for s in inner_syms], "how": how}
    report.case(key=("drir", inner_syms, how), nontrivial=True, sample=case)
    report.count("traces_validated_against_impl", 1)
    try:
        with deadline(CASE_DEADLINE):
            Retort(recipe=[parent]).get_loader(Decimal)      # the parent has served inside a recipe
            del log[:]
            if how == "extend":
                ext = build_provider(200, ("Decimal", "plain"), log, calls)
                derived = parent.extend(recipe=[ext])
                ref_syms = (("Decimal", "plain"), *inner_syms)
                tags = {0: 200, **{i + 1: i for i in range(len(inner_syms))}}
            else:
                derived = parent.replace(strict_coercion=True)
                ref_syms = tuple(inner_syms)
                tags = {i: i for i in range(len(inner_syms))}
            ld = Retort(recipe=[derived], strict_coercion=False).get_loader(Decimal)
    except CaseTimeout:
        report.violation({"check": "C09.derived_retort_in_recipe", "problem": "does_not_terminate"}, f"{case}: no result", case)
        return
    except Exception as e:  # noqa: BLE001
        report.violation({"check": "C09.derived_retort_in_recipe", "problem": "creation_failed"},
                         f"{case}: {type(e).__name__}: {e}"[:300], case)
        return
    out = RefResult()
    stages = ref_serve(ref_syms, "D", 0, out)
    want = [(tags[i], loc) for i, loc in out.consults]
    if log != want:
        report.violation({"check": "C09.derived_retort_in_recipe", "problem": "consult_trace", "how": how},
                         f"{case}: the derived retort inside a recipe consults {log}, its own recipe means {want} "
                         f"(a retort derived from one that already served in a recipe still answers as its parent?)", case)
        return
    if how == "replace" and any(not isinstance(s, int) for s in stages):
        # served by the builtin Decimal loader of the derived (strict) retort: an int datum is rejected; the lax parent accepts it
        try:
            res = ("ok", _norm(ld(1)))
        except LoadError:
            res = ("rejected",)
        if res != ("rejected",):
            report.violation({"check": "C09.derived_retort_in_recipe", "problem": "options", "how": how},
                             f"{case}: load(1, Decimal) gave {res}; the derived retort is strict and must reject it", case)


def _delegating_field_types(report):
    """a chained function bound to a FIELD (by name) is composed exactly once with what serves the field, whatever kind of hint the
    field has: NewType, Annotated and plain hints are compared (the builtin providers of the first two serve by delegating to
    the underlying type, which starts a second search for the same field location)"""
    import dataclasses
    from typing import Annotated, NewType
    UserId = NewType("UserId", int)
    hints = {"plain": int, "NewType": UserId, "Annotated": Annotated[int, "meta"], "NewType of Annotated": NewType("W", Annotated[int, "m"])}
    for hname, hint in hints.items():
        cls = dataclasses.make_dataclass("M", [("f", hint), ("other", int)])
        for chain in (Chain.FIRST, Chain.LAST):
            for pred_name, mk_pred in (("P.f", lambda cls: P.f), ("P[M].f", lambda cls: P[cls].f)):
                case = {"part": "delegating_field_types", "hint": hname, "chain": chain.name, "pred": pred_name}
                report.case(key=("dft", hname, chain.name, pred_name), nontrivial=True, sample=case)
                report.count("traces_validated_against_impl", 1)
                calls = []

                def bump(x, calls=calls):
                    calls.append(x)
                    return x + 1 if type(x) is int else x
                try:
                    with deadline(CASE_DEADLINE):
                        r = Retort(recipe=[loader(mk_pred(cls), bump, chain), dumper(mk_pred(cls), bump, chain)])
                        loaded = r.load({"f": 10, "other": 0}, cls)
                        n_load = len(calls)
                        dumped = r.dump(cls(10, 0))
                except Exception as e:  # noqa: BLE001
                    report.violation({"check": "C09.delegating_field_types", "problem": "failed", "hint": hname},
                                     f"{case}: {type(e).__name__}: {str(e)[:150]}", case)
                    continue
                if (loaded.f, dumped["f"], n_load, len(calls) - n_load) != (11, 11, 1, 1):
                    report.violation({"check": "C09.delegating_field_types", "problem": "composed_more_than_once",
                                      "hint": "delegating" if hname != "plain" else "plain"},
                                     f"loader/dumper({pred_name}, x+1, {chain.name}) on a field typed {hname}: load(10) gives f={loaded.f} "
                                     f"({n_load} calls), dump(10) gives {dumped['f']} ({len(calls) - n_load} calls); composing exactly once "
                                     f"gives 11 (1 call each)", case)


def _inner_retort_cannot_serve(report):
    """a retort standing in a recipe that cannot serve a request declines it: the providers after it are consulted"""
    import dataclasses
    from typing import NewType
    payload = dataclasses.make_dataclass("Payload", [("raw", memoryview)])        # no builtin loader for memoryview
    blob = NewType("Blob", payload)
    envelope = dataclasses.make_dataclass("Envelope", [("id", int), ("blob", blob)])
    envelope2 = dataclasses.make_dataclass("Envelope2", [("id", int), ("p", payload)])

    def load_payload(data):
        return payload(raw=memoryview(bytes(data)))
    programs = {
        "NewType, extend([inner])": ("newtype", lambda: Retort(recipe=[loader(blob, load_payload)]).extend(recipe=[Retort()]), blob, [1, 2]),
        "NewType field, bound(inner)": ("newtype", lambda: Retort(recipe=[bound(blob, Retort()), loader(blob, load_payload)]), envelope,
                                        {"id": 1, "blob": [4]}),
        "model, [inner, loader]": ("model", lambda: Retort(recipe=[Retort(), loader(payload, load_payload)]), payload, [1, 2]),
        "model field, [inner, loader]": ("model", lambda: Retort(recipe=[Retort(), loader(payload, load_payload)]), envelope2,
                                         {"id": 1, "p": [4]}),
    }
    for pname, (request_kind, mk, tp, data) in programs.items():
        case = {"part": "inner_retort_cannot_serve", "program": pname}
        report.case(key=("ircs", pname), nontrivial=True, sample=case)
        report.count("traces_validated_against_impl", 1)
        try:
            with deadline(CASE_DEADLINE):
                mk().load(data, tp)
            report.outcome("inner retort declined, the next provider served")
        except Exception as e:  # noqa: BLE001
            report.violation({"check": "C09.inner_retort_cannot_serve", "request": request_kind, "exc": type(e).__name__},
                             f"{pname}: the inner retort cannot serve the request, the loader standing after it can, but load raised "
                             f"{type(e).__name__}: {str(e)[:120]}", case)


def _check_options(retort, sc, dt, hist, report):
    try:
        with deadline(CASE_DEADLINE):
            _check_options_inner(retort, sc, dt, hist, report)
    except CaseTimeout:
        report.violation({"check": "C09.options", "problem": "does_not_terminate"},
                         f"history {hist}: load did not return within {CASE_DEADLINE} s (routing loop)",
                         {"part": "options", "history": [list(map(str, h)) for h in hist]})
    except Exception as e:  # noqa: BLE001
        report.violation({"check": "C09.options", "problem": "unexpected_exception", "exc": type(e).__name__},
                         f"history {hist}: {type(e).__name__}: {str(e)[:200]}",
                         {"part": "options", "history": [list(map(str, h)) for h in hist]})


def _check_options_inner(retort, sc, dt, hist, report):
    from adaptix.load_error import AggregateLoadError, LoadError
    from adaptix.struct_trail import get_trail

    case = {"part": "options", "history": [list(map(str, h)) for h in hist]}
    report.case(key=("options", hist), nontrivial=bool(hist), sample=case)
    # strict_coercion observable: int loader accepts "1" only when lax
    try:
        retort.load("1", int)
        lax = True
    except LoadError:
        lax = False
    # debug_trail observable on List[int] with a bad element
    try:
        retort.load([1, "x" if not lax else None], List[int])
        mode = "no-error"
    except AggregateLoadError:
        mode = "ALL"
    except LoadError as e:
        mode = "FIRST" if list(get_trail(e)) else "DISABLE"
    if lax != (not sc) or mode != dt:
        report.violation({"check": "C09.options"},
                         f"history {hist}: expected strict={sc} debug_trail={dt}, observed lax={lax} mode={mode}", case)


def _retort_in_recipe(inner_syms, outer_sym, bound_to, report):
    """Model: the inner retort is one provider of the outer recipe (position 0); a request it matches is served
    entirely by the inner retort: inner recipe, then the inner retort's builtins, with the inner options."""
    from adaptix.load_error import LoadError

    log, calls = [], []
    inner_providers = [build_provider(i, s, log, calls) for i, s in enumerate(inner_syms)]
    inner = Retort(recipe=inner_providers, strict_coercion=False)   # differs from the outer (strict) option
    outer_providers = [bound(Decimal, inner) if bound_to else inner]
    if outer_sym is not None:
        outer_providers.append(build_provider(100, outer_sym, log, calls))
    outer = Retort(recipe=outer_providers)
    case = {"part": "retort_in_recipe", "inner": [list(s) for s in inner_syms],
            "outer_after": list(outer_sym) if outer_sym else None, "bound": bound_to}
    report.case(key=("rir", inner_syms, outer_sym, bound_to), nontrivial=True, sample=case)
    report.count("traces_validated_against_impl", 1)
    # model: for request D the inner retort matches first; outer providers behind it are never consulted
    out = RefResult()
    stages = ref_serve(tuple(inner_syms), "D", 0, out)
    report.count("states", len(out.states))
    report.count("transitions", out.transitions)
    try:
        with deadline(CASE_DEADLINE):
            ld = outer.get_loader(Decimal)
    except CaseTimeout:
        report.violation({"check": "C09.retort_in_recipe", "problem": "does_not_terminate"},
                         f"{case}: get_loader did not return within {CASE_DEADLINE} s (routing loop)", case)
        return
    except Exception as e:  # noqa: BLE001
        report.violation({"check": "C09.retort_in_recipe", "problem": "creation_failed"},
                         f"{case}: {type(e).__name__}: {e}"[:300], case)
        return
    if log != out.consults:
        report.violation({"check": "C09.retort_in_recipe", "problem": "consult_trace"},
                         f"{case}: consults impl {log} model {out.consults}", case)
        return
    # options: the inner retort is lax -> Decimal loader accepts an int datum; outer (strict) would reject it
    served_by_builtin = any(not isinstance(s, int) for s in stages)
    try:
        res = ("ok", _norm(ld(1)))
    except LoadError:
        res = ("exc",)
    expect = ("ok", ("Decimal", Decimal(1))) if served_by_builtin else ("ok", ("int", 1))
    if res != expect:
        report.violation({"check": "C09.retort_in_recipe", "problem": "options"},
                         f"{case}: load(1, Decimal) gave {res}, inner lax retort should give {expect}", case)


# ---------------------------------------------------------------------------------------------------------------

def _same_provider_object_leg(report):
    """a recipe is a SEQUENCE of providers: the same provider object placed at several positions (twice in one recipe, in the class
    recipe and in the instance recipe, added once more by extend()) is consulted / chained once per position.  All sequences of
    length <= 3 over three chaining providers x all splits of the sequence into (extend recipe, instance recipe, class recipe);
    reference: the fold of the chain over the full sequence."""
    import itertools
    from adaptix import Chain, Retort, loader
    provs = {
        "inc": (loader(int, lambda x: x + 1, Chain.FIRST), "first", lambda x: x + 1),
        "tri": (loader(int, lambda x: x * 3, Chain.FIRST), "first", lambda x: x * 3),
        "dbl": (loader(int, lambda x: x * 2, Chain.LAST), "last", lambda x: x * 2),
    }

    def fold(seq, x):
        if not seq:
            return x
        _, how, f = provs[seq[0]]
        return fold(seq[1:], f(x)) if how == "first" else f(fold(seq[1:], x))
    for n in (1, 2, 3):
        for seq in itertools.product(provs, repeat=n):
            if len(set(seq)) == n:
                continue        # only sequences in which some provider object occurs more than once
            for cut1 in range(n + 1):
                for cut2 in range(cut1, n + 1):
                    ext, inst, cls_part = seq[:cut1], seq[cut1:cut2], seq[cut2:]
                    case = {"part": "same_provider_object", "extend": list(ext), "instance": list(inst), "class": list(cls_part)}
                    report.case(("same_object", seq, cut1, cut2), nontrivial=True, sample=case)
                    report.count("traces_validated_against_impl", 1)
                    try:
                        klass = type("ProjectRetort", (Retort,), {"recipe": [provs[k][0] for k in cls_part]})
                        r = klass(recipe=[provs[k][0] for k in inst])
                        if ext:
                            r = r.extend(recipe=[provs[k][0] for k in ext])
                        got = r.load(10, int)
                    except Exception as e:  # noqa: BLE001
                        got = f"{type(e).__name__}: {str(e)[:80]}"
                    want = fold(seq, 10)
                    report.outcome("same_object:" + ("ok" if got == want else "differs"))
                    if got != want:
                        report.violation({"check": "C09", "part": "same_provider_object"},
                                         f"the same provider objects at several positions - extend {list(ext)}, instance recipe {list(inst)}, "
                                         f"class recipe {list(cls_part)}: load(10, int) = {got!r}, one application per position gives {want!r}", case)


def run(tier):
    report = Report()
    plan = recipes_for(tier)
    CORE_LEN[0] = plan[0][1]
    shards = []
    for (alphabet, max_len), name in zip(plan, ("core", "full")):
        for first in alphabet:
            shards.append((name, first, max_len, None))
    parallel.run_shards(shard_recipes, shards, report=report)
    # the empty recipe
    for req in REQUESTS:
        for direction in ("load", "dump"):
            compare((), req, direction, report)
    part2(tier, report)
    _delegating_field_types(report)
    _inner_retort_cannot_serve(report)
    _same_provider_object_leg(report)
    return report


def SANITY(report, tier):  # noqa: N802
    problems = []
    if report.counters["traces_validated_against_impl"] < 1000:
        problems.append("fewer than 1000 traces replayed")
    if len([k for k in report.outcomes if k.startswith("consults=")]) < 4:
        problems.append("consult counts do not vary")
    return problems


def extra_evidence(report, tier):
    return {
        "states": report.counters["states"],
        "transitions": report.counters["transitions"],
        "traces_validated_against_impl": report.counters["traces_validated_against_impl"],
    }


def replay(case):
    report = Report()
    part = case.get("part", "recipe")
    if part in ("recipe",):
        recipe = tuple(tuple(s) for s in case["recipe"])
        problem = compare(recipe, case["request"], case["direction"], report)
        return problem[1] if problem else None
    if part == "same_provider_object":
        _same_provider_object_leg(report)
        for v in report.violations.values():
            return v["what"]
        return None
    # histories / subclass / retort-in-recipe are cheap: re-run part 2 completely and report the first violation
    part2("thorough", report)
    for v in report.violations.values():
        if v["case"].get("part") == part:
            return v["what"]
    return None
