"""C04 — invalid input raises LoadError and nothing else (non-model part: MATRIX sweep; model part: see c04 models leg).

Every (type, datum, mode) of the MATRIX space is executed; whatever escapes must be a LoadError, and every leaf of
an escaping exception group must be a LoadError again.
"""
from decimal import Decimal

from adaptix.load_error import LoadError

from mc import codec, parallel
from mc.matrix import MODES, blame, kind_of, leaves_of, mode_name, raising_site, retort_for, type_shards
from mc.matrix import run as mrun
from mc.report import Report
from mc.space import SET_LIKE, from_json, show, to_hint, to_json, unwrap
from mc.ref_types import passes_any
from mc.sweep import load_sweep

META = {
    "level": "exploration",
    "rule": (
        "cases = (TypeSpec, datum, mode) triples, all enumerated (grammar depth<=2, thorough 3; hostile alphabet A0 at "
        "every nesting position of depth-2 types + structured data; 6 modes) plus generated models x hostile inputs; a case is "
        "non-trivial when loading raised (the oracle then inspects the exception tree)"
    ),
    "assumptions": [
        "recipes contain builtin providers only, so every non-LoadError is attributed to adaptix",
        "small-scope: data outside the hostile alphabet and nesting beyond the bound are not covered",
    ],
    "bound": {"quick": "type depth <= 2; models <= 2 fields", "thorough": "type depth <= 3; models <= 3 fields"},
}


def bad_exception(exc):
    """None if the escaping exception is fine, else the offending leaf"""
    if not isinstance(exc, LoadError):
        leaves = leaves_of(exc)
        for leaf in leaves:
            if not isinstance(leaf, LoadError):
                return leaf
        return exc   # a plain ExceptionGroup of LoadErrors: still not a LoadError
    for leaf in leaves_of(exc):
        if not isinstance(leaf, LoadError):
            return leaf
    return None


def _bad(ts, d, mode, want_cls):
    try:
        loader = retort_for(mode).get_loader(to_hint(ts))
    except Exception:  # noqa: BLE001
        return False
    out = mrun(loader, d)
    if out.ok:
        return False
    leaf = bad_exception(out.exc)
    return leaf is not None and type(leaf).__name__ == want_cls


def oracle(ctx):
    ts, datum, report = ctx.ts, ctx.datum, ctx.report
    for mode in MODES:
        out = ctx.vec[mode]
        key = (ts, datum.name, mode)
        if out.ok:
            report.case(key)
            report.outcome("accepted")
            continue
        report.case(key, nontrivial=True,
                    sample=lambda: {"type": to_json(ts), "datum": datum.name, "mode": mode_name(mode),
                                    "raised": type(out.exc).__name__})
        leaf = bad_exception(out.exc)
        report.outcome("raised=" + ("LoadError" if leaf is None else "other"))
        if leaf is None:
            continue
        cls = type(leaf).__name__
        if datum.one_shot:
            bts, bd = ts, datum.fresh()
        else:
            bts, bd = blame(ts, ctx.inputs[mode], lambda t, d: _bad(t, d, mode, cls))
        site = raising_site(leaf)
        wrapped = leaf is not out.exc
        sig = {"check": "C04.types", "leaf": show(bts) if len(bts) <= 2 and not isinstance(bts[-1], tuple) else bts[0],
               "exc": cls, "datum_kind": kind_of(bd)}
        if cls == "TypeError" and str(leaf).startswith("unhashable type") and bts[0] in SET_LIKE \
                and passes_any(bts[1]):
            sig = {"check": "C04.types", "cause": "unhashable_element_into_set_of_Any", "exc": cls}
        if cls == "TypeError" and str(leaf).startswith("unhashable type") and bts[0] in SET_LIKE \
                and unwrap(bts[1])[0] == "Literal":
            sig = {"check": "C04.types", "cause": "unhashable_lookalike_of_literal_member_into_set", "exc": cls}
        if cls == "InvalidOperation" and bts[0] == "Literal" and type(bd) is Decimal and bd.is_snan():
            sig = {"check": "C04.types", "cause": "signaling_nan_compared_with_literal_members", "exc": cls}
        if cls == "TypeError" and str(leaf).startswith("Cannot hash a signaling NaN") and bts[0] in SET_LIKE:
            sig = {"check": "C04.types", "cause": "signaling_nan_into_set", "exc": cls}
        report.violation(
            sig,
            f"load {show(ts)} <- {datum.name} [{mode_name(mode)}]: escaping {type(out.exc).__name__}"
            + (f" wrapping {cls}" if wrapped else "") + f": {str(leaf)[:100]} (raised in {site}; blamed {show(bts)} <- {codec.show(bd, 50)})",
            {"kind": "types", "type": to_json(ts), "datum": datum.name, "mode": list(mode)},
        )


def shard(types):
    report = Report()
    load_sweep(types, oracle, report)
    return report


def run(tier):
    report = Report()
    parallel.run_shards(shard, type_shards(tier, 64 if tier == "quick" else 256), report=report)
    try:
        from checks import c04_models
    except ImportError:
        report.notes.append("model leg not built yet")
    else:
        c04_models.run(tier, report)
    from checks import c04_variants
    c04_variants.run(tier, report)
    return report


def SANITY(report, tier):  # noqa: N802
    if report.outcomes["raised=LoadError"] < 1000:
        return ["fewer than 1000 rejected inputs"]
    return []


def replay(case):
    from mc.matrix import find_datum
    from mc.sweep import Ctx, loaders_for
    report = Report()
    if case["kind"] == "variant":
        from checks import c04_variants
        return c04_variants.replay(case)
    if case["kind"] != "types":
        from checks import c04_models
        return c04_models.replay(case)
    ts = from_json(case["type"])
    datum = find_datum(ts, case["datum"])
    ctx = Ctx()
    ctx.ts, ctx.datum, ctx.report = ts, datum, report
    loaders = loaders_for(ts)
    ctx.inputs = {mode: datum.fresh() for mode in MODES}
    ctx.vec = {mode: mrun(loaders[mode], ctx.inputs[mode]) for mode in MODES}
    oracle(ctx)
    for v in report.violations.values():
        return v["what"]
    return None
